#!/bin/sh
# Build the Lean project from files on disk only: the property modules and drivers of every claimed check
# (lean/targets.txt is written by tools/gen_manifest.py from tools/manifest_src.json).
# A target that does not build is NOT a setup failure: every check rebuilds its own modules and drivers and reports
# a module that no longer checks as a broken proof obligation of its property (with the failing-input search).
# Setup fails only if the tool chain itself is unusable.
cd "$(dirname "$0")/lean" || exit 2
command -v lake > /dev/null 2>&1 || { echo "lake not found"; exit 2; }
targets=$(cat targets.txt)
echo "building:" $targets
rc=0
flock .lock lake build $targets > .setup.log 2>&1 || rc=$?
if [ $rc -ne 0 ]; then
  # build whatever else can be built (lake stops scheduling after a failure only for dependants)
  echo "setup: some targets did not build (rc=$rc); building the remaining targets one by one"
  for t in $targets; do
    flock .lock lake build "$t" >> .setup.log 2>&1 || echo "setup: target $t does not build (its check will report it)"
  done
fi
grep -v "^⚠\|warning\|linter\|Hint\|\[apply\]\|^Note\|^$" .setup.log | tail -15
exit 0
