#!/bin/sh
# Build the Lean project (all property modules + drivers) from files on disk only.
set -e
cd "$(dirname "$0")/lean"
lake build NunavutVerif $(sed -n 's/^name = "\([a-z0-9_]*\)"$/\1/p' lakefile.toml | grep -v NunavutVerif) 2>&1 | tail -5
