#!/bin/sh
# Build the Lean project (every property module + every driver whose source exists) from files on disk only.
set -e
cd "$(dirname "$0")/lean"
mods=$(ls NunavutVerif/Properties/*.lean | sed 's#/#.#g; s#\.lean$##')
exes=""
for e in $(awk '/^name = /{n=$3} /^root = /{gsub(/"/,"",n); r=$3; gsub(/"/,"",r); gsub(/\./,"/",r); print n":"r}' lakefile.toml); do
  n=${e%%:*}; f=${e#*:}.lean
  [ -f "$f" ] && exes="$exes $n"
done
echo "building: $mods $exes"
rc=0
flock .lock lake build $mods $exes > .setup.log 2>&1 || rc=$?
grep -v "^⚠\|warning\|linter\|Hint\|\[apply\]\|^Note\|^$" .setup.log | tail -15
exit $rc
