#!/bin/sh
# Build the Lean project from files on disk only: the property modules and drivers of every claimed check
# (lean/targets.txt is written by tools/gen_manifest.py from tools/manifest_src.json).
cd "$(dirname "$0")/lean" || exit 2
targets=$(cat targets.txt)
echo "building:" $targets
rc=0
flock .lock lake build $targets > .setup.log 2>&1 || rc=$?
grep -v "^⚠\|warning\|linter\|Hint\|\[apply\]\|^Note\|^$" .setup.log | tail -15
exit $rc
