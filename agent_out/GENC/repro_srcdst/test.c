#include <stdint.h>
#include <stddef.h>
#include "vns/U_1_0.h"
static vns_U_1_0 obj;
static size_t sz = 0;
__attribute__((noinline)) int h(void)
{
    uint8_t buf[1] = {7};
    return vns_U_1_0_deserialize_(&obj, buf + 1, &sz) < 0;   /* valid: one-past pointer, size 0 */
}
int main(void) { return h(); }
