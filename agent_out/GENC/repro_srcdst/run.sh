#!/bin/bash
cd "$(dirname "$0")"
rm -rf out
PYTHONPATH=/repo/src /venv/bin/python -m nunavut --target-language c --enable-serialization-asserts --outdir out vns
for O in -O0 -O1 -O2 -O3 -Os; do
  clang $O -Iout -DNUNAVUT_ASSERT=assert -include assert.h test.c -o test_clang$O && ./test_clang$O; echo "clang $O rc=$?"
done
