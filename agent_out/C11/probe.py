import sys, os, tempfile, pathlib, traceback
sys.path.insert(0, "/repo/src"); sys.path.insert(0, "/verif")
sys.dont_write_bytecode = True
from harness import c11
base = pathlib.Path(tempfile.mkdtemp(prefix="c11probe_"))
roots = c11.write_corpus_universe(base / "dsdl", c11.CLI_SPEC)
types = c11.read_root(roots[0])
from nunavut import build_namespace_tree
from nunavut.jinja import DSDLCodeGenerator
(base / "sb").mkdir()
tdir, fdir = c11.prepare_templates(str(base / "sb"), "Top")
for lang in ["c", "py"]:
    root = build_namespace_tree(types, roots[0]["dir"], str(base / "out"), c11.make_lctx(lang))
    try:
        DSDLCodeGenerator(root, templates_dir=fdir).generate_all(is_dryrun=False)
    except Exception as e:
        print(lang, type(e).__name__, str(e)[:300])
import shutil; shutil.rmtree(base)
