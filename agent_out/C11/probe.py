import sys, os, time, io, contextlib, tempfile, pathlib
sys.path.insert(0, "/repo/src")
sys.dont_write_bytecode = True
import nunavut.cli

base = tempfile.mkdtemp(prefix="c11probe_")
b = pathlib.Path(base)
for d in ["dsdl/vendor/a/b", "dsdl/vendor/register", "work", "real/deep", "tmp", "tpl"]:
    (b / d).mkdir(parents=True)
os.symlink("../real/deep", b / "work" / "link")
(b / "dsdl/vendor/Top.1.0.dsdl").write_text("uint8 x\n@sealed\n")
(b / "dsdl/vendor/a/b/Deep.1.0.dsdl").write_text("uint8 x\n@sealed\n")
(b / "dsdl/vendor/register/User.2.0.dsdl").write_text("vendor.a.b.Deep.1.0 d\n@sealed\n")
(b / "tpl/Any.j2").write_text("{{ T | type_to_include_path }}\n")


def run(argv, cwd):
    old = os.getcwd(); oa = sys.argv
    os.chdir(cwd); sys.argv = ["nnvg"] + argv
    out = io.StringIO()
    try:
        with contextlib.redirect_stdout(out):
            try:
                rc = nunavut.cli.main()
            except SystemExit as e:
                rc = e.code
            except Exception as e:
                rc = repr(e)
    finally:
        os.chdir(old); sys.argv = oa
    return rc, out.getvalue()


for lang, extra in [("c", ["--templates", base + "/tpl"]), ("c", []), ("py", []), ("c", ["--templates", base + "/tpl", "-e", ""])]:
    for mode in (["--list-outputs"], []):
        t = time.time()
        rc, out = run(["--target-language", lang, "--outdir", "link/../out", "--generate-namespace-types"] + extra + mode + [base + "/dsdl/vendor"], base + "/work")
        print(lang, extra[-2:], mode, rc, round(time.time() - t, 3), out[:400])
print(os.listdir(base + "/real"), os.listdir(base + "/work"))
import shutil
shutil.rmtree(base)
