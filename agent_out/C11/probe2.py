import sys, os, tempfile, pathlib, re
sys.path.insert(0, "/repo/src"); sys.path.insert(0, "/verif")
sys.dont_write_bytecode = True
from harness import c11
base = pathlib.Path(tempfile.mkdtemp(prefix="c11probe_"))
spec = {"roots": [{"name": "vendor", "files": {"register/Sample.1.0.dsdl": "uint8 x\n@sealed\n", "register/_Upper/delete.1.0.dsdl": "vendor.register.Sample.1.0 s\n@sealed\n", "in/Q.1.0.dsdl":"vendor.register.Sample.1.0 s\n@sealed\n"}}]}
roots = c11.write_corpus_universe(base / "dsdl", spec)
types = c11.read_root(roots[0])
from nunavut import build_namespace_tree
from nunavut.jinja import DSDLCodeGenerator
for lang in ["c", "cpp", "py"]:
    lctx = c11.make_lctx(lang)
    L = lctx.get_target_language()
    root = build_namespace_tree(types, roots[0]["dir"], str(base / lang), lctx)
    DSDLCodeGenerator(root).generate_all(is_dryrun=False)
    for t, p in root.get_all_datatypes():
        txt = pathlib.Path(p).read_text()
        print("==", lang, p.relative_to(base))
        for l in txt.split("\n"):
            if re.search(r"^\s*namespace\b|^} // namespace|FULL_NAME_ |^typedef struct|^import |^from |^class |#include \"vendor|#include <vendor|^} vendor|^struct ", l):
                print("   ", l[:150])
    names = c11.dsdlgen_simple.KEYWORDS + c11.dsdlgen_simple.PLAIN
    print(lang, "path!=any:", [(n, L.filter_id(n, "path"), L.filter_id(n)) for n in names if L.filter_id(n, "path") != L.filter_id(n)][:10])
import shutil; shutil.rmtree(base)
