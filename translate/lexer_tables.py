"""
C19 translator: the data part of the bundled lexer's tag rules, read from the real module of the tree under check
(`nunavut.jinja.jinja2.lexer`)  ->  lean/NunavutVerif/Gen/LexerTables.lean

  * the character class of `name_re` (`[\\w` + the identifier pattern + `]+`) and of `integer_re` (`\\d+`) as code-point
    ranges, taken from Python's own `re` by matching every code point;
  * the alternatives of `operator_re` in regex order (from the parse tree of the pattern);
  * the operator -> token-type table `operators`.

The shapes the hand model transcribes (`float_re`, `string_re`, `whitespace_re`, `newline_re`, the sets
`ignore_if_empty` / `ignored_tokens`) are compared with the text the model was written from; a difference raises
Unsupported (= the tie is broken), nothing is skipped silently.  The file is rewritten only when its content changed.
"""
import os
import pathlib
import re
import sys

try:
    import re._parser as sre_parse
    import re._constants as sre_c
except ImportError:  # Python < 3.11
    import sre_parse
    import sre_constants as sre_c

VERIF = pathlib.Path(__file__).resolve().parent.parent
OUT = VERIF / "lean" / "NunavutVerif" / "Gen" / "LexerTables.lean"
MAXCP = 0x10FFFF

EXPECTED = {
    "float_re": (r"(?<!\.)\d+\.\d+", re.U),
    "integer_re": (r"\d+", re.U),
    "whitespace_re": (r"\s+", re.U),
    "newline_re": (r"(\r\n|\r|\n)", re.U),
    "string_re": (r"""('([^'\\]*(?:\\.[^'\\]*)*)'|"([^"\\]*(?:\\.[^"\\]*)*)")""", re.U | re.S),
}
EXPECTED_IGNORE_IF_EMPTY = {"whitespace", "data", "comment", "linecomment"}
EXPECTED_IGNORED = {"comment_begin", "comment", "comment_end", "whitespace", "linecomment_begin", "linecomment_end", "linecomment"}


class Unsupported(Exception):
    pass


def lexer_module():
    repo = os.environ.get("VERIF_REPO", "/repo")
    src = str(pathlib.Path(repo) / "src")
    if src not in sys.path:
        sys.path.insert(0, src)
    import nunavut.jinja.jinja2.lexer as L
    return L


def _ranges(rx):
    out = []
    for c in range(MAXCP + 1):
        if 0xD800 <= c <= 0xDFFF:
            continue
        if rx.fullmatch(chr(c)):
            if out and out[-1][1] == c - 1:
                out[-1][1] = c
            else:
                out.append([c, c])
    return [tuple(r) for r in out]


def _single_class(pattern, what):
    """`C+` for one character class / category `C` -> a regex matching exactly one character of `C`."""
    tree = sre_parse.parse(pattern)
    if len(tree) != 1 or tree[0][0] is not sre_c.MAX_REPEAT:
        raise Unsupported(f"{what}: not of the form CLASS+ : {pattern[:40]!r}")
    lo, hi, body = tree[0][1]
    if lo != 1 or hi != sre_c.MAXREPEAT or len(body) != 1 or body[0][0] not in (sre_c.IN, sre_c.CATEGORY):
        raise Unsupported(f"{what}: not of the form CLASS+ : {pattern[:40]!r}")
    return pattern[:-1]


def _operator_alternatives(pattern):
    tree = sre_parse.parse(pattern)
    if len(tree) != 1 or tree[0][0] is not sre_c.SUBPATTERN:
        raise Unsupported("operator_re: not a single group")
    body = tree[0][1][3]
    if len(body) != 1 or body[0][0] is not sre_c.BRANCH:
        raise Unsupported("operator_re: not an alternation")
    alts = []
    for alt in body[0][1][1]:
        s = ""
        for op, arg in alt:
            if op is not sre_c.LITERAL:
                raise Unsupported("operator_re: alternative is not a literal")
            s += chr(arg)
        alts.append(s)
    return alts


def tables():
    L = lexer_module()
    for name, (pat, flags) in EXPECTED.items():
        rx = getattr(L, name)
        if rx.pattern != pat or (rx.flags & (re.S | re.M | re.I | re.X | re.A)) != (flags & (re.S | re.M | re.I | re.X | re.A)):
            raise Unsupported(f"{name} is {rx.pattern!r} (flags {rx.flags}); the model transcribes {pat!r}")
    if set(L.ignore_if_empty) != EXPECTED_IGNORE_IF_EMPTY:
        raise Unsupported(f"ignore_if_empty is {sorted(L.ignore_if_empty)}")
    if set(L.ignored_tokens) != EXPECTED_IGNORED:
        raise Unsupported(f"ignored_tokens is {sorted(L.ignored_tokens)}")
    word = _ranges(re.compile(_single_class(L.name_re.pattern, "name_re"), L.name_re.flags))
    digit = _ranges(re.compile(_single_class(L.integer_re.pattern, "integer_re"), L.integer_re.flags))
    ops = _operator_alternatives(L.operator_re.pattern)
    if sorted(ops) != sorted(L.operators):
        raise Unsupported("operator_re does not list exactly the keys of `operators`")
    optypes = [(o, L.operators[o]) for o in ops]
    return {"word": word, "digit": digit, "operators": ops, "operator_types": optypes}


def _lean_str(s):
    return "[" + ", ".join(f"Char.ofNat {ord(c)}" for c in s) + "]"


def render(t):
    def rng(rs):
        lines, cur = [], "  "
        for a, b in rs:
            item = f"({a}, {b}), "
            if len(cur) + len(item) > 118:
                lines.append(cur.rstrip())
                cur = "  "
            cur += item
        lines.append(cur.rstrip().rstrip(","))
        return "[\n" + "\n".join(lines) + "]"
    out = []
    out.append("/-!\nGENERATED by translate/lexer_tables.py from nunavut/jinja/jinja2/lexer.py of the tree under check — do not edit.\n"
               "Character classes of the tag rules as inclusive code-point ranges (ascending), the alternatives of `operator_re`\n"
               "in regex order, and the token type of every operator.\n-/")
    out.append("namespace NunavutVerif.Gen.LexerTables\n")
    out.append(f"/-- the class of `name_re`: {len(t['word'])} ranges -/")
    out.append("def wordRanges : List (Nat × Nat) := " + rng(t["word"]) + "\n")
    out.append(f"/-- `\\d`: {len(t['digit'])} ranges -/")
    out.append("def digitRanges : List (Nat × Nat) := " + rng(t["digit"]) + "\n")
    out.append("def operators : List (List Char) := [\n  " + ",\n  ".join(_lean_str(o) for o in t["operators"]) + "]\n")
    out.append("def operatorTypes : List (List Char × String) := [\n  " +
               ",\n  ".join(f"({_lean_str(o)}, \"{ty}\")" for o, ty in t["operator_types"]) + "]\n")
    out.append("end NunavutVerif.Gen.LexerTables\n")
    return "\n".join(out)


def generate(write=True):
    """Returns (tables, changed).  Raises Unsupported when the source cannot be expressed."""
    t = tables()
    text = render(t)
    changed = False
    if write:
        OUT.parent.mkdir(parents=True, exist_ok=True)
        if not OUT.exists() or OUT.read_text() != text:
            OUT.write_text(text)
            changed = True
    return t, changed


if __name__ == "__main__":
    _, ch = generate()
    print("LexerTables.lean", "rewritten" if ch else "unchanged")
