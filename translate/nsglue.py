"""
Translator for the path glue of C11: regenerate `lean/NunavutVerif/Gen/NsGlue.lean` from the tree under check.

The model `Model/NamespaceGlue.lean` transcribes the route from the command line / the builder API to the three values
`Namespace` builds paths from (base output path, extension, namespace-file stem).  This translator

* reads the *data* of that route from the real objects: the `--outdir` default, the configuration keys
  (`Language.WKCV_DEFINITION_FILE_EXTENSION`, `Language.WKCV_NAMESPACE_FILE_STEM`), `Namespace.DefaultOutputStem` and, for
  every language section of `properties.yaml`, the values of the two keys (string, null or absent);
* checks by AST that the *code* of the route still has exactly the shape the model transcribes:
    - the parser: `--outdir/-O` (string default, no `type`), `--output-extension/-e` (`type=extension_type`, default None),
      `--namespace-output-stem` (no `type`, default None); `extension_type` itself;
    - `ArgparseRunner._create_language_context`: both overrides handed to the builder *unconditionally*, exactly as parsed;
      `ArgparseRunner.__init__`: `build_namespace_tree(type_map, str(root_namespace), self._args.outdir, self._language_context)`;
    - `LanguageContextBuilder.set_target_language_configuration_override` (`if value is not None`) and
      `set_target_language_extension`; `Language.extension`; the two `get_config_value` calls of `Namespace.__init__`;
      `build_namespace_tree`'s `pathlib.PurePath(output_dir)`.
  Anything else cannot be expressed (raises `CannotTranslate`: tie broken) - nothing is skipped silently.

Output: data only.  Writes the file only when its content changed.
"""
import ast
import pathlib
import sys
import textwrap

VERIF = pathlib.Path(__file__).resolve().parent.parent
OUT = VERIF / "lean" / "NunavutVerif" / "Gen" / "NsGlue.lean"


class CannotTranslate(Exception):
    pass


def _lit(s: str) -> str:
    if not isinstance(s, str) or any(ord(c) < 0x20 or ord(c) > 0x7e or c in '"\\' for c in s):
        raise CannotTranslate(f"string {s!r} has characters outside the expressible set")
    return '"' + s + '"'


def _dump(src: str) -> str:
    return ast.dump(ast.parse(textwrap.dedent(src)).body[0])


def _strip_doc(body):
    if body and isinstance(body[0], ast.Expr) and isinstance(getattr(body[0], "value", None), ast.Constant) \
            and isinstance(body[0].value.value, str):
        return body[1:]
    return body


def _find_def(tree, *names):
    """Nested lookup of class / function definitions by name."""
    node = tree
    for n in names:
        hit = [x for x in ast.walk(node) if isinstance(x, (ast.FunctionDef, ast.ClassDef)) and x.name == n]
        if len(hit) != 1:
            raise CannotTranslate(f"{'.'.join(names)}: {len(hit)} definitions of {n}")
        node = hit[0]
    return node


def _expect_body(fn, *stmts, what):
    got = [ast.dump(s) for s in _strip_doc(fn.body)]
    want = [_dump(s) for s in stmts]
    if got != want:
        raise CannotTranslate(f"{what}: the body is no longer {' ; '.join(s.strip() for s in stmts)}")


def _expect_stmt(fn, stmt, what, top_level=True):
    """`stmt` occurs exactly once in `fn`, as an unconditional top-level statement of its body."""
    want = _dump(stmt)
    top = [s for s in fn.body if ast.dump(s) == want]
    anywhere = [s for s in ast.walk(fn) if isinstance(s, ast.stmt) and ast.dump(s) == want]
    if len(anywhere) != 1 or (top_level and len(top) != 1):
        raise CannotTranslate(f"{what}: expected exactly one unconditional `{stmt.strip()}` "
                              f"(found {len(top)} at top level, {len(anywhere)} in all)")


def check_shape(repo: pathlib.Path):
    src = repo / "src" / "nunavut"
    cli = ast.parse((src / "cli" / "__init__.py").read_text())
    ext = _find_def(cli, "_make_parser", "extension_type")
    _expect_body(ext, """
        if len(raw_arg) > 0 and not raw_arg.startswith("."):
            return "." + raw_arg
        else:
            return raw_arg
        """, what="cli.extension_type")

    runners = ast.parse((src / "cli" / "runners.py").read_text())
    clc = _find_def(runners, "ArgparseRunner", "_create_language_context")
    _expect_stmt(clc, "builder.set_target_language_extension(self._args.output_extension)", "_create_language_context")
    _expect_stmt(clc, """
        builder.set_target_language_configuration_override(
            Language.WKCV_NAMESPACE_FILE_STEM, self._args.namespace_output_stem
        )
        """, "_create_language_context")
    # no other statement of the function touches the two arguments or the two keys
    uses = [n for n in ast.walk(clc) if isinstance(n, ast.Attribute) and n.attr in
            ("output_extension", "namespace_output_stem", "WKCV_NAMESPACE_FILE_STEM", "WKCV_DEFINITION_FILE_EXTENSION", "outdir")]
    if len(uses) != 3:
        raise CannotTranslate(f"_create_language_context: {len(uses)} uses of the extension / stem arguments and keys, expected 3")
    init = _find_def(runners, "ArgparseRunner", "__init__")
    _expect_stmt(init, """
        self._root_namespace = build_namespace_tree(
            type_map, str(root_namespace), self._args.outdir, self._language_context
        )
        """, "ArgparseRunner.__init__")
    if sum(1 for n in ast.walk(runners) if isinstance(n, ast.Attribute) and n.attr == "outdir") != 1:
        raise CannotTranslate("runners.py: --outdir is used in more than one place")

    lang = ast.parse((src / "lang" / "__init__.py").read_text())
    _expect_body(_find_def(lang, "LanguageContextBuilder", "set_target_language_configuration_override"), """
        if value is not None:
            self._target_language_config[key] = value
        """, "return self", what="LanguageContextBuilder.set_target_language_configuration_override")
    _expect_body(_find_def(lang, "LanguageContextBuilder", "set_target_language_extension"), """
        return self.set_target_language_configuration_override(
            Language.WKCV_DEFINITION_FILE_EXTENSION, target_language_extension
        )
        """, what="LanguageContextBuilder.set_target_language_extension")
    create = _find_def(lang, "LanguageContextBuilder", "create")
    _expect_stmt(create, """
        self.config.update_section(
            LanguageClassLoader.to_language_module_name(target_language_name), self._target_language_config
        )
        """, "LanguageContextBuilder.create")

    language = ast.parse((src / "lang" / "_language.py").read_text())
    _expect_body(_find_def(language, "Language", "extension"),
                 "return self._config.get_config_value(self._section, self.WKCV_DEFINITION_FILE_EXTENSION)",
                 what="Language.extension")

    config = ast.parse((src / "lang" / "_config.py").read_text())
    gcv = _find_def(config, "LanguageConfig", "get_config_value")
    _expect_body(gcv, """
        optional_result = self._get_config_value_raw(
            section_name, key, (self._UNSET if default_value is None else default_value)
        )
        """, 'return str(optional_result) if optional_result is not None else ""', what="LanguageConfig.get_config_value")
    _expect_body(_find_def(config, "LanguageConfig", "update_section"),
                 "self._sections[section_name] = deep_update(self._sections.get(section_name, {}), configuration)",
                 what="LanguageConfig.update_section")

    ns = ast.parse((src / "_namespace.py").read_text())
    ninit = _find_def(ns, "Namespace", "__init__")
    _expect_stmt(ninit, "output_stem = target_language.get_config_value(Language.WKCV_NAMESPACE_FILE_STEM, self.DefaultOutputStem)",
                 "Namespace.__init__")
    _expect_stmt(ninit, """
        self._output_path = output_path.with_suffix(
            target_language.get_config_value(Language.WKCV_DEFINITION_FILE_EXTENSION)
        )
        """, "Namespace.__init__")
    bnt = _find_def(ns, "build_namespace_tree")
    _expect_stmt(bnt, "nsf = _NamespaceFactory(language_context, pathlib.PurePath(output_dir), pathlib.Path(root_namespace_dir))",
                 "build_namespace_tree")


def collect(repo: pathlib.Path) -> dict:
    check_shape(repo)
    import nunavut
    import nunavut.cli
    from nunavut.lang import Language, LanguageContextBuilder
    parser = nunavut.cli._make_parser()   # pylint: disable=protected-access
    by_dest = {}
    for a in parser._actions:            # pylint: disable=protected-access
        by_dest.setdefault(a.dest, []).append(a)

    def one(dest, strings):
        acts = by_dest.get(dest, [])
        if len(acts) != 1 or sorted(acts[0].option_strings) != sorted(strings) or acts[0].nargs is not None \
                or type(acts[0]).__name__ != "_StoreAction" or acts[0].choices is not None or acts[0].required:
            raise CannotTranslate(f"parser action {dest}: not one plain store action {strings}")
        return acts[0]
    outdir = one("outdir", ["--outdir", "-O"])
    if outdir.type is not None:
        raise CannotTranslate(f"--outdir is converted by type={getattr(outdir.type, '__name__', outdir.type)!r}: "
                              "the model hands the spelling to pathlib.PurePath unchanged")
    if not isinstance(outdir.default, str):
        raise CannotTranslate(f"--outdir default {outdir.default!r} is not a string")
    ext = one("output_extension", ["--output-extension", "-e"])
    if getattr(ext.type, "__name__", None) != "extension_type" or ext.default is not None:
        raise CannotTranslate("--output-extension: type is not extension_type or the default is not None")
    stem = one("namespace_output_stem", ["--namespace-output-stem"])
    if stem.type is not None or stem.default is not None:
        raise CannotTranslate("--namespace-output-stem: has a type or a default")

    sections = LanguageContextBuilder(include_experimental_languages=True).config.sections()
    keys = (Language.WKCV_DEFINITION_FILE_EXTENSION, Language.WKCV_NAMESPACE_FILE_STEM)
    langs = []
    for name in sorted(sections):
        if not name.startswith("nunavut.lang."):
            continue
        row = []
        for k in keys:
            if k in sections[name]:
                v = sections[name][k]
                if v is not None and not isinstance(v, str):
                    raise CannotTranslate(f"{name}.{k} = {v!r} is neither a string nor null")
                row.append((k, v))
        langs.append((name[len("nunavut.lang."):], row))
    return {"outdir_default": outdir.default, "key_ext": keys[0], "key_stem": keys[1],
            "default_stem": nunavut.Namespace.DefaultOutputStem, "langs": langs}


def render(d: dict) -> str:
    def opt(v):
        return "none" if v is None else f"some {_lit(v)}"
    out = ["/-! GENERATED by translate/nsglue.py from the tree under check — do not edit. -/",
           "namespace NunavutVerif.Gen.NsGlue", "",
           "/-- `Language.WKCV_DEFINITION_FILE_EXTENSION` -/",
           f"def keyExtension : String := {_lit(d['key_ext'])}",
           "/-- `Language.WKCV_NAMESPACE_FILE_STEM` -/",
           f"def keyNamespaceFileStem : String := {_lit(d['key_stem'])}",
           "/-- `Namespace.DefaultOutputStem` -/",
           f"def defaultOutputStem : String := {_lit(d['default_stem'])}",
           "/-- default of `--outdir` / `-O` (a plain string option without `type`) -/",
           f"def defaultOutdir : String := {_lit(d['outdir_default'])}", "",
           "/-- The two keys in every `nunavut.lang.<name>` section of properties.yaml: string, null (`none`) or absent. -/",
           "def langSections : List (String × List (String × Option String)) := ["]
    rows = []
    for name, row in d["langs"]:
        rows.append(f"  ({_lit(name)}, [" + ", ".join(f"({_lit(k)}, {opt(v)})" for k, v in row) + "])")
    out.append(",\n".join(rows) + "]")
    out += ["", "end NunavutVerif.Gen.NsGlue", ""]
    return "\n".join(out)


def main(repo: pathlib.Path, dest: pathlib.Path = OUT) -> dict:
    d = collect(pathlib.Path(repo))
    text = render(d)
    dest.parent.mkdir(parents=True, exist_ok=True)
    changed = (not dest.exists()) or dest.read_text() != text
    if changed:
        dest.write_text(text)
    d["changed"] = changed
    return d


if __name__ == "__main__":
    import os
    repo_ = os.environ.get("VERIF_REPO", "/repo")
    sys.path.insert(0, str(pathlib.Path(repo_) / "src"))
    print({k: v for k, v in main(pathlib.Path(repo_)).items() if k != "langs"})
