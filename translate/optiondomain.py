"""
C17 translator: the documented language options of the C and C++ generators, their value domains, the names they
are rendered under, the numbers the real `filter_to_static_assertion_value` prints for them, and which keys the
real templates `#define` / `static_assert` -- regenerated from the tree under check on every run into
`lean/NunavutVerif/Gen/OptionDomain.lean` (and returned as a dict to the harness).

Sources (all under $VERIF_REPO/src/nunavut):
  lang/properties.yaml       `options:` (built-in defaults) and `defaults:` (language-standard presets) per language
  cli/__init__.py            argparse choices / store_true switches           (the real `_make_parser()`)
  cli/runners.py             which switch feeds which option key              (AST of `_create_language_context`)
  lang/cpp/__init__.py       `ConstructorConvention` values                   (the real enum)
  lang/c/__init__.py         `filter_macrofy`, `filter_to_static_assertion_value`; lang/cpp: `filter_id`  (called)
  lang/{c,cpp}/templates/base.j2, lang/{c,cpp}/support/serialization.j2
                             rendered through `python -m nunavut` on a one-type namespace and parsed; template AST
                             inspected for the shape of the guard loop

Anything the translator cannot express raises `TranslateError` (tie broken), nothing is skipped silently.
"""
import ast
import concurrent.futures
import json
import os
import pathlib
import re
import shutil
import subprocess
import sys
import tempfile

VERIF = pathlib.Path(__file__).resolve().parent.parent
REPO = pathlib.Path(os.environ.get("VERIF_REPO", "/repo")).resolve()
PY = "/venv/bin/python"
OUT = VERIF / "lean" / "NunavutVerif" / "Gen" / "OptionDomain.lean"
LANGS = ("c", "cpp")
TEMPLATES = {
    ("c", "support"): "lang/c/support/serialization.j2",
    ("c", "type"): "lang/c/templates/base.j2",
    ("cpp", "support"): "lang/cpp/support/serialization.j2",
    ("cpp", "type"): "lang/cpp/templates/base.j2",
}

# how the generated text spells a definition / an assertion (name, number)
DEFINE_RE = {
    "c": re.compile(r"^#define (NUNAVUT_SUPPORT_LANGUAGE_OPTION_\w*) (-?\d+)\s*$", re.M),
    "cpp": re.compile(r"^constexpr std::uint32_t (\w+) = (-?\d+);\s*$", re.M),
}
ASSERT_RE = {
    "c": re.compile(r"^static_assert\( (NUNAVUT_SUPPORT_LANGUAGE_OPTION_\w*) == (-?\d+),\s*$", re.M),
    "cpp": re.compile(r"^static_assert\( nunavut::support::options::(\w+) == (-?\d+),\s*$", re.M),
}
SUPPORT_HEADER = {"c": "nunavut/support/serialization.h", "cpp": "nunavut/support/serialization.hpp"}
TYPE_EXT = {"c": ".h", "cpp": ".hpp"}


class TranslateError(Exception):
    pass


def _ensure_path():
    p = str(REPO / "src")
    if p not in sys.path:
        sys.path.insert(0, p)


def nnvg_env():
    env = dict(os.environ)
    env["PYTHONPATH"] = str(REPO / "src")
    env["PYTHONDONTWRITEBYTECODE"] = "1"
    return env


# ---------------------------------------------------------------------------------------------------------------
# CLI: which switch feeds which option key, and with which values
# ---------------------------------------------------------------------------------------------------------------
def cli_option_sources():
    """{option key: {"dest":…, "switch":…, "values":[…], "kind": "choice"|"flag"}} from runners.py + the real parser."""
    _ensure_path()
    src = (REPO / "src/nunavut/cli/runners.py").read_text()
    tree = ast.parse(src)
    fn = None
    for n in ast.walk(tree):
        if isinstance(n, ast.FunctionDef) and n.name == "_create_language_context":
            fn = n
    if fn is None:
        raise TranslateError("runners.py: _create_language_context not found")
    key_dest = {}

    def args_attrs(node):
        return [a.attr for a in ast.walk(node)
                if isinstance(a, ast.Attribute) and isinstance(a.value, ast.Attribute) and a.value.attr == "_args"]

    def visit(stmts, guards):
        for s in stmts:
            if isinstance(s, ast.If):
                visit(s.body, guards + args_attrs(s.test))
                visit(s.orelse, guards + args_attrs(s.test))
            elif isinstance(s, ast.Assign) and len(s.targets) == 1 and isinstance(s.targets[0], ast.Subscript) \
                    and isinstance(s.targets[0].value, ast.Name) and s.targets[0].value.id == "language_options":
                sl = s.targets[0].slice
                if not (isinstance(sl, ast.Constant) and isinstance(sl.value, str)):
                    raise TranslateError("runners.py: language_options[...] with a non-literal key")
                dests = set(args_attrs(s.value) + guards)
                if len(dests) != 1:
                    raise TranslateError(f"runners.py: cannot tell which argument feeds option {sl.value!r}: {dests}")
                key_dest[sl.value] = dests.pop()
    visit(fn.body, [])
    if not key_dest:
        raise TranslateError("runners.py: no language_options[...] assignment found")
    from nunavut.cli import _make_parser
    actions = {a.dest: a for a in _make_parser()._actions}
    out = {}
    for key, dest in key_dest.items():
        a = actions.get(dest)
        if a is None:
            raise TranslateError(f"cli: no argument with dest {dest!r}")
        sw = sorted(a.option_strings, key=len)[-1]
        if a.choices is not None:
            out[key] = {"dest": dest, "switch": sw, "values": list(a.choices), "kind": "choice"}
        elif type(a).__name__ == "_StoreTrueAction":
            out[key] = {"dest": dest, "switch": sw, "values": [False, True], "kind": "flag"}
        else:
            raise TranslateError(f"cli: argument {dest!r} has neither choices nor store_true")
    return out


# ---------------------------------------------------------------------------------------------------------------
# documented domain
# ---------------------------------------------------------------------------------------------------------------
def _add(lst, v):
    for x in lst:
        if type(x) is type(v) and x == v:
            return
    lst.append(v)


def build_domain():
    _ensure_path()
    import yaml
    props = yaml.safe_load((REPO / "src/nunavut/lang/properties.yaml").read_text())
    cli = cli_option_sources()
    from nunavut.lang.cpp import ConstructorConvention
    enums = {"ctor_convention": [e.value for e in ConstructorConvention]}
    # every value any section of properties.yaml documents for a key
    documented_anywhere = {}
    for sect in props.values():
        for k, v in (sect.get("options") or {}).items():
            _add(documented_anywhere.setdefault(k, []), v)
        for preset in (sect.get("defaults") or {}).values():
            for k, v in preset.items():
                _add(documented_anywhere.setdefault(k, []), v)
    dom = {}
    for lang in LANGS:
        sect = props.get("nunavut.lang." + lang)
        if sect is None or "options" not in sect:
            raise TranslateError(f"properties.yaml: no options for {lang}")
        presets = sect.get("defaults") or {}
        entries = []
        order = list(sect["options"].keys()) + [k for k in cli if k not in sect["options"]]
        for k in order:
            vals = []
            if k in sect["options"]:
                _add(vals, sect["options"][k])
            for v in cli.get(k, {}).get("values", []):
                _add(vals, v)
            for v in documented_anywhere.get(k, []):
                _add(vals, v)
            for v in enums.get(k, []):
                _add(vals, v)
            if any(isinstance(v, bool) for v in vals):
                _add(vals, False)
                _add(vals, True)
            for v in vals:
                if not isinstance(v, (bool, int, str)):
                    raise TranslateError(f"{lang}.{k}: documented value {v!r} of a type the guard cannot encode")
            entries.append({"key": k, "values": vals, "always": k in sect["options"],
                            "default": sect["options"].get(k), "cli": cli.get(k)})
        for pname, preset in presets.items():
            for k in preset:
                if k not in sect["options"]:
                    raise TranslateError(f"{lang}: preset {pname} sets {k}, which has no built-in default")
        dom[lang] = {"options": entries, "presets": presets}
    return dom


# ---------------------------------------------------------------------------------------------------------------
# real filters
# ---------------------------------------------------------------------------------------------------------------
_LANG_CACHE = {}


def real_language(lang):
    _ensure_path()
    if lang not in _LANG_CACHE:
        from nunavut.lang import LanguageContextBuilder
        _LANG_CACHE[lang] = LanguageContextBuilder(include_experimental_languages=True).set_target_language(lang) \
            .create().get_target_language()
    return _LANG_CACHE[lang]


def real_name(lang, key):
    """The text a key is rendered as on both sides of the guard (same template expression on both sides)."""
    _ensure_path()
    L = real_language(lang)
    if lang == "c":
        from nunavut.lang.c import filter_macrofy
        return filter_macrofy(L, "NUNAVUT_SUPPORT_LANGUAGE_OPTION_{}".format(key))
    from nunavut.lang.cpp import filter_id
    return filter_id(L, key)


def real_enc(value):
    _ensure_path()
    from nunavut.lang.c import filter_to_static_assertion_value
    return filter_to_static_assertion_value(value)


# ---------------------------------------------------------------------------------------------------------------
# rendering the real templates
# ---------------------------------------------------------------------------------------------------------------
PROBE_DSDL = {"A.1.0.dsdl": "uint8 a\n@sealed\n"}


def run_nnvg(args, timeout=120):
    return subprocess.run([PY, "-m", "nunavut"] + args, env=nnvg_env(), capture_output=True, text=True, timeout=timeout)


def parse_support(lang, text):
    if lang == "cpp":
        m = re.search(r"^namespace options\s*\{(.*?)^\}", text, re.S | re.M)
        text = m.group(1) if m else ""
    return [(a, int(b)) for a, b in DEFINE_RE[lang].findall(text)]


def parse_asserts(lang, text):
    return [(a, int(b)) for a, b in ASSERT_RE[lang].findall(text)]


def observe_templates(dom, scratch):
    """Render support + type header with every documented key present; and a type header under
    --omit-serialization-support.  Returns {lang: {"defined": {name: n}, "asserted": {name: n}, "omit_asserted": […]}}."""
    ns = scratch / "probe_ns" / "t"
    ns.mkdir(parents=True, exist_ok=True)
    for f, body in PROBE_DSDL.items():
        (ns / f).write_text(body)
    jobs = {}
    for lang in LANGS:
        switches = []
        for e in dom[lang]["options"]:
            if not e["always"]:
                if not e["cli"] or e["cli"]["kind"] != "choice":
                    raise TranslateError(f"{lang}.{e['key']}: no built-in default and no CLI choice to make it present")
                switches += [e["cli"]["switch"], str(e["cli"]["values"][0])]
        base = ["--experimental-languages", "--target-language", lang, str(ns)]
        jobs[(lang, "full")] = base + switches + ["--outdir", str(scratch / f"probe_{lang}_full")]
        jobs[(lang, "omit")] = base + switches + ["--omit-serialization-support", "--outdir", str(scratch / f"probe_{lang}_omit")]
    with concurrent.futures.ThreadPoolExecutor(max_workers=4) as ex:
        res = {k: ex.submit(run_nnvg, a) for k, a in jobs.items()}
        res = {k: f.result() for k, f in res.items()}
    obs = {}
    for lang in LANGS:
        for kind in ("full", "omit"):
            if res[(lang, kind)].returncode != 0:
                raise TranslateError(f"nnvg failed for probe {lang}/{kind}: {res[(lang, kind)].stderr[-800:]}")
        full = scratch / f"probe_{lang}_full"
        sup = (full / SUPPORT_HEADER[lang]).read_text()
        typ = (full / "t" / ("A_1_0" + TYPE_EXT[lang])).read_text()
        omit_typ = (scratch / f"probe_{lang}_omit" / "t" / ("A_1_0" + TYPE_EXT[lang])).read_text()
        obs[lang] = {"defined": dict(parse_support(lang, sup)), "asserted": dict(parse_asserts(lang, typ)),
                     "omit_asserted": [a for a, _ in parse_asserts(lang, omit_typ)],
                     "omit_has_support": (scratch / f"probe_{lang}_omit" / SUPPORT_HEADER[lang]).exists()}
    return obs


def guard_loop_shape():
    """For each of the four templates: is there exactly one `for key, value in options.items()` loop that prints
    `… | to_static_assertion_value`, without a loop filter (other than `not nunavut.support.omit`), without continue/break, the printing statement
    directly in the loop body (not under an `if`)?"""
    _ensure_path()
    from nunavut.jinja.environment import CodeGenEnvironmentBuilder
    from nunavut.jinja import jinja2
    from nunavut.jinja.jinja2 import nodes
    env = jinja2.Environment(extensions=CodeGenEnvironmentBuilder.DEFAULT_JINJA_EXTENSIONS)
    out = {}
    for (lang, side), rel in TEMPLATES.items():
        tree = env.parse((REPO / "src/nunavut" / rel).read_text())
        loops = []
        for f in tree.find_all(nodes.For):
            if any(x.name.endswith("to_static_assertion_value") for x in f.find_all(nodes.Filter)):
                loops.append(f)
        plain = len(loops) == 1
        for f in loops:
            it = f.iter
            over_items = isinstance(it, nodes.Call) and isinstance(it.node, nodes.Getattr) and it.node.attr == "items" \
                and isinstance(it.node.node, nodes.Name) and it.node.node.name == "options" and not it.args
            direct = any(isinstance(b, nodes.Output) and any(x.name.endswith("to_static_assertion_value") for x in b.find_all(nodes.Filter))
                         for b in f.body)
            jumps = list(f.find_all((nodes.Continue, nodes.Break)))
            # the only admissible loop filter is the omit test `not nunavut.support.omit` (C, since 22e33a6)
            t = f.test
            omit_test = isinstance(t, nodes.Not) and isinstance(t.node, nodes.Getattr) and t.node.attr == "omit" \
                and isinstance(t.node.node, nodes.Getattr) and t.node.node.attr == "support" \
                and isinstance(t.node.node.node, nodes.Name) and t.node.node.node.name == "nunavut"
            plain = plain and over_items and (t is None or omit_test) and not f.recursive and direct and not jumps and not f.else_
        out[rel] = plain
    return out


# ---------------------------------------------------------------------------------------------------------------
# Lean emission
# ---------------------------------------------------------------------------------------------------------------
def lean_str(s: str) -> str:
    out = []
    for ch in s:
        o = ord(ch)
        if ch == "\\":
            out.append("\\\\")
        elif ch == '"':
            out.append('\\"')
        elif ch == "\n":
            out.append("\\n")
        elif ch == "\t":
            out.append("\\t")
        elif ch == "\r":
            out.append("\\r")
        elif o < 0x20 or o == 0x7F:
            out.append("\\x%02x" % o)
        elif 0xD800 <= o <= 0xDFFF:
            raise TranslateError("lone surrogate in a documented string")
        else:
            out.append(ch)
    return '"' + "".join(out) + '"'


def lean_val(v) -> str:
    if isinstance(v, bool):
        return ".bool true" if v else ".bool false"
    if isinstance(v, int):
        return f".int ({v})"
    if isinstance(v, str):
        return f".str {lean_str(v)}"
    raise TranslateError(f"value {v!r} not expressible")


def emit(dom, obs, shape) -> str:
    L = ["import NunavutVerif.Model.Options",
         "/-!",
         "GENERATED by /verif/translate/optiondomain.py -- do not edit; rewritten on every run of `./check C17`.",
         "Documented language options (properties.yaml `options:`/`defaults:`, CLI choices, ConstructorConvention),",
         "the names the real filters render them under, the numbers the real `filter_to_static_assertion_value`",
         "prints for every documented value, and what the real templates were observed to define / assert.",
         "-/",
         "namespace NunavutVerif.Options.Gen",
         "open NunavutVerif.Options",
         ""]
    encref = []
    for lang in LANGS:
        nm = "domainC" if lang == "c" else "domainCpp"
        L.append(f"def {nm} : List DocOpt := [")
        rows = []
        for e in dom[lang]["options"]:
            vals = ", ".join(lean_val(v) for v in e["values"])
            rows.append("  { key := %s, name := %s,\n    values := [%s],\n    always := %s, defined := %s, asserted := %s }" % (
                lean_str(e["key"]), lean_str(e["name"]), vals,
                "true" if e["always"] else "false", "true" if e["defined"] else "false", "true" if e["asserted"] else "false"))
            for v in e["values"]:
                _add(encref, v)
        L.append(",\n".join(rows) + "]")
        L.append("")
    L.append("def domain : Lang → List DocOpt\n  | .c => domainC\n  | .cpp => domainCpp")
    L.append("")
    L.append("/-- `(value, filter_to_static_assertion_value(value))` computed by the real filter for every documented value. -/")
    L.append("def encRef : List (OptVal × Int) := [")
    L.append(",\n".join(f"  ({lean_val(v)}, {real_enc(v)})" for v in encref) + "]")
    L.append("")
    L.append("/-- Does a type header generated with `--omit-serialization-support` still carry the option assertions? (rendered) -/")
    L.append("def assertsWhenOmitted : Lang → Bool\n  | .c => %s\n  | .cpp => %s" % tuple(
        "true" if obs[l]["omit_asserted"] else "false" for l in LANGS))
    L.append("")
    L.append("/-- Template AST: the guard loop is one unconditional `for key, value in options.items()` (see translator). -/")
    L.append("def guardLoopPlain : List (String × Bool) := [")
    L.append(",\n".join(f"  ({lean_str(k)}, {'true' if v else 'false'})" for k, v in sorted(shape.items())) + "]")
    L.append("")
    L.append("end NunavutVerif.Options.Gen")
    return "\n".join(L) + "\n"


def generate(write=True):
    """Returns the domain dict (JSON-able) used by the harness; writes the Lean file if its content changed."""
    dom = build_domain()
    scratch = pathlib.Path(tempfile.mkdtemp(prefix="nv_optdom_"))
    try:
        obs = observe_templates(dom, scratch)
    finally:
        shutil.rmtree(scratch, ignore_errors=True)
    shape = guard_loop_shape()
    for lang in LANGS:
        names = {}
        for e in dom[lang]["options"]:
            e["name"] = real_name(lang, e["key"])
            e["defined"] = e["name"] in obs[lang]["defined"]
            e["asserted"] = e["name"] in obs[lang]["asserted"]
            e["enc"] = [real_enc(v) for v in e["values"]]
            names[e["name"]] = e["key"]
        # anything rendered that is not a documented key would be a hole in the domain
        extra = (set(obs[lang]["defined"]) | set(obs[lang]["asserted"])) - set(names)
        if extra:
            raise TranslateError(f"{lang}: the templates render option names outside the documented domain: {sorted(extra)}")
        dom[lang]["omit_asserted"] = bool(obs[lang]["omit_asserted"])
        dom[lang]["omit_has_support"] = obs[lang]["omit_has_support"]
    dom["guard_loop_plain"] = shape
    text = emit(dom, obs, shape)
    if write:
        OUT.parent.mkdir(parents=True, exist_ok=True)
        if not OUT.exists() or OUT.read_text() != text:
            OUT.write_text(text)
    return dom


if __name__ == "__main__":
    d = generate()
    print(json.dumps({l: [(e["key"], e["values"], e["always"], e["defined"], e["asserted"]) for e in d[l]["options"]] for l in LANGS}, indent=1))
    print(json.dumps(d["guard_loop_plain"], indent=1))
