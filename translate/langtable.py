"""
Translator for C13 (round 2): the structure around the merged configuration that the model takes as data.

From `$VERIF_REPO/src/nunavut/lang` it regenerates `lean/NunavutVerif/Gen/LangTable.lean`:

* `langModules`      the language modules (`nunavut.lang.<x>` packages): the section names a `Language` object can
                     be constructed for;
* `langValidators`   which language classes override `_validate_language_options`, classified by the shape of the
                     override (`std-groups`: C++ `options.update(defaults[std])`; `force-true <key>`: Python);
                     any other override cannot be expressed and raises;
* `createCalls`      the calls of `LanguageContextBuilder.create()` in source order (the model merges the pending
                     overrides BEFORE it constructs the target language);
* `languageMapSources`  where `_new_language_map` takes the non-target `Language` objects from;
* `yamlFileParse`    what `LanguageConfig.update_from_yaml_file` binds `configuration` to;
* `processState`     module-level / class-level mutable containers in the anchor files (the model has no process-wide
                     state besides the file system);
* `yamlDocs`, `yamlAnchors`  the shape of the shipped YAML documents: top-level kind, kind of every section,
                     `<<` merge keys, duplicate keys, and every anchor with the kind of the node it names and the
                     number of aliases that refer to it (two places of the loaded document share ONE Python object
                     exactly when an alias is used).

Anything that cannot be expressed raises `CannotTranslate` (tie broken), nothing is skipped silently.
"""
import ast
import os
import pathlib
import sys

import yaml

VERIF = pathlib.Path(__file__).resolve().parent.parent
OUT = VERIF / "lean" / "NunavutVerif" / "Gen" / "LangTable.lean"
PREFIX = "nunavut.lang."
STATE_FILES = ["lang/__init__.py", "lang/_config.py", "lang/_language.py", "_utilities.py"]
CONTAINER_CALLS = {"dict", "list", "set", "defaultdict", "OrderedDict", "WeakValueDictionary", "WeakKeyDictionary", "deque",
                   "Counter", "ChainMap"}


class CannotTranslate(Exception):
    pass


def lean_str(s: str) -> str:
    out = ['"']
    for ch in s:
        o = ord(ch)
        if ch == '"':
            out.append('\\"')
        elif ch == "\\":
            out.append("\\\\")
        elif 0x20 <= o < 0x7F:
            out.append(ch)
        else:
            out.append("\\u{%x}" % o)
    out.append('"')
    return "".join(out)


def lean_list(xs) -> str:
    return "[" + ", ".join(xs) + "]"


# ---------------------------------------------------------------------------------------------------------
# Python structure
# ---------------------------------------------------------------------------------------------------------
def parse(path: pathlib.Path) -> ast.Module:
    return ast.parse(path.read_text(encoding="utf-8"), filename=str(path))


def find_class(tree: ast.Module, name: str):
    for n in tree.body:
        if isinstance(n, ast.ClassDef) and n.name == name:
            return n
    return None


def find_method(cls: ast.ClassDef, name: str):
    for n in cls.body:
        if isinstance(n, (ast.FunctionDef, ast.AsyncFunctionDef)) and n.name == name:
            return n
    return None


def body_without_docstring(fn):
    body = list(fn.body)
    if body and isinstance(body[0], ast.Expr) and isinstance(body[0].value, ast.Constant) and isinstance(body[0].value.value, str):
        body = body[1:]
    return body


def calls_in_order(fn):
    out = []
    for stmt in body_without_docstring(fn):
        for n in ast.walk(stmt):
            if isinstance(n, ast.Call):
                out.append((n.lineno, n.col_offset, ast.unparse(n.func)))
    return [c for _, _, c in sorted(out)]


def lang_modules(lang_dir: pathlib.Path):
    return sorted(p.name for p in lang_dir.iterdir()
                  if p.is_dir() and not p.name.startswith("_") and (p / "__init__.py").exists())


def classify_validator(module: str, fn) -> tuple:
    """shape of a `_validate_language_options(self, defaults, options)` override"""
    args = [a.arg for a in fn.args.args]
    if len(args) != 3:
        raise CannotTranslate(f"{module}._validate_language_options: unexpected signature {args}")
    _, dflt, opts = args
    body = body_without_docstring(fn)
    # Python: `options[<key>] = True; return options`
    if (len(body) == 2 and isinstance(body[0], ast.Assign) and len(body[0].targets) == 1
            and isinstance(body[0].targets[0], ast.Subscript) and ast.unparse(body[0].targets[0].value) == opts
            and isinstance(body[0].targets[0].slice, ast.Constant) and isinstance(body[0].targets[0].slice.value, str)
            and isinstance(body[0].value, ast.Constant) and body[0].value.value is True
            and isinstance(body[1], ast.Return) and ast.unparse(body[1].value) == opts):
        return ("force-true", body[0].targets[0].slice.value)
    # C++: reads options["std"], `options.update(defaults[<that>])`, returns options; no other write to options/defaults
    src = [ast.unparse(s) for s in body]
    updates = [n for s in body for n in ast.walk(s)
               if isinstance(n, ast.Call) and ast.unparse(n.func) == f"{opts}.update"]
    writes = [n for s in body for n in ast.walk(s)
              if isinstance(n, (ast.Assign, ast.AugAssign, ast.Delete))
              for t in (n.targets if not isinstance(n, ast.AugAssign) else [n.target])
              if isinstance(t, ast.Subscript) and ast.unparse(t.value) in (opts, dflt)]
    other_mut = [ast.unparse(n.func) for s in body for n in ast.walk(s)
                 if isinstance(n, ast.Call) and isinstance(n.func, ast.Attribute) and ast.unparse(n.func.value) in (opts, dflt)
                 and n.func.attr in ("pop", "popitem", "clear", "setdefault", "__setitem__", "__delitem__")]
    rets = [n for s in body for n in ast.walk(s) if isinstance(n, ast.Return)]
    if (len(updates) == 1 and not writes and not other_mut and rets and all(ast.unparse(r.value) == opts for r in rets)
            and len(updates[0].args) == 1 and isinstance(updates[0].args[0], ast.Subscript)
            and ast.unparse(updates[0].args[0].value) == dflt):
        key_var = ast.unparse(updates[0].args[0].slice)
        std_reads = [n for s in body for n in ast.walk(s)
                     if isinstance(n, ast.Assign) and len(n.targets) == 1 and ast.unparse(n.targets[0]) == key_var
                     and isinstance(n.value, ast.Subscript) and ast.unparse(n.value.value) == opts
                     and isinstance(n.value.slice, ast.Constant)]
        if len(std_reads) == 1:
            return ("std-groups", std_reads[0].value.slice.value)
    raise CannotTranslate(f"{module}._validate_language_options has a shape the model does not know:\n" + "\n".join(src)[:600])


def validators(lang_dir: pathlib.Path, modules):
    out = []
    for m in modules:
        tree = parse(lang_dir / m / "__init__.py")
        for cls in [n for n in tree.body if isinstance(n, ast.ClassDef)]:
            fn = find_method(cls, "_validate_language_options")
            if fn is None:
                continue
            if cls.name != "Language":
                raise CannotTranslate(f"{m}.{cls.name} overrides _validate_language_options (only `Language` is expected to)")
            kind, key = classify_validator(PREFIX + m, fn)
            out.append((PREFIX + m, kind, key))
    return out


def process_state(src: pathlib.Path):
    """module-level and class-level names bound to a mutable container"""
    out = []

    def is_container(v):
        if isinstance(v, (ast.Dict, ast.List, ast.Set, ast.DictComp, ast.ListComp, ast.SetComp)):
            return True
        if isinstance(v, ast.Call):
            f = ast.unparse(v.func).split(".")[-1]
            return f in CONTAINER_CALLS
        return False

    def scan(body, where):
        for n in body:
            if isinstance(n, ast.Assign) and is_container(n.value):
                for t in n.targets:
                    out.append(f"{where}:{ast.unparse(t)}")
            elif isinstance(n, ast.AnnAssign) and n.value is not None and is_container(n.value):
                out.append(f"{where}:{ast.unparse(n.target)}")
            elif isinstance(n, ast.ClassDef):
                scan(n.body, f"{where}:{n.name}")

    for f in STATE_FILES:
        scan(parse(src / f).body, f)
    return out


def language_map_sources(fn):
    """right-hand sides that put a Language object into the map built by `_new_language_map`"""
    out = []
    names = set()
    for n in ast.walk(fn):
        if isinstance(n, (ast.Assign, ast.AnnAssign)):
            targets = n.targets if isinstance(n, ast.Assign) else [n.target]
            for t in targets:
                if isinstance(t, ast.Name) and isinstance(n.value, ast.Dict):
                    names.add(t.id)
                    for v in n.value.values:
                        out.append("init:" + ast.unparse(v))
    for n in ast.walk(fn):
        if isinstance(n, ast.Assign):
            for t in n.targets:
                if isinstance(t, ast.Subscript) and isinstance(t.value, ast.Name) and t.value.id in names:
                    out.append("entry:" + (ast.unparse(n.value.func) if isinstance(n.value, ast.Call) else ast.unparse(n.value)))
        if isinstance(n, ast.Call) and isinstance(n.func, ast.Attribute) and isinstance(n.func.value, ast.Name) \
                and n.func.value.id in names and n.func.attr in ("update", "setdefault"):
            out.append("entry:" + ast.unparse(n))
    if not names:
        raise CannotTranslate("_new_language_map: no dict literal for the language map found")
    return out


def yaml_file_parse(cfg_tree: ast.Module):
    cls = find_class(cfg_tree, "LanguageConfig")
    fn = cls and find_method(cls, "update_from_yaml_file")
    if fn is None:
        raise CannotTranslate("LanguageConfig.update_from_yaml_file not found")
    imports = {}
    for n in cfg_tree.body:
        if isinstance(n, ast.ImportFrom):
            for a in n.names:
                imports[a.asname or a.name] = f"{n.module}.{a.name}"
    body = body_without_docstring(fn)
    binds = [n for n in body if isinstance(n, ast.Assign)]
    if len(binds) != 1 or not isinstance(binds[0].value, ast.Call):
        raise CannotTranslate("update_from_yaml_file: expected one `configuration = <call>(…)`")
    f = ast.unparse(binds[0].value.func)
    parse_fn = imports.get(f, f)
    loader = ""
    for kw in binds[0].value.keywords:
        if kw.arg == "Loader":
            loader = imports.get(ast.unparse(kw.value), ast.unparse(kw.value))
    rest = [ast.unparse(n) for n in body if n is not binds[0]]
    return parse_fn, loader, rest


# ---------------------------------------------------------------------------------------------------------
# YAML shape
# ---------------------------------------------------------------------------------------------------------
def node_kind(n) -> str:
    return {yaml.ScalarNode: "scalar", yaml.SequenceNode: "sequence", yaml.MappingNode: "mapping"}[type(n)]


def yaml_shape(path: pathlib.Path):
    text = path.read_text(encoding="utf-8")
    anchors = {}      # name -> [kind, aliases]
    for ev in yaml.parse(text, Loader=yaml.SafeLoader):
        if isinstance(ev, yaml.AliasEvent):
            if ev.anchor not in anchors:
                raise CannotTranslate(f"{path.name}: alias *{ev.anchor} before its anchor")
            anchors[ev.anchor][1] += 1
        elif isinstance(ev, (yaml.ScalarEvent, yaml.SequenceStartEvent, yaml.MappingStartEvent)) and ev.anchor:
            if ev.anchor in anchors:
                raise CannotTranslate(f"{path.name}: anchor &{ev.anchor} defined twice")
            kind = "scalar" if isinstance(ev, yaml.ScalarEvent) else ("sequence" if isinstance(ev, yaml.SequenceStartEvent) else "mapping")
            anchors[ev.anchor] = [kind, 0]
    docs = list(yaml.compose_all(text, Loader=yaml.SafeLoader))
    if len(docs) != 1:
        raise CannotTranslate(f"{path.name}: {len(docs)} YAML documents in one file (yaml.load reads exactly one)")
    root = docs[0]
    merge_keys, dups = 0, []
    seen = set()

    def walk(n, where):
        nonlocal merge_keys
        if id(n) in seen:
            return
        seen.add(id(n))
        if isinstance(n, yaml.MappingNode):
            keys = []
            for k, v in n.value:
                if k.tag == "tag:yaml.org,2002:merge":
                    merge_keys += 1
                kk = k.value if isinstance(k, yaml.ScalarNode) else "<complex>"
                if kk in keys:
                    dups.append(where + "/" + kk)
                keys.append(kk)
                walk(v, where + "/" + kk)
        elif isinstance(n, yaml.SequenceNode):
            for i, v in enumerate(n.value):
                walk(v, f"{where}/{i}")

    walk(root, "")
    sections = []
    if isinstance(root, yaml.MappingNode):
        for k, v in root.value:
            if not isinstance(k, yaml.ScalarNode) or k.tag != "tag:yaml.org,2002:str":
                sections.append(("<non-string key>", node_kind(v)))
            else:
                sections.append((k.value, node_kind(v)))
    return {"file": path.name, "top": node_kind(root), "sections": sections, "mergeKeys": merge_keys, "dups": dups,
            "anchors": [(a, k, c) for a, (k, c) in anchors.items()]}


# ---------------------------------------------------------------------------------------------------------
def generate(repo: pathlib.Path) -> str:
    src = repo / "src" / "nunavut"
    lang_dir = src / "lang"
    modules = lang_modules(lang_dir)
    vals = validators(lang_dir, modules)
    init_tree = parse(lang_dir / "__init__.py")
    builder = find_class(init_tree, "LanguageContextBuilder")
    if builder is None:
        raise CannotTranslate("LanguageContextBuilder not found")
    create = find_method(builder, "create")
    newmap = find_method(builder, "_new_language_map")
    if create is None or newmap is None:
        raise CannotTranslate("LanguageContextBuilder.create / _new_language_map not found")
    create_calls = calls_in_order(create)
    map_sources = language_map_sources(newmap)
    parse_fn, loader, rest = yaml_file_parse(parse(lang_dir / "_config.py"))
    state = process_state(src)
    shapes = [yaml_shape(p) for p in sorted(lang_dir.glob("*.yaml"))]
    if not shapes:
        raise CannotTranslate("no shipped YAML configuration found")

    L = [
        "/-! GENERATED by translate/langtable.py from src/nunavut/lang — do not edit. -/",
        "namespace NunavutVerif.Config.Gen",
        "",
        "/-- the language modules: section names a `Language` can be constructed for -/",
        "def langModules : List String := " + lean_list(lean_str(PREFIX + m) for m in modules),
        "",
        "/-- a language class overriding `_validate_language_options` -/",
        "structure Validator where",
        "  sect : String",
        "  kind : String",
        "  key : String",
        "  deriving DecidableEq, Repr",
        "",
        "def langValidators : List Validator := " + lean_list(f"⟨{lean_str(s)}, {lean_str(k)}, {lean_str(key)}⟩" for s, k, key in vals),
        "",
        "/-- the calls of `LanguageContextBuilder.create()` in source order -/",
        "def createCalls : List String := " + lean_list(lean_str(c) for c in create_calls),
        "",
        "/-- what `_new_language_map` puts into the language map -/",
        "def languageMapSources : List String := " + lean_list(lean_str(c) for c in map_sources),
        "",
        "/-- `update_from_yaml_file`: `configuration = yamlFileParse(f, Loader=yamlFileLoader)`, then the other statements -/",
        "def yamlFileParse : String := " + lean_str(parse_fn),
        "def yamlFileLoader : String := " + lean_str(loader),
        "def yamlFileThen : List String := " + lean_list(lean_str(c) for c in rest),
        "",
        "/-- module-level / class-level names bound to a mutable container in " + ", ".join(STATE_FILES) + " -/",
        "def processState : List String := " + lean_list(lean_str(c) for c in state),
        "",
        "structure YamlAnchor where",
        "  file : String",
        "  anchor : String",
        "  kind : String",
        "  aliases : Nat",
        "  deriving DecidableEq, Repr",
        "",
        "structure YamlDoc where",
        "  file : String",
        "  top : String",
        "  sections : List (String × String)",
        "  mergeKeys : Nat",
        "  duplicateKeys : List String",
        "  deriving DecidableEq, Repr",
        "",
        "def yamlDocs : List YamlDoc := " + lean_list(
            "\n  ⟨" + ", ".join([lean_str(s["file"]), lean_str(s["top"]),
                                  lean_list(f"({lean_str(a)}, {lean_str(b)})" for a, b in s["sections"]),
                                  str(s["mergeKeys"]), lean_list(lean_str(d) for d in s["dups"])]) + "⟩" for s in shapes),
        "",
        "def yamlAnchors : List YamlAnchor := " + lean_list(
            f"\n  ⟨{lean_str(s['file'])}, {lean_str(a)}, {lean_str(k)}, {c}⟩" for s in shapes for a, k, c in s["anchors"]),
        "",
        "end NunavutVerif.Config.Gen",
        "",
    ]
    return "\n".join(L)


def main(repo=None) -> bool:
    """Regenerate; returns True when the file was rewritten."""
    repo = pathlib.Path(repo or os.environ.get("VERIF_REPO", "/repo")).resolve()
    text = generate(repo)
    if OUT.exists() and OUT.read_text(encoding="utf-8") == text:
        return False
    OUT.parent.mkdir(parents=True, exist_ok=True)
    OUT.write_text(text, encoding="utf-8")
    return True


if __name__ == "__main__":
    print("rewritten" if main(sys.argv[1] if len(sys.argv) > 1 else None) else "unchanged")
