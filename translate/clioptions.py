"""
Translator for C13: every command-line option that feeds the language configuration.

Sources (tree under check, $VERIF_REPO):
  * `ArgparseRunner._create_language_context` (src/nunavut/cli/runners.py), by AST: every `self._args.<dest>` it reads and
    what it does with it — stored as language option `k` as is / wrapped (`True if args.x else DefaultValue(False)`),
    handed to a builder override (`None` is ignored by the builder), the target language, the file list, a constructor flag;
  * the argparse definitions (`nunavut.cli._make_parser()`): flag, action, default, choices of each such dest.
Output: lean/NunavutVerif/Gen/CliOptions.lean (data only) — `Properties/C13.lean` proves by `decide` over the whole table that
no such option has an argparse default that would reach the configuration as an *explicit* value.
A use of `self._args` the patterns below do not cover raises (tie broken), it is never skipped.
"""
import ast
import importlib
import os
import pathlib
import re
import sys

VERIF = pathlib.Path(__file__).resolve().parent.parent
OUT = VERIF / "lean" / "NunavutVerif" / "Gen" / "CliOptions.lean"


class CannotTranslate(Exception):
    pass


def _is_args(node):
    return (isinstance(node, ast.Attribute) and isinstance(node.value, ast.Attribute) and node.value.attr == "_args"
            and isinstance(node.value.value, ast.Name) and node.value.value.id == "self")


def _wkcv(repo):
    src = (repo / "src" / "nunavut" / "lang" / "_language.py").read_text(encoding="utf-8")
    return dict(re.findall(r'^\s+(WKCV_\w+)\s*=\s*"([^"]*)"', src, re.M))


def _key_of(node, wkcv):
    if isinstance(node, ast.Constant) and isinstance(node.value, str):
        return node.value
    if isinstance(node, ast.Attribute) and node.attr in wkcv:
        return wkcv[node.attr]
    raise CannotTranslate("cannot resolve configuration key expression " + ast.dump(node))


def uses(repo: pathlib.Path):
    """dest -> {role, key, wrapped}; roles: option | config | language | files | ctor"""
    wkcv = _wkcv(repo)
    tree = ast.parse((repo / "src" / "nunavut" / "cli" / "runners.py").read_text(encoding="utf-8"))
    fn = None
    for n in ast.walk(tree):
        if isinstance(n, ast.FunctionDef) and n.name == "_create_language_context":
            fn = n
    if fn is None:
        raise CannotTranslate("no _create_language_context in cli/runners.py")
    parent = {}
    for n in ast.walk(fn):
        for c in ast.iter_child_nodes(n):
            parent[c] = n
    aliases = {}   # local variable -> dest
    out = {}

    def put(dest, role, key="", wrapped=False):
        e = out.get(dest)
        new = {"role": role, "key": key, "wrapped": wrapped}
        if e is not None and e != new:
            raise CannotTranslate(f"args.{dest} is used in two different ways: {e} / {new}")
        out[dest] = new

    def opt_target(assign):
        if len(assign.targets) == 1 and isinstance(assign.targets[0], ast.Subscript):
            t = assign.targets[0]
            if isinstance(t.value, ast.Name) and isinstance(t.slice, ast.Constant) and isinstance(t.slice.value, str):
                return t.value.id, t.slice.value
        return None

    option_dicts = set()
    # which local dict is handed over as the `options` override
    for n in ast.walk(fn):
        if isinstance(n, ast.Call) and isinstance(n.func, ast.Attribute) and n.func.attr == "set_target_language_configuration_override":
            if len(n.args) == 2 and isinstance(n.args[1], ast.Name) and _key_of(n.args[0], wkcv) == wkcv.get("WKCV_LANGUAGE_OPTIONS", "options"):
                option_dicts.add(n.args[1].id)
    for n in ast.walk(fn):
        if not _is_args(n):
            continue
        dest, p = n.attr, parent[n]
        if isinstance(p, ast.Compare) or (isinstance(p, ast.Call) and isinstance(p.func, ast.Name) and p.func.id == "isinstance"):
            continue  # a guard; the use itself is classified where the value flows
        if isinstance(p, ast.IfExp) and p.test is n:
            gp = parent[p]
            ok = (isinstance(p.body, ast.Constant) and p.body.value is True and isinstance(p.orelse, ast.Call)
                  and isinstance(p.orelse.func, ast.Name) and p.orelse.func.id == "DefaultValue"
                  and isinstance(gp, ast.Assign) and opt_target(gp) and opt_target(gp)[0] in option_dicts)
            if not ok:
                raise CannotTranslate(f"args.{dest}: conditional expression of an unknown shape")
            put(dest, "option", opt_target(gp)[1], True)
        elif isinstance(p, ast.Assign) and p.value is n and opt_target(p) and opt_target(p)[0] in option_dicts:
            put(dest, "option", opt_target(p)[1], False)
        elif isinstance(p, ast.Assign) and p.value is n and len(p.targets) == 1 and isinstance(p.targets[0], ast.Name):
            aliases[p.targets[0].id] = dest
        elif isinstance(p, ast.List) and isinstance(parent[p], ast.Assign) and isinstance(parent[p].targets[0], ast.Name):
            aliases[parent[p].targets[0].id] = dest
        elif isinstance(p, ast.keyword):
            put(dest, "ctor", p.arg or "")
        elif isinstance(p, ast.Call) and isinstance(p.func, ast.Attribute):
            m = p.func.attr
            if m == "set_target_language_extension":
                put(dest, "config", wkcv["WKCV_DEFINITION_FILE_EXTENSION"])
            elif m == "set_target_language_configuration_override" and len(p.args) == 2 and p.args[1] is n:
                put(dest, "config", _key_of(p.args[0], wkcv))
            elif m == "set_target_language":
                put(dest, "language")
            elif m == "add_config_files":
                put(dest, "files")
            else:
                raise CannotTranslate(f"args.{dest} is passed to an unknown builder method {m}")
        else:
            raise CannotTranslate(f"args.{dest}: use not understood: {ast.dump(p)[:200]}")
    for n in ast.walk(fn):
        if isinstance(n, ast.Call) and isinstance(n.func, ast.Attribute):
            for a in n.args:
                v = a.value if isinstance(a, ast.Starred) else a
                if isinstance(v, ast.Name) and v.id in aliases:
                    if n.func.attr == "set_target_language":
                        put(aliases[v.id], "language")
                    elif n.func.attr == "add_config_files":
                        put(aliases[v.id], "files")
                    else:
                        raise CannotTranslate(f"{v.id} (= args.{aliases[v.id]}) is passed to {n.func.attr}")
    for var, dest in aliases.items():
        if dest not in out:
            raise CannotTranslate(f"args.{dest} is copied to {var} and never classified")
    return out


def table(repo: pathlib.Path):
    """list of dicts: dest, flag, action, default (Python value), choices, role, key, wrapped"""
    repo = pathlib.Path(repo).resolve()
    src = str(repo / "src")
    if src not in sys.path:
        sys.path.insert(0, src)
    cli = importlib.import_module("nunavut.cli")
    if not str(pathlib.Path(cli.__file__).resolve()).startswith(str(repo)):
        raise CannotTranslate(f"nunavut.cli was imported from {cli.__file__}, not from {repo}")
    actions = {a.dest: a for a in cli._make_parser()._actions}
    rows = []
    for dest, u in sorted(uses(repo).items()):
        if dest not in actions:
            raise CannotTranslate(f"args.{dest} has no argparse definition")
        a = actions[dest]
        kind = {"_StoreAction": "store", "_StoreTrueAction": "store_true", "_StoreFalseAction": "store_false",
                "_AppendAction": "append", "_StoreConstAction": "store_const", "_CountAction": "count"}.get(type(a).__name__)
        if kind is None:
            raise CannotTranslate(f"args.{dest}: argparse action {type(a).__name__}")
        rows.append(dict(u, dest=dest, flag=max(a.option_strings, key=len) if a.option_strings else dest, action=kind,
                         default=a.default, choices=list(a.choices) if a.choices else []))
    return rows


def lean_str(s: str) -> str:
    return '"' + "".join(c if (0x20 <= ord(c) < 0x7F and c not in '"\\') else "\\u{%x}" % ord(c) if c not in '"\\' else "\\" + c
                         for c in s) + '"'


def generate(repo: pathlib.Path) -> str:
    rows = table(repo)
    lines = [
        "/-! GENERATED by translate/clioptions.py from src/nunavut/cli/runners.py (`_create_language_context`) and the argparse",
        "definitions of src/nunavut/cli/__init__.py — do not edit. -/",
        "namespace NunavutVerif.Config.Gen",
        "",
        "/-- One command-line option read by `_create_language_context`.  `dflt` is the `repr` of the argparse default;",
        "`wrapped`: the runner passes `True if given else DefaultValue(False)`; `role`: option (language option `key`) |",
        "config (section key `key`, `None` ignored by the builder) | language | files | ctor (builder constructor flag). -/",
        "structure CliOpt where",
        "  dest : String",
        "  flag : String",
        "  action : String",
        "  dflt : String",
        "  wrapped : Bool",
        "  role : String",
        "  key : String",
        "  choices : List String",
        "",
        "def cliOptions : List CliOpt := [",
    ]
    body = []
    for r in rows:
        body.append("  { dest := %s, flag := %s, action := %s, dflt := %s, wrapped := %s, role := %s, key := %s,\n    choices := [%s] }" % (
            lean_str(r["dest"]), lean_str(r["flag"]), lean_str(r["action"]), lean_str(repr(r["default"])),
            "true" if r["wrapped"] else "false", lean_str(r["role"]), lean_str(r["key"]),
            ", ".join(lean_str(str(c)) for c in r["choices"])))
    lines.append(",\n".join(body))
    lines += ["]", "", "end NunavutVerif.Config.Gen", ""]
    return "\n".join(lines)


def main(repo=None) -> bool:
    repo = pathlib.Path(repo or os.environ.get("VERIF_REPO", "/repo")).resolve()
    text = generate(repo)
    if OUT.exists() and OUT.read_text(encoding="utf-8") == text:
        return False
    OUT.parent.mkdir(parents=True, exist_ok=True)
    OUT.write_text(text, encoding="utf-8")
    return True


if __name__ == "__main__":
    print("rewritten" if main(sys.argv[1] if len(sys.argv) > 1 else None) else "unchanged")
