"""
C09 translator: the stropping configuration of the c, cpp and py languages as the real code sees it
(through the real LanguageContextBuilder and the real TokenEncoder objects)  ->  lean/NunavutVerif/Gen/StropCfg.lean

Regenerated on every run of the check; the file is rewritten only when its content changed.  Every regular
expression is converted from Python's own parse tree (re._parser); a construct the Lean AST cannot express
raises Unsupported (= the tie is broken), nothing is skipped silently.
"""
import ast
import inspect
import os
import pathlib
import re
import sys
import textwrap

try:
    import re._parser as sre_parse
    import re._constants as sre_c
except ImportError:  # Python < 3.11
    import sre_parse
    import sre_constants as sre_c

VERIF = pathlib.Path(__file__).resolve().parent.parent
OUT = VERIF / "lean" / "NunavutVerif" / "Gen" / "StropCfg.lean"
LANGS = ["c", "cpp", "py"]
MAXCP = 0x10FFFF


class Unsupported(Exception):
    pass


# ---------------------------------------------------------------------------------------------------------
# interpreter tables

def _ranges(cps):
    out = []
    for c in cps:
        if out and out[-1][1] == c - 1:
            out[-1][1] = c
        else:
            out.append([c, c])
    return [tuple(r) for r in out]


_TABLES = {}


def tables():
    """code-point ranges of \\s, \\d (as `re` sees them for str patterns) and of str.isspace()."""
    if not _TABLES:
        rs, rd = re.compile(r"\s"), re.compile(r"\d")
        _TABLES["re_space"] = _ranges([c for c in range(MAXCP + 1) if rs.match(chr(c))])
        _TABLES["re_digit"] = _ranges([c for c in range(MAXCP + 1) if rd.match(chr(c))])
        _TABLES["isspace"] = _ranges([c for c in range(MAXCP + 1) if chr(c).isspace()])
    return _TABLES


def _complement(ranges):
    out, pos = [], 0
    for lo, hi in sorted(ranges):
        if lo > pos:
            out.append((pos, lo - 1))
        pos = max(pos, hi + 1)
    if pos <= MAXCP:
        out.append((pos, MAXCP))
    return out


# ---------------------------------------------------------------------------------------------------------
# regex  ->  tree.   tree nodes: ("eps",) ("chr", neg, ranges, name|None) ("bol",) ("eol",) ("eos",)
#                                ("seq", a, b) ("alt", a, b) ("rep", min, more|None, r)

def _category(cat):
    t = tables()
    if cat == sre_c.CATEGORY_SPACE:
        return t["re_space"], "clsSpace"
    if cat == sre_c.CATEGORY_NOT_SPACE:
        return _complement(t["re_space"]), None
    if cat == sre_c.CATEGORY_DIGIT:
        return t["re_digit"], "clsDigit"
    if cat == sre_c.CATEGORY_NOT_DIGIT:
        return _complement(t["re_digit"]), None
    raise Unsupported(f"character category {cat}")


def _seq(items):
    if not items:
        return ("eps",)
    out = items[-1]
    for it in reversed(items[:-1]):
        out = ("seq", it, out)
    return out


def _alt(items):
    out = items[-1]
    for it in reversed(items[:-1]):
        out = ("alt", it, out)
    return out


def _conv_in(items):
    neg, ranges, name = False, [], None
    for i, (op, av) in enumerate(items):
        if op == sre_c.NEGATE:
            if i != 0:
                raise Unsupported("NEGATE not first in set")
            neg = True
        elif op == sre_c.LITERAL:
            ranges.append((av, av))
        elif op == sre_c.RANGE:
            ranges.append((av[0], av[1]))
        elif op == sre_c.CATEGORY:
            r, nm = _category(av)
            ranges += r
            name = nm
        else:
            raise Unsupported(f"set item {op}")
    single_cat = len([1 for op, _ in items if op != sre_c.NEGATE]) == 1 and name is not None and not neg
    return ("chr", neg, ranges, name if single_cat else None)


def _conv_item(op, av):
    if op == sre_c.LITERAL:
        return ("chr", False, [(av, av)], None)
    if op == sre_c.NOT_LITERAL:
        return ("chr", True, [(av, av)], None)
    if op == sre_c.ANY:
        return ("chr", True, [(10, 10)], None)
    if op == sre_c.IN:
        return _conv_in(av)
    if op == sre_c.AT:
        if av in (sre_c.AT_BEGINNING, sre_c.AT_BEGINNING_STRING):
            return ("bol",)
        if av == sre_c.AT_END:
            return ("eol",)
        if av == sre_c.AT_END_STRING:
            return ("eos",)
        raise Unsupported(f"anchor {av}")
    if op == sre_c.SUBPATTERN:
        group, add_flags, del_flags, p = av
        if add_flags or del_flags:
            raise Unsupported("inline flags")
        return _conv_seq(p)
    if op == sre_c.BRANCH:
        _, alts = av
        return _alt([_conv_seq(a) for a in alts])
    if op == sre_c.MAX_REPEAT:
        lo, hi, p = av
        more = None if hi == sre_c.MAXREPEAT else hi - lo
        return ("rep", int(lo), more if more is None else int(more), _conv_seq(p))
    raise Unsupported(f"regex construct {op}")


def _conv_seq(p):
    return _seq([_conv_item(op, av) for op, av in p])


def regex_tree(pattern: str, flags: int = None):
    """Parse tree of `pattern` in the Lean AST's vocabulary; raises Unsupported."""
    if not isinstance(pattern, str):
        raise Unsupported(f"pattern is not a str: {pattern!r}")
    compiled = re.compile(pattern)
    if compiled.flags != re.UNICODE:
        raise Unsupported(f"regex flags {compiled.flags} in {pattern!r}")
    return _conv_seq(sre_parse.parse(pattern))


def tree_wire(t) -> str:
    """Polish notation understood by the Lean driver."""
    k = t[0]
    if k == "eps":
        return "E"
    if k in ("bol", "eol", "eos"):
        return {"bol": "B", "eol": "L", "eos": "Z"}[k]
    if k == "chr":
        _, neg, ranges, _ = t
        return ",".join(["C", "1" if neg else "0", str(len(ranges))] + [f"{a},{b}" for a, b in ranges])
    if k in ("seq", "alt"):
        return ("S," if k == "seq" else "A,") + tree_wire(t[1]) + "," + tree_wire(t[2])
    if k == "rep":
        return f"R,{t[1]},{'-' if t[2] is None else t[2]}," + tree_wire(t[3])
    raise AssertionError(k)


def tree_lean(t) -> str:
    k = t[0]
    if k in ("eps", "bol", "eol", "eos"):
        return "." + k
    if k == "chr":
        _, neg, ranges, name = t
        if name:
            return f".chr {name}"
        return ".chr ⟨" + ("true" if neg else "false") + ", [" + ", ".join(f"({a}, {b})" for a, b in ranges) + "]⟩"
    if k in ("seq", "alt"):
        return f"(.{k} {_par(t[1])} {_par(t[2])})"
    if k == "rep":
        more = "none" if t[2] is None else f"(some {t[2]})"
        return f"(.rep {t[1]} {more} {_par(t[3])})"
    raise AssertionError(k)


def _par(t):
    s = tree_lean(t)
    return s if s.startswith("(") else "(" + s + ")"


# ---------------------------------------------------------------------------------------------------------
# the real configuration

def repo_src():
    return str(pathlib.Path(os.environ.get("VERIF_REPO", "/repo")).resolve() / "src")


def build_language(name, overrides=None):
    if repo_src() not in sys.path:
        sys.path.insert(0, repo_src())
    from nunavut.lang import LanguageContextBuilder
    b = LanguageContextBuilder(include_experimental_languages=True).set_target_language(name)
    for k, v in (overrides or {}).items():
        b.set_target_language_configuration_override(k, v)
    return b.create().get_target_language()


_REF_HANDLERS = [
    '''
def h(encoder, stropped, token_type, pending_error):
    m = re.match(r"^_+([A-Z]?)", stropped)
    if m:
        return "_{}{}".format(m.group(1).lower(), stropped[m.end() :])
    raise pending_error
''',
    '''
def h(encoder, stropped, token_type, pending_error):
    m = re.match(r"^_+([A-Z]?)", stropped)
    if m:
        return f"_{m.group(1).lower()}{stropped[m.end() :]}"
    raise pending_error
''',
]


def _norm_func(src: str) -> str:
    fn = ast.parse(textwrap.dedent(src)).body[0]
    if not isinstance(fn, ast.FunctionDef):
        raise Unsupported("handler is not a plain function")
    body = list(fn.body)
    if body and isinstance(body[0], ast.Expr) and isinstance(body[0].value, ast.Constant) and isinstance(body[0].value.value, str):
        body = body[1:]
    args = [a.arg for a in fn.args.args]
    return ast.dump(ast.Module(body=body, type_ignores=[])) + "|" + ",".join(args)


def handler_kind(h) -> str:
    """`none` | `cStyle`; any other failure handler cannot be expressed."""
    if h is None:
        return "none"
    f = getattr(h, "__func__", h)
    try:
        got = _norm_func(inspect.getsource(f))
    except (OSError, TypeError, SyntaxError) as e:
        raise Unsupported(f"cannot read the failure handler {h!r}: {e}")
    if got in [_norm_func(r) for r in _REF_HANDLERS]:
        return "cStyle"
    raise Unsupported(f"failure handler {getattr(f, '__qualname__', f)!r} is not of a known form")


def encoder_config(lang) -> dict:
    """Everything TokenEncoder.strop depends on, read from the real encoder object of `lang`."""
    enc = lang._token_encoder
    from nunavut.lang._common import TokenEncoder
    if type(enc) is not TokenEncoder:
        raise Unsupported(f"encoder type {type(enc)}")
    cfg = {}
    res = enc._reserved_identifiers
    if not all(isinstance(r, str) for r in res):
        raise Unsupported("non-string reserved identifier")
    cfg["reserved"] = list(res)
    for k in ("_stropping_prefix", "_stropping_suffix", "_encoding_prefix"):
        v = getattr(enc, k)
        if not isinstance(v, str):
            raise Unsupported(f"{k} is not a str: {v!r}")
        cfg[k[1:]] = v
    ws = enc._whitespace_encoding_char
    if ws is not None and not isinstance(ws, str):
        raise Unsupported(f"whitespace_encoding_char {ws!r}")
    cfg["ws"] = ws
    cfg["collapse"] = bool(enc._collapse_whitespace_when_encoding)
    for field, attr in (("patterns", "_reserved_token_patterns_by_type"), ("rules", "_token_encoding_rules_by_identifier_type")):
        m = []
        for ty, plist in getattr(enc, attr).items():
            if not isinstance(ty, str):
                raise Unsupported(f"id type key {ty!r}")
            trees = []
            for p in plist:
                if not isinstance(p, re.Pattern):
                    raise Unsupported(f"not a compiled pattern: {p!r}")
                if p.flags != re.UNICODE:
                    raise Unsupported(f"regex flags {p.flags} in {p.pattern!r}")
                trees.append((p.pattern, regex_tree(p.pattern)))
            m.append((ty, trees))
        cfg[field] = m
    cfg["strop_handler"] = handler_kind(enc._stropping_failure_handler)
    cfg["enc_handler"] = handler_kind(enc._encoding_failure_handler)
    return cfg


def yaml_duplicate_keys(text: str):
    """Duplicate mapping keys in a YAML text (PyYAML silently keeps the last one).  Returns [(path, key, line)]."""
    import yaml
    root = yaml.compose(text, Loader=yaml.SafeLoader)
    dups, seen_nodes = [], set()

    def walk(node, path):
        if id(node) in seen_nodes:      # anchors / aliases share nodes
            return
        seen_nodes.add(id(node))
        if isinstance(node, yaml.MappingNode):
            keys = {}
            for k, v in node.value:
                kk = (k.tag, k.value) if isinstance(k, yaml.ScalarNode) else None
                if kk is not None and k.tag != "tag:yaml.org,2002:merge":
                    if kk in keys:
                        dups.append(("/".join(path), k.value, k.start_mark.line + 1))
                    keys[kk] = True
                walk(v, path + [k.value if isinstance(k, yaml.ScalarNode) else "?"])
        elif isinstance(node, yaml.SequenceNode):
            for i, v in enumerate(node.value):
                walk(v, path + [str(i)])

    if root is not None:
        walk(root, [])
    return dups


def check_properties_yaml():
    """The defaults file the real configuration is loaded from must not contain duplicate keys: the loader would drop
    all but the last silently and the translator, which reads the encoder objects, would regenerate the smaller table."""
    p = pathlib.Path(repo_src()) / "nunavut" / "lang" / "properties.yaml"
    dups = yaml_duplicate_keys(p.read_text())
    if dups:
        raise Unsupported("properties.yaml has duplicate mapping keys (all but the last are dropped by the loader): "
                          + "; ".join(f"{path}: {key!r} (line {line})" for path, key, line in dups[:10]))


def all_configs() -> dict:
    check_properties_yaml()
    return {name: encoder_config(build_language(name)) for name in LANGS}


# ---------------------------------------------------------------------------------------------------------
# Lean output

def lean_str(s: str) -> str:
    return "[" + ", ".join(str(ord(c)) for c in s) + "]"


def _wrap_list(items, indent="    ", width=110):
    lines, cur = [], indent
    for i, it in enumerate(items):
        piece = it + (", " if i + 1 < len(items) else "")
        if len(cur) + len(piece) > width and cur.strip():
            lines.append(cur.rstrip())
            cur = indent
        cur += piece
    lines.append(cur.rstrip())
    return "\n".join(lines)


def _comment_safe(s: str) -> str:
    return s.replace("-/", "- /").replace("/-", "/ -")


def render(cfgs: dict) -> str:
    t = tables()
    o = []
    o.append("import NunavutVerif.Model.Strop")
    o.append("/-!")
    o.append("GENERATED by translate/stropcfg.py from the tree under check — do not edit.")
    o.append("The stropping configuration of c, cpp and py as held by the real TokenEncoder objects,")
    o.append("`\\s`, `\\d` as the running interpreter's `re` matches them, `str.isspace`.")
    o.append(f"Interpreter: Python {sys.version_info.major}.{sys.version_info.minor}.{sys.version_info.micro}")
    o.append("-/")
    o.append("namespace NunavutVerif.Gen.StropCfg")
    o.append("open NunavutVerif.Regex NunavutVerif.Strop")
    o.append("")
    for name, key in (("rangesReSpace", "re_space"), ("rangesReDigit", "re_digit"), ("rangesIsSpace", "isspace")):
        o.append(f"def {name} : List (Nat × Nat) := [")
        o.append(_wrap_list([f"({a}, {b})" for a, b in t[key]]))
        o.append("  ]")
        o.append("")
    o.append("def clsSpace : Cls := ⟨false, rangesReSpace⟩")
    o.append("def clsDigit : Cls := ⟨false, rangesReDigit⟩")
    o.append("")
    for name in LANGS:
        c = cfgs[name]
        o.append(f"/-! ## {name} -/")
        o.append(f"def {name}Reserved : List Str := [")
        o.append(_wrap_list([lean_str(r) for r in c["reserved"]]))
        o.append("  ]")
        o.append("")
        for field in ("patterns", "rules"):
            for ty, trees in c[field]:
                for i, (src, tree) in enumerate(trees):
                    o.append(f"/-- `{_comment_safe(src)}` -/")
                    o.append(f"def {name}_{field}_{_ident(ty)}_{i} : Re :=")
                    o.append("  " + tree_lean(tree))
            o.append(f"def {name}_{field} : List (Str × List Re) := [")
            rows = []
            for ty, trees in c[field]:
                rows.append(f"    ({lean_str(ty)}, [" + ", ".join(f"{name}_{field}_{_ident(ty)}_{i}" for i in range(len(trees))) + "])")
            o.append(",\n".join(rows))
            o.append("  ]")
            o.append("")
        ws = "none" if c["ws"] is None else f"(some {lean_str(c['ws'])})"
        o.append(f"def cfg{name.capitalize()} : Cfg where")
        o.append(f"  reserved := {name}Reserved")
        o.append(f"  stropPrefix := {lean_str(c['stropping_prefix'])}")
        o.append(f"  stropSuffix := {lean_str(c['stropping_suffix'])}")
        o.append(f"  encPrefix := {lean_str(c['encoding_prefix'])}")
        o.append(f"  wsChar := {ws}")
        o.append(f"  collapse := {'true' if c['collapse'] else 'false'}")
        o.append(f"  patterns := {name}_patterns")
        o.append(f"  rules := {name}_rules")
        o.append(f"  stropHandler := .{c['strop_handler']}")
        o.append(f"  encHandler := .{c['enc_handler']}")
        o.append("  space := rangesIsSpace")
        o.append("")
    o.append("def cfgOf (lang : String) : Option Cfg :=")
    o.append("  if lang = \"c\" then some cfgC else if lang = \"cpp\" then some cfgCpp else if lang = \"py\" then some cfgPy else none")
    o.append("")
    o.append("end NunavutVerif.Gen.StropCfg")
    return "\n".join(o) + "\n"


def _ident(ty: str) -> str:
    if not re.fullmatch(r"[a-z][a-z0-9_]*", ty):
        return "t" + "_".join(str(ord(ch)) for ch in ty)
    return ty


def generate(write=True):
    """Returns (configs, changed).  Raises Unsupported when the source cannot be expressed."""
    cfgs = all_configs()
    text = render(cfgs)
    changed = False
    if write:
        OUT.parent.mkdir(parents=True, exist_ok=True)
        if not OUT.exists() or OUT.read_text() != text:
            OUT.write_text(text)
            changed = True
    return cfgs, changed


if __name__ == "__main__":
    _, ch = generate()
    print("StropCfg.lean", "rewritten" if ch else "unchanged")
