"""
Translator for C04 (round 2): what the C templates emit for every ARRAY KIND, and the documented error codes.

(1) Array kinds.  For the ten types of ``corpus/C04/kinds/ak`` (``uint8 a; <array> xs; uint8 b``; variable / fixed x
    bool, byte-like, standard-size primitive, odd-size primitive, composite element) the *real generator* of the tree under
    check renders the C header for {override option off, on} x {target endianness any, little}.  From each header this
    module reads
      * whether the capacity macro ``<type>_xs_ARRAY_CAPACITY_`` is wrapped in ``#ifndef`` (the user can define it),
      * the dimension of the C array in the struct definition: the macro, or a literal (checked against the DSDL
        capacity; for bit arrays the expression is evaluated for several macro values and must be ceil(n / 8)),
      * the bound of the length comparison in ``_serialize_`` and in ``_deserialize_``: the DSDL literal, the macro, or
        ``sizeof(elements) / sizeof(elements[0])``,
      * whether the length prefix / the elements are written through the bounds-checked ``nunavutSetUxx`` or by an unchecked
        store / bulk copy / nested call,
      * for fixed arrays: loop bound = dimension = DSDL capacity (anything else raises).
    Result: ``Gen/CArrayKinds.lean`` (a list of ``CBuf.Row``), interpreted by ``Model/CBuf.lean``;
    ``Properties/C04.lean`` decides ``Row.safe`` over the whole table.

(2) Error codes.  ``#define NUNAVUT_ERROR_* <n>`` of ``lang/c/support/serialization.j2`` and the enumerators of
    ``nunavut::support::Error`` of ``lang/cpp/support/serialization.j2`` are the DOCUMENTED codes; every
    ``return -NUNAVUT_ERROR_X`` / ``-Error::X`` in the codec and support templates is a RETURNED code.
    Result: ``Gen/ErrorCodes.lean``; the harness builds its set of acceptable outcomes from the same table.

A construct outside this grammar raises ``CannotTranslate`` (tie broken), nothing is skipped.
"""
import concurrent.futures
import os
import pathlib
import re
import subprocess
import tempfile

VERIF = pathlib.Path(__file__).resolve().parent.parent
OUT_KINDS = VERIF / "lean" / "NunavutVerif" / "Gen" / "CArrayKinds.lean"
OUT_CODES = VERIF / "lean" / "NunavutVerif" / "Gen" / "ErrorCodes.lean"
CORPUS = VERIF / "corpus" / "C04" / "kinds" / "ak"
REPO = pathlib.Path(os.environ.get("VERIF_REPO", "/repo")).resolve()
PY = "/venv/bin/python"

# kind -> (variable, bits, DSDL capacity)
KINDS = {"VBool": (True, True, 20), "VByte": (True, False, 6), "VZero": (True, False, 6), "VGen": (True, False, 6), "VComp": (True, False, 3),
         "FBool": (False, True, 20), "FByte": (False, False, 6), "FZero": (False, False, 6), "FGen": (False, False, 6), "FComp": (False, False, 3)}


class CannotTranslate(Exception):
    pass


# ---------------------------------------------------------------------------------------------------------------------
# (1) array kinds
# ---------------------------------------------------------------------------------------------------------------------

def _eval_dim(expr, macro, value):
    """Evaluate a C constant expression over one macro: digits, U/UL suffixes, + - * / ( )."""
    e = expr.replace(macro, str(value))
    e = re.sub(r"(\d+)[uUlL]+", r"\1", e)
    if not re.fullmatch(r"[\d\s+\-*/()]+", e):
        raise CannotTranslate(f"array dimension `{expr}` is not a constant expression over {macro}")
    return eval(e.replace("/", "//"), {"__builtins__": {}})   # noqa: S307 (characters restricted above)


def prim_checked(block):
    """Is the write in this block of serializer text bounds-checked against capacity_bytes?"""
    if "nunavutSetUxx(&buffer[0], capacity_bytes" in block or re.search(r"nunavutSet(Bit|F16|F32|F64|Ixx)\(&buffer\[0\], capacity_bytes", block):
        return True
    if "buffer[offset_bits / 8U]" in block or "memmove" in block or "nunavutCopyBits" in block or "_serialize_(" in block:
        return False
    raise CannotTranslate("unrecognised write: " + block[:200])


def serializer_blocks(text, tname):
    """The `{   // <field>` blocks of <tname>_serialize_ for the fields a, xs, b."""
    m = re.search(r"static inline int8_t " + tname + r"_serialize_\((.*?)\n}\n", text, re.S)
    if not m:
        raise CannotTranslate(f"{tname}_serialize_ not found")
    body = m.group(1)
    mm = re.search(r"\{\s*// [^\n]* a\n(.*?)\n    \{\s*// [^\n]* xs\n(.*?)\n    \{\s*// [^\n]* b\n(.*?)\n    (?:if \(offset_bits % 8U|// It is assumed)", body, re.S)
    if not mm:
        raise CannotTranslate(f"{tname}_serialize_: the blocks of the fields a, xs, b were not found")
    return body, mm.group(1), mm.group(2), mm.group(3)


def write_flags(text, tname):
    """-> (a checked, prefix checked | None for fixed arrays, elements checked, b checked)"""
    _, blk_a, blk, blk_b = serializer_blocks(text, tname)
    pre, _, loop = blk.partition("for (")
    if "// Array length prefix" in pre:
        after = pre.split("// Array length prefix", 1)[1]
        # the prefix write ends where the bulk copy (if any) starts
        lp_txt = after.split("nunavutCopyBits", 1)[0] if "nunavutCopyBits" in after and ("buffer[offset_bits / 8U]" in after or "nunavutSetUxx" in after) else after
        lp_checked = prim_checked(lp_txt)
    else:
        lp_checked = None
    if loop:
        elems_checked = prim_checked(loop)
    else:
        if "nunavutCopyBits" not in pre:
            raise CannotTranslate(f"{tname}: neither an element loop nor a bulk copy")
        elems_checked = False
    return prim_checked(blk_a), lp_checked, elems_checked, prim_checked(blk_b)


def classify_cmp(expr, macro, ref, cap):
    e = expr.strip()
    while e.startswith("(") and e.endswith(")") and e.count("(") == e.count(")") and "sizeof" not in e[:7]:
        e = e[1:-1].strip()
    if re.fullmatch(r"\d+[uUlL]*", e):
        if int(re.sub(r"\D", "", e)) != cap:
            raise CannotTranslate(f"length comparison against the literal {e}, DSDL capacity is {cap}")
        return "lit"
    if e == macro:
        return "macro"
    if re.fullmatch(r"\(?sizeof\(" + re.escape(ref) + r"\.elements\) / sizeof\(" + re.escape(ref) + r"\.elements\[0\]\)\)?", e):
        return "storage"
    raise CannotTranslate(f"unrecognised length comparison bound `{expr}`")


def parse_header(text, kind):
    variable, bits, cap = KINDS[kind]
    tname = f"ak_{kind}_1_0"
    macro = f"{tname}_xs_ARRAY_CAPACITY_"
    overridable = bool(re.search(r"^#ifndef " + macro + r"\s*$", text, re.M))
    dm = re.search(r"^#define " + macro + r"\s+(\d+)U\s*$", text, re.M)
    if not dm or int(dm.group(1)) != cap:
        raise CannotTranslate(f"{macro}: default definition with the DSDL capacity {cap} not found")
    if overridable and not re.search(r"^#if " + macro + r" > " + str(cap) + r"U\n#\s*error", text, re.M):
        raise CannotTranslate(f"{macro}: overridable without the `#error` guard against capacities above {cap}")
    sm = re.search(r"typedef struct\n\{(.*?)\n\} " + tname + ";", text, re.S)
    if not sm:
        raise CannotTranslate(f"struct {tname} not found")
    sdef = sm.group(1)
    if variable:
        vm = re.search(r"struct[^\n]*\n\s*\{(.*?)\n\s*size_t count;\n\s*\} xs;", sdef, re.S)
        if not vm:
            raise CannotTranslate(f"{tname}: variable-length member xs not found")
        member = "bitpacked" if bits else "elements"
        am = re.search(r"^\s*[A-Za-z_][\w ]*\s" + member + r"\[(.*)\];\s*$", vm.group(1), re.M)
    else:
        member = "xs_bitpacked_" if bits else "xs"
        am = re.search(r"^\s*[A-Za-z_][\w ]*\s" + member + r"\[(.*)\];\s*$", sdef, re.M)
    if not am:
        raise CannotTranslate(f"{tname}: array member {member} not found")
    dim = am.group(1).strip()
    stor_macro = macro in dim
    expect = (lambda n: (n + 7) // 8) if bits else (lambda n: n)
    if stor_macro:
        for n in (0, 1, 7, 8, 9, cap, 1000):
            if _eval_dim(dim, macro, n) != expect(n):
                raise CannotTranslate(f"{tname}: dimension `{dim}` is not {'ceil(capacity / 8)' if bits else 'the capacity'}")
    elif _eval_dim(dim, macro, cap) != expect(cap):
        raise CannotTranslate(f"{tname}: dimension `{dim}` does not match the DSDL capacity {cap}")
    a_c, lp_c, el_c, b_c = write_flags(text, tname)
    body = serializer_blocks(text, tname)[0]
    dm2 = re.search(r"static inline int8_t " + tname + r"_deserialize_\((.*?)\n}\n", text, re.S)
    if not dm2:
        raise CannotTranslate(f"{tname}_deserialize_ not found")
    debody = dm2.group(1)
    if variable:
        cs = re.findall(r"if \(obj->xs\.count > (.*)\)\n", body)
        cd = re.findall(r"if \(out_obj->xs\.count > (.*)\)\n", debody)
        if len(cs) != 1 or len(cd) != 1:
            raise CannotTranslate(f"{tname}: expected exactly one length comparison per direction, found {len(cs)} / {len(cd)}")
        cmp_s, cmp_d = classify_cmp(cs[0], macro, "obj->xs", cap), classify_cmp(cd[0], macro, "out_obj->xs", cap)
        if lp_c is None:
            raise CannotTranslate(f"{tname}: no length prefix write")
        # the element accesses are bounded by count only
        for txt, ref in ((body, "obj->xs"), (debody, "out_obj->xs")):
            for lm in re.findall(r"for \(size_t (\w+) = 0U; \1 < ([^;]+); \+\+\1\)", txt):
                if lm[1].strip() != ref + ".count":
                    raise CannotTranslate(f"{tname}: element loop bounded by `{lm[1]}`")
    else:
        cmp_s = cmp_d = "none"
        if "xs.count" in body or "xs.count" in debody:
            raise CannotTranslate(f"{tname}: fixed-length array with a count")
        for txt in (body, debody):
            for lm in re.findall(r"for \(size_t (\w+) = 0U; \1 < ([^;]+); \+\+\1\)", txt):
                if int(re.sub(r"\D", "", lm[1]) or -1) != cap or not re.fullmatch(r"\d+[uUlL]*", lm[1].strip()):
                    raise CannotTranslate(f"{tname}: loop bound `{lm[1]}` is not the DSDL capacity {cap}")
            for bm in re.findall(r"nunavut(?:CopyBits|GetBits)\(([^;]*)\);", txt):
                if "xs" in bm and not re.search(r"\b" + str(cap) + r"UL\b", bm):
                    raise CannotTranslate(f"{tname}: bulk copy length is not derived from the DSDL capacity: {bm}")
        lp_c = False
    return {"kind": kind, "variable": variable, "bits": bits, "cap": cap, "overridable": overridable, "storMacro": stor_macro,
            "cmpSer": cmp_s, "cmpDe": cmp_d, "lpChecked": bool(lp_c), "elemsChecked": bool(el_c), "aChecked": a_c, "bChecked": b_c}


def _nnvg(outdir, override, little):
    env = dict(os.environ)
    env["PYTHONPATH"] = str(REPO / "src")
    env["PYTHONDONTWRITEBYTECODE"] = "1"
    cmd = [PY, "-m", "nunavut", "--target-language", "c", "--target-endianness", "little" if little else "any", "--outdir", str(outdir)]
    if override:
        cmd.append("--enable-override-variable-array-capacity")
    cmd.append(str(CORPUS))
    p = subprocess.run(cmd, capture_output=True, text=True, timeout=600, env=env)
    if p.returncode != 0:
        raise CannotTranslate("nnvg failed: " + (p.stdout + p.stderr)[-1500:])


def array_kind_rows():
    rows = []
    with tempfile.TemporaryDirectory(prefix="c04_kinds_") as td:
        td = pathlib.Path(td)
        configs = [(ov, le) for ov in (False, True) for le in (False, True)]
        with concurrent.futures.ThreadPoolExecutor(4) as ex:
            list(ex.map(lambda c: _nnvg(td / f"o{int(c[0])}l{int(c[1])}", c[0], c[1]), configs))
        for ov, le in configs:
            for kind in KINDS:
                text = (td / f"o{int(ov)}l{int(le)}" / "ak" / f"{kind}_1_0.h").read_text()
                r = parse_header(text, kind)
                r["override"], r["little"] = ov, le
                rows.append(r)
    return rows


def _b(x):
    return "true" if x else "false"


def render_kinds(rows):
    out = ["/- GENERATED by translate/c_array_kinds.py from the C headers the generator of the tree under check emits for",
           "   corpus/C04/kinds/ak under {override option off, on} x {target endianness any, little} — do not edit. -/",
           "import NunavutVerif.Model.CBuf",
           "namespace NunavutVerif.Gen.CArrayKinds",
           "open NunavutVerif.CBuf",
           "",
           "def rows : List Row := ["]
    lines = []
    for r in rows:
        lines.append(f"  {{ kind := \"{r['kind']}\", override := {_b(r['override'])}, little := {_b(r['little'])}, varLen := {_b(r['variable'])}, "
                     f"bits := {_b(r['bits'])}, overridable := {_b(r['overridable'])}, storMacro := {_b(r['storMacro'])}, "
                     f"cmpSer := .{r['cmpSer']}, cmpDe := .{r['cmpDe']}, lpChecked := {_b(r['lpChecked'])}, elemsChecked := {_b(r['elemsChecked'])} }}")
    out.append(",\n".join(lines) + "]")
    out += ["", "end NunavutVerif.Gen.CArrayKinds", ""]
    return "\n".join(out)


# ---------------------------------------------------------------------------------------------------------------------
# (2) error codes
# ---------------------------------------------------------------------------------------------------------------------

def error_codes():
    c_support = (REPO / "src/nunavut/lang/c/support/serialization.j2").read_text()
    cpp_support = (REPO / "src/nunavut/lang/cpp/support/serialization.j2").read_text()
    c_doc = [(m.group(1), int(m.group(2))) for m in re.finditer(r"^#define (NUNAVUT_ERROR_[A-Z0-9_]+)\s+(\d+)\s*$", c_support, re.M)]
    if not c_doc:
        raise CannotTranslate("no NUNAVUT_ERROR_* definitions found")
    sm = re.search(r"^#define NUNAVUT_SUCCESS\s+(\d+)\s*$", c_support, re.M)
    if not sm or int(sm.group(1)) != 0:
        raise CannotTranslate("NUNAVUT_SUCCESS is not 0")
    em = re.search(r"enum class Error\s*\{(.*?)\};", cpp_support, re.S)
    if not em:
        raise CannotTranslate("enum class Error not found")
    body = re.sub(r"//[^\n]*", "", em.group(1))
    cpp_doc = []
    for item in body.split(","):
        item = item.strip()
        if not item:
            continue
        mm = re.fullmatch(r"([A-Za-z_]\w*)\s*=\s*(\d+)", item)
        if not mm:
            raise CannotTranslate(f"enumerator `{item}` of nunavut::support::Error has no explicit value")
        cpp_doc.append((mm.group(1), int(mm.group(2))))
    c_ret, cpp_ret = [], []
    c_files = sorted((REPO / "src/nunavut/lang/c/templates").glob("*.j2")) + [REPO / "src/nunavut/lang/c/support/serialization.j2"]
    for f in c_files:
        t = f.read_text()
        for m in re.finditer(r"\bNUNAVUT_ERROR_[A-Z0-9_]+", t):
            line = t[t.rfind("\n", 0, m.start()) + 1: t.find("\n", m.end())]
            if line.lstrip().startswith("#define") or line.lstrip().startswith("//"):
                continue
            if not re.search(r"return\s+-" + m.group(0) + r"\s*;", line):
                raise CannotTranslate(f"{f.name}: {m.group(0)} used other than in `return -{m.group(0)};`: {line.strip()[:120]}")
            if m.group(0) not in c_ret:
                c_ret.append(m.group(0))
    cpp_files = sorted((REPO / "src/nunavut/lang/cpp/templates").glob("*.j2")) + [REPO / "src/nunavut/lang/cpp/support/serialization.j2"]
    for f in cpp_files:
        t = f.read_text()
        for m in re.finditer(r"\bError::([A-Za-z_]\w*)", t):
            line = t[t.rfind("\n", 0, m.start()) + 1: t.find("\n", m.end())]
            if line.lstrip().startswith("//"):
                continue
            if not re.search(r"-\s*(?:nunavut::support::)?Error::" + m.group(1), line):
                raise CannotTranslate(f"{f.name}: Error::{m.group(1)} used other than negated: {line.strip()[:120]}")
            if m.group(1) not in cpp_ret:
                cpp_ret.append(m.group(1))
    return {"c": c_doc, "cpp": cpp_doc, "c_returned": sorted(c_ret), "cpp_returned": sorted(cpp_ret)}


def render_codes(t):
    def pairs(l):
        return "[" + ", ".join(f'("{n}", {v})' for n, v in l) + "]"

    def names(l):
        return "[" + ", ".join(f'"{n}"' for n in l) + "]"
    return "\n".join([
        "/- GENERATED by translate/c_array_kinds.py from lang/c/support/serialization.j2 (#define NUNAVUT_ERROR_*), lang/cpp/support/",
        "   serialization.j2 (enum class Error) and every `return -…` of the C / C++ codec and support templates — do not edit. -/",
        "namespace NunavutVerif.Gen.ErrorCodes",
        "",
        "/-- the documented error codes of generated C: macro name, value (returned negated) -/",
        f"def c : List (String × Nat) := {pairs(t['c'])}",
        "",
        "/-- the documented error codes of generated C++: enumerator of `nunavut::support::Error`, value -/",
        f"def cpp : List (String × Nat) := {pairs(t['cpp'])}",
        "",
        "/-- every macro that occurs in a `return -NUNAVUT_ERROR_…;` of the C templates -/",
        f"def cReturned : List String := {names(t['c_returned'])}",
        "",
        "/-- every enumerator that occurs as `-Error::…` in the C++ templates -/",
        f"def cppReturned : List String := {names(t['cpp_returned'])}",
        "",
        "end NunavutVerif.Gen.ErrorCodes",
        ""])


def _write(path, text):
    if not path.exists() or path.read_text() != text:
        path.write_text(text)
        return True
    return False


def generate(write=True):
    """-> (rows, codes, changed)"""
    rows = array_kind_rows()
    codes = error_codes()
    changed = False
    if write:
        changed = _write(OUT_KINDS, render_kinds(rows)) | _write(OUT_CODES, render_codes(codes))
    return rows, codes, changed


if __name__ == "__main__":
    import time
    t0 = time.time()
    rows, codes, ch = generate()
    print("CArrayKinds.lean / ErrorCodes.lean", "rewritten" if ch else "unchanged", len(rows), "rows", codes, f"{time.time() - t0:.1f}s")
