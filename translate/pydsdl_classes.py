"""
Translator for C16: dumps, from the *running* PyDSDL and the tree under check ($VERIF_REPO/src), the data part of
the resolution / environment model into lean/NunavutVerif/Gen/PydsdlClasses.lean:

  * (name, bases) of every class reachable from pydsdl.Any through __subclasses__() (transitively, with nunavut
    imported so that nunavut.Namespace is included) plus every class reachable from those through __bases__ other
    than `object` (this is what DSDLTemplateLoader._type_to_template_internal walks: today that adds abc.ABC);
  * what DSDLCodeGenerator._create_all_dsdl_tests() enumerates: the roots it starts from (OBSERVED: the top-level calls of
    _create_instance_tests_for_type; a root outside the pydsdl.Any tree brings its sub-tree into the table), the class that
    `_field_is_instance` redirects through `.data_type`, and the (test name -> class) map it returns, read from
    the closures;
  * CodeGenEnvironment.RESERVED_GLOBAL_NAMESPACES / RESERVED_GLOBAL_NAMES, the conventional-name prefixes of
    LanguageEnvironment and TEMPLATE_SUFFIX.

A construct the model cannot express raises TranslationError (tie broken), it is never skipped.
The file is written only when its content changed.  Run: /venv/bin/python -m translate.pydsdl_classes
"""
import inspect
import os
import pathlib
import re
import sys

VERIF = pathlib.Path(__file__).resolve().parent.parent
REPO = pathlib.Path(os.environ.get("VERIF_REPO", "/repo")).resolve()
OUT = VERIF / "lean" / "NunavutVerif" / "Gen" / "PydsdlClasses.lean"


class TranslationError(Exception):
    pass


def _ident(s: str) -> str:
    if not isinstance(s, str) or not s or not all(ord(ch) < 128 and (ch.isalnum() or ch in "_.") for ch in s):
        raise TranslationError(f"name {s!r} is not a plain ASCII identifier; the model's lower() is ASCII only")
    return s


def _str(s: str) -> str:
    if any(ord(ch) >= 128 or ch in '"\\' or ord(ch) < 32 for ch in s):
        raise TranslationError(f"string {s!r} cannot be written as a plain Lean literal")
    return '"' + s + '"'


def _lit(s: str) -> str:
    """A name as a `List Char` literal (the kernel compares these ~7x faster than `"…".toList`)."""
    if any(ord(ch) >= 128 or ch in "'\\" or ord(ch) < 32 for ch in s):
        raise TranslationError(f"string {s!r} cannot be written as a plain Lean character list")
    return "[" + ",".join("'" + ch + "'" for ch in s) + "]"


def _list(xs) -> str:
    return "[" + ", ".join(xs) + "]"


def collect():
    """Everything the Gen file contains, as plain Python data (also used by the harness to compare)."""
    if str(REPO / "src") not in sys.path:
        sys.path.insert(0, str(REPO / "src"))
    import pydsdl
    import nunavut  # noqa: F401  (registers nunavut.Namespace under pydsdl.Any)
    from nunavut.jinja import DSDLCodeGenerator
    from nunavut.jinja.environment import CodeGenEnvironment
    from nunavut._templates import LanguageEnvironment
    from nunavut._utilities import TEMPLATE_SUFFIX

    # ---- class graph -------------------------------------------------------------------------------------------
    under_any = []

    def walk(c):
        if c in under_any:
            return
        under_any.append(c)
        for d in c.__subclasses__():
            walk(d)

    walk(pydsdl.Any)
    classes = list(under_any)
    # ---- what _create_all_dsdl_tests() enumerates, OBSERVED: the classes _create_instance_tests_for_type is called with at
    # the top level.  A root outside the pydsdl.Any tree (e.g. an expression-value class) brings its sub-tree into the table.
    top_calls, depth = [], [0]
    orig_cm = DSDLCodeGenerator.__dict__["_create_instance_tests_for_type"]

    def spy(cls, root):
        if depth[0] == 0:
            top_calls.append(root)
        depth[0] += 1
        try:
            return orig_cm.__func__(cls, root)
        finally:
            depth[0] -= 1

    DSDLCodeGenerator._create_instance_tests_for_type = classmethod(spy)
    try:
        tests = DSDLCodeGenerator._create_all_dsdl_tests()
    finally:
        DSDLCodeGenerator._create_instance_tests_for_type = orig_cm
    if not top_calls or not all(isinstance(r, type) for r in top_calls):
        raise TranslationError("cannot observe the roots _create_all_dsdl_tests enumerates from")

    def walk_extra(c):
        if c in classes:
            return
        classes.append(c)
        for d in c.__subclasses__():
            walk_extra(d)

    for r in top_calls:
        walk_extra(r)
    # close under __bases__ (minus object): the loader's search follows them whatever they are
    i = 0
    while i < len(classes):
        for b in classes[i].__bases__:
            if b is not object and b not in classes:
                classes.append(b)
        i += 1
    # the table is keyed by __name__; a class outside the pydsdl.Any tree whose __name__ is taken (pydsdl's expression `Any`)
    # is keyed by its qualified name instead
    key = {}
    taken = set()
    for c in classes:
        k = _ident(c.__name__)
        if k in taken:
            if c in under_any:
                raise TranslationError(f"two classes of the PyDSDL hierarchy share the __name__ {k!r}; the table is keyed by name")
            k = _ident(c.__module__ + "." + c.__name__)
            if k in taken:
                raise TranslationError(f"two classes share the qualified name {k!r}")
        taken.add(k)
        key[c] = k
    # topological order: bases first (Kahn, stable w.r.t. discovery order)
    order, placed = [], set()
    pending = list(classes)
    while pending:
        progressed = False
        for c in list(pending):
            if all(b is object or b in placed for b in c.__bases__):
                order.append(c)
                placed.add(c)
                pending.remove(c)
                progressed = True
        if not progressed:
            raise TranslationError("class graph is not acyclic?")
    table = [(key[c], [key[b] for b in c.__bases__ if b is not object]) for c in order]
    # direct subclasses in __subclasses__() order must equal table order restricted to them (the model enumerates
    # subclasses in table order); only matters for which duplicate wins, but keep the tie exact
    pos = {n: k for k, (n, _) in enumerate(table)}
    for c in order:
        subs = [key[d] for d in c.__subclasses__() if d in classes]
        if sorted(subs, key=lambda n: pos[n]) != subs:
            raise TranslationError(f"__subclasses__() order of {c.__name__} is not table order: {subs}")

    # ---- which classes the template search does not go beyond (observed on the running code) ---------------------------
    from nunavut.jinja.loaders import DSDLTemplateLoader

    class Spy(dict):
        """A template mapping that has nothing and records what it was asked for."""

        def __init__(self):
            super().__init__()
            self.asked = []

        def __getitem__(self, k):
            self.asked.append(k)
            raise KeyError(k)

    stops = []
    for c in order:
        nb = [b for b in c.__bases__ if b is not object]
        if len(nb) > 1:
            continue  # the walk of a multiple-inheritance class is not a chain; the model's general loop covers it
        full, k = [], c
        while True:
            full.append(k.__name__)
            kb = [b for b in k.__bases__ if b is not object]
            if len(kb) != 1:
                break
            k = kb[0]
        spy = Spy()
        if DSDLTemplateLoader()._type_to_template_internal(c, spy) is not None:
            raise TranslationError("search over an empty template set returned a template")
        asked = spy.asked
        if asked == full:
            continue
        if asked != full[: len(asked)] or not asked:
            raise TranslationError(f"search from {c.__name__} considered {asked}, its chain is {full}")
        if asked[-1] not in stops:
            stops.append(asked[-1])
    # consistency: the walk from every class must stop exactly at the first stop class of its chain
    for c in order:
        k, exp = c, []
        while True:
            exp.append(k.__name__)
            kb = [b for b in k.__bases__ if b is not object]
            if k.__name__ in stops or len(kb) != 1:
                break
            k = kb[0]
        if len([b for b in c.__bases__ if b is not object]) <= 1:
            spy = Spy()
            DSDLTemplateLoader()._type_to_template_internal(c, spy)
            if spy.asked != exp:
                raise TranslationError(f"search from {c.__name__} considered {spy.asked}, expected {exp} with stops {stops}")

    # ---- instance tests as the code enumerates them ------------------------------------------------------------
    roots = [key[r] for r in top_calls]
    src_one = inspect.getsource(DSDLCodeGenerator._create_instance_tests_for_type)
    redirect = re.findall(r"isinstance\(\s*field_or_datatype\s*,\s*pydsdl\.(\w+)\s*\)", src_one)
    if len(redirect) != 1 or "field_or_datatype.data_type" not in src_one:
        raise TranslationError("cannot read the attribute redirection of _field_is_instance from its source")
    code_tests = []
    for tname, fn in tests.items():
        cells = [c.cell_contents for c in (fn.__closure__ or ())]
        cl = [c for c in cells if isinstance(c, type)]
        if len(cl) != 1:
            raise TranslationError(f"instance test {tname!r}: cannot identify the class it closes over")
        if cl[0] not in classes:
            raise TranslationError(f"instance test {tname!r} closes over {cl[0]!r}, not in the class table")
        code_tests.append((tname, key[cl[0]]))
    code_tests.sort()
    for r in roots + redirect:
        if r not in pos:
            raise TranslationError(f"class {r} named in the source is not in the class table")

    # ---- environment constants ------------------------------------------------------------------------------
    reserved_ns = sorted(CodeGenEnvironment.RESERVED_GLOBAL_NAMESPACES)
    reserved_names = sorted(CodeGenEnvironment.RESERVED_GLOBAL_NAMES)
    prefixes = (LanguageEnvironment.TEST_NAME_PREFIX, LanguageEnvironment.FILTER_NAME_PREFIX,
                LanguageEnvironment.USES_QUERY_PREFIX)
    return {
        "pydsdl_version": pydsdl.__version__,
        "classes": table,
        "under_any": sorted(c.__name__ for c in under_any),
        "search_stops": stops,
        "roots": roots,
        "redirect": redirect[0],
        "code_tests": code_tests,
        "reserved_ns": reserved_ns,
        "reserved_names": reserved_names,
        "prefixes": prefixes,
        "template_suffix": TEMPLATE_SUFFIX,
    }


def render(d) -> str:
    out = []
    out.append("/-")
    out.append("GENERATED by /verif/translate/pydsdl_classes.py from the running PyDSDL and $VERIF_REPO/src — do not edit.")
    out.append("Regenerated on every run of `./check C16`; rewritten only when the content changes.")
    out.append("-/")
    out.append("namespace NunavutVerif.Gen.PydsdlClasses")
    out.append("")
    out.append(f"def pydsdlVersion : String := {_str(d['pydsdl_version'])}")
    out.append("")
    out.append("/-- Names are written as character lists. -/")
    out.append("abbrev Name := List Char")
    out.append("")
    out.append("/-- `(cls.__name__, [b.__name__ for b in cls.__bases__ if b is not object])`, bases before subclasses. -/")
    out.append("def classes : List (Name × List Name) := [")
    rows = [f"  ({_lit(n)}, {_list(_lit(b) for b in bs)})" for n, bs in d["classes"]]
    out.append(",\n".join(rows))
    out.append("  -- " + "; ".join(n + "(" + ",".join(bs) + ")" for n, bs in d["classes"]))
    out.append("]")
    out.append("")
    out.append("/-- Classes reachable from `pydsdl.Any` through `__subclasses__()` (the rest of `classes` was reached through `__bases__`). -/")
    out.append(f"def underAny : List Name := {_list(_lit(n) for n in d['under_any'])}")
    out.append("")
    out.append("/-- Classes whose `__bases__` `_type_to_template_internal` does not go on to (observed by running it on an empty template set). -/")
    out.append(f"def searchStops : List Name := {_list(_lit(n) for n in d['search_stops'])}")
    out.append("")
    out.append("/-- Arguments of the `_create_instance_tests_for_type` calls in `_create_all_dsdl_tests`, in order. -/")
    out.append(f"def instanceTestRoots : List Name := {_list(_lit(n) for n in d['roots'])}")
    out.append("")
    out.append("/-- The class `_field_is_instance` redirects through `.data_type`. -/")
    out.append(f"def redirectClass : Name := {_lit(d['redirect'])}")
    out.append("")
    out.append("/-- `(test name, class the closure tests against)` for every entry of `_create_all_dsdl_tests()`, sorted. -/")
    out.append("def codeTests : List (Name × Name) := [")
    out.append(",\n".join(f"  ({_lit(a)}, {_lit(b)})" for a, b in d["code_tests"]))
    out.append("  -- " + " ".join(a + "=" + b for a, b in d["code_tests"]))
    out.append("]")
    out.append("")
    out.append(f"def reservedGlobalNamespaces : List Name := {_list(_lit(n) for n in d['reserved_ns'])}")
    out.append(f"def reservedGlobalNames : List Name := {_list(_lit(n) for n in d['reserved_names'])}")
    out.append(f"def testPrefix : Name := {_lit(d['prefixes'][0])}")
    out.append(f"def filterPrefix : Name := {_lit(d['prefixes'][1])}")
    out.append(f"def usesPrefix : Name := {_lit(d['prefixes'][2])}")
    out.append(f"def templateSuffix : Name := {_lit(d['template_suffix'])}")
    out.append("")
    out.append("end NunavutVerif.Gen.PydsdlClasses")
    return "\n".join(out) + "\n"


def run() -> dict:
    """Regenerate the Gen file (if changed). Returns the collected data."""
    d = collect()
    text = render(d)
    OUT.parent.mkdir(parents=True, exist_ok=True)
    if not OUT.exists() or OUT.read_text() != text:
        OUT.write_text(text)
        d["_rewritten"] = True
    else:
        d["_rewritten"] = False
    return d


if __name__ == "__main__":
    r = run()
    print(f"{OUT}: {len(r['classes'])} classes, {len(r['code_tests'])} instance tests, rewritten={r['_rewritten']}")
