"""
Translator for C04: the special member functions of the C++14 built-in ``VariantType``.

For every field-kind list of the domain below a union definition is written, the *real generator* of the tree under
check (``python -m nunavut --target-language cpp --language-standard c++14``) renders
``lang/cpp/templates/_fields_as_union.j2`` for it, and the emitted class is parsed: the member list of
``internal_union_t``, the ``alternative<I>`` table, and the body of every special member function (default / copy /
move constructor, copy / move assignment, destructor, ``emplace``, ``destroy_current``) as a list of statements with
their ``if (tag_ == k)`` chains (which tag is tested, which template index is used, which union member is touched,
through a cast to which type).  The result is Lean data (``lean/NunavutVerif/Gen/VariantTables.lean``) interpreted by
``Model/Variant.lean``; ``Properties/C04.lean`` re-checks the well-formedness of every table by ``decide``.

Anything in the class that the statement grammar below does not cover raises ``CannotTranslate`` (tie broken);
the helper members that do not touch lifetimes (``do_emplace``, ``do_copy``, ``do_get_if*``, ``get_if``, ``index``)
must be textually what the model assumes.

Field kinds:  p = ``uint8`` (primitive),  a = ``uint16[3]`` (std::array, non-primitive, trivially destructible),
v = ``uint8[<=4]`` (variable-length array, owns memory),  c = nested structure with a variable-length array (owns
memory),  d = nested structure of primitives (trivially destructible).
"""
import itertools
import os
import pathlib
import re
import shutil
import subprocess
import sys
import tempfile

VERIF = pathlib.Path(__file__).resolve().parent.parent
OUT = VERIF / "lean" / "NunavutVerif" / "Gen" / "VariantTables.lean"
REPO = pathlib.Path(os.environ.get("VERIF_REPO", "/repo")).resolve()
PY = "/venv/bin/python"

KIND_DSDL = {"p": "uint8", "a": "uint16[3]", "v": "uint8[<=4]", "c": "Owner.1.0", "d": "Flat.1.0"}
KIND_NONTRIVIAL = {"p": False, "a": False, "v": True, "c": True, "d": False}
KIND_PRIMITIVE = {"p": True, "a": False, "v": False, "c": False, "d": False}


class CannotTranslate(Exception):
    pass


def kind_lists():
    """The domain: every list over {p,a,v,c,d} of length 2 and 3, over {p,a,v} of length 4, over {p,v} of length 5."""
    out = []
    for n, alpha in ((2, "pavcd"), (3, "pavcd"), (4, "pav"), (5, "pv")):
        for t in itertools.product(alpha, repeat=n):
            out.append("".join(t))
    seen, res = set(), []
    for k in out:
        if k not in seen:
            seen.add(k)
            res.append(k)
    return res


def write_namespace(root: pathlib.Path, kinds_list):
    ns = root / "vt"
    ns.mkdir(parents=True, exist_ok=True)
    (ns / "Owner.1.0.dsdl").write_text("uint8[<=2] x\nuint8 y\n@sealed\n")
    (ns / "Flat.1.0.dsdl").write_text("uint8 x\nuint16 y\n@sealed\n")
    for kinds in kinds_list:
        lines = ["@union"] + [f"{KIND_DSDL[k]} f{i}" for i, k in enumerate(kinds)] + ["@sealed", ""]
        (ns / f"K{kinds}.1.0.dsdl").write_text("\n".join(lines))
    return ns


def run_generator(ns: pathlib.Path, outdir: pathlib.Path, std="c++14"):
    env = dict(os.environ)
    env["PYTHONPATH"] = str(REPO / "src")
    env["PYTHONDONTWRITEBYTECODE"] = "1"
    cmd = [PY, "-m", "nunavut", "--experimental-languages", "--target-language", "cpp", "--language-standard", std,
           "--outdir", str(outdir), str(ns)]
    p = subprocess.run(cmd, capture_output=True, text=True, timeout=900, env=env, cwd=str(outdir.parent))
    if p.returncode != 0:
        raise CannotTranslate("the generator failed on the union namespace: " + (p.stdout + p.stderr)[-1500:])


# ---------------------------------------------------------------------------------------------------------------
# parsing the emitted class
# ---------------------------------------------------------------------------------------------------------------

def strip_comments(text):
    text = re.sub(r"/\*.*?\*/", "", text, flags=re.S)
    return re.sub(r"//[^\n]*", "", text)


def squeeze(text):
    return re.sub(r"\s+", "", text)


def class_text(header_text):
    m = re.search(r"class\s+VariantType\s+final\s*\{", header_text)
    if not m:
        raise CannotTranslate("no `class VariantType final` in the generated header")
    i = m.end()
    depth = 1
    while depth and i < len(header_text):
        c = header_text[i]
        depth += (c == "{") - (c == "}")
        i += 1
    if depth:
        raise CannotTranslate("unbalanced braces in VariantType")
    return header_text[m.end(): i - 1]


def block_after(s, pos):
    """s[pos] must be '{'; returns (inside, index after the closing brace)."""
    if s[pos] != "{":
        raise CannotTranslate("expected '{' at " + s[pos:pos + 40])
    depth, i = 1, pos + 1
    while depth:
        if i >= len(s):
            raise CannotTranslate("unbalanced braces")
        depth += (s[i] == "{") - (s[i] == "}")
        i += 1
    return s[pos + 1: i - 1], i


class Types:
    def __init__(self):
        self.ids = {}

    def id(self, t):
        t = t.strip()
        if t.startswith("const"):
            t = t[len("const"):]
        return self.ids.setdefault(t, len(self.ids))


RE_COPY = re.compile(r"do_copy<(\d+)>\(\*reinterpret_cast<std::add_pointer<const(.+?)>::type>\(&rhs\.internal_union_value_\.(\w+)\)\);$")
RE_MOVE = re.compile(r"do_emplace<(\d+)>\(std::forward<(.+?)>\(\*reinterpret_cast<std::add_pointer<(.+?)>::type>\(&rhs\.internal_union_value_\.(\w+)\)\)\);$")
RE_DESTROY = re.compile(r"reinterpret_cast<(.+?)\*>\(std::addressof\(internal_union_value_\.(\w+)\)\)->~(.+?)\(\);$")


def parse_chain(s, pos, rhs, members, types, index_of, allow_separate=False):
    """Parse `if(<rhs>tag_==k){...}else if(...){...}` starting at pos. Returns (kind, branches, new pos).
    k is a literal or one of the class's own `IndexOf::<name>` constants."""
    branches, kind = [], None
    first = True
    while True:
        m = re.compile((r"" if first else (r"(?:else)?" if allow_separate else r"else")) + r"if\(" + re.escape(rhs)
                       + r"tag_==(?:(\d+)U?|(?:VariantType::)?IndexOf::(\w+))\)").match(s, pos)
        if not m:
            break
        body, pos = block_after(s, m.end())
        if m.group(1) is not None:
            tag = int(m.group(1))
        elif m.group(2) in index_of:
            tag = index_of[m.group(2)]
        else:
            raise CannotTranslate("unknown IndexOf constant " + m.group(2))
        mc, mm, md = RE_COPY.match(body), RE_MOVE.match(body), RE_DESTROY.match(body)
        if mc and rhs:
            k, br = "copy", (tag, int(mc.group(1)), members.index(mc.group(3)), types.id(mc.group(2)))
        elif mm and rhs:
            if types.id(mm.group(2)) != types.id(mm.group(3)):
                raise CannotTranslate("move branch forwards as a type other than the one it casts to: " + body)
            k, br = "move", (tag, int(mm.group(1)), members.index(mm.group(4)), types.id(mm.group(3)))
        elif md and not rhs:
            mem = members.index(md.group(2))
            k, br = "destroy", (tag, mem, mem, types.id(md.group(1)))
        else:
            raise CannotTranslate("unrecognised branch body: " + body[:200])
        if kind not in (None, k):
            raise CannotTranslate("mixed chain")
        kind = k
        branches.append(br)
        first = False
    if s.startswith("else", pos):
        raise CannotTranslate("chain has a trailing else: " + s[pos:pos + 80])
    if allow_separate and len({b[0] for b in branches}) != len(branches):
        # independent `if`s are the same as an else-if chain only when no tag is tested twice
        raise CannotTranslate("a tag is tested twice by independent if statements")
    return kind, branches, pos


SIMPLE = [
    (re.compile(r"destroy_current\(\);"), lambda m: ("destroyCurrent",)),
    (re.compile(r"emplace<(\d+)>\(\);"), lambda m: ("emplaceConst", int(m.group(1)))),
    (re.compile(r"tag_=rhs\.tag_;"), lambda m: ("setTagRhs",)),
    (re.compile(r"tag_=I;"), lambda m: ("setTagI",)),
    (re.compile(r"typenamealternative<I>::type&result=do_emplace<I>\(v\.\.\.\);"), lambda m: ("constructI",)),
    (re.compile(r"returnresult;"), lambda m: None),
    (re.compile(r"return\*this;"), lambda m: None),
]


def parse_body(s, members, types, index_of, allow_guard=True):
    """-> (selfGuard, [stmt])."""
    pos, out, guard = 0, [], False
    while pos < len(s):
        m = re.compile(r"if\((?:this!=&rhs|&rhs!=this)\)").match(s, pos)
        if m:
            if not allow_guard or out or guard:
                raise CannotTranslate("self-assignment guard in an unexpected place")
            inner, pos = block_after(s, m.end())
            _, stmts = parse_body(inner, members, types, index_of, allow_guard=False)
            guard = True
            out += stmts
            continue
        if s.startswith("if(rhs.tag_==", pos):
            kind, br, pos = parse_chain(s, pos, "rhs.", members, types, index_of)
            out.append(("copyChain" if kind == "copy" else "moveChain", br))
            continue
        if s.startswith("if(tag_==", pos):
            raise CannotTranslate("a tag_ chain outside destroy_current")
        for rx, f in SIMPLE:
            m = rx.match(s, pos)
            if m:
                st = f(m)
                if st is not None:
                    if guard:
                        raise CannotTranslate("statement after the guarded block: " + s[pos:pos + 60])
                    out.append(st)
                pos = m.end()
                break
        else:
            raise CannotTranslate("unrecognised statement: " + s[pos:pos + 120])
    return guard, out


def find_method(cls, signature_rx):
    """cls is squeezed text. Returns (mem-initializer text or '', body text)."""
    ms = list(re.finditer(signature_rx, cls))
    if len(ms) != 1:
        raise CannotTranslate(f"{len(ms)} matches for member {signature_rx}")
    m = ms[0]
    pos = m.end()
    init = ""
    if cls[pos] == ":":
        j = cls.index("{", pos)
        init, pos = cls[pos + 1: j], j
    body, _ = block_after(cls, pos)
    return init, body


def init_stmts(init):
    if not init:
        return []
    parts = init.split(",")
    out = []
    for part in parts:
        if part == "internal_union_value_()":
            continue
        m = re.fullmatch(r"tag_\((variant_npos|\d+)U?\)", part)
        if not m:
            raise CannotTranslate("unrecognised mem-initializer: " + part)
        out.append(("setTagNpos",) if m.group(1) == "variant_npos" else ("setTagConst", int(m.group(1))))
    if "internal_union_value_()" not in parts:
        raise CannotTranslate("the union storage is not value-initialised")
    return out


EXPECT_HELPERS = {
    # squeezed text of the members the model relies on but does not interpret
    "do_emplace": "return*(new(&(internal_union_value_.*(alternative<I>::pointer)))typenamealternative<I>::type(std::forward<Args>(v)...));",
    "do_copy": "return*(new(&(internal_union_value_.*(alternative<I>::pointer)))typenamealternative<I>::type(typenamealternative<I>::type(v...)));",
    "do_get_if": "return(tag_==I)?reinterpret_cast<typenamestd::add_pointer<typenameVariantType::alternative<I>::type>::type>(&(internal_union_value_.*(alternative<I>::pointer))):nullptr;",
    "do_get_if_const": "return(tag_==I)?reinterpret_cast<typenamestd::add_pointer<consttypenameVariantType::alternative<I>::type>::type>(&(internal_union_value_.*(alternative<I>::pointer))):nullptr;",
    "index": "returntag_;",
}


def parse_variant(header_text):
    cls = squeeze(strip_comments(class_text(header_text)))
    types = Types()
    # members of the storage union
    m = re.search(r"unioninternal_union_t\{(.*?)\}internal_union_value_;", cls)
    if not m:
        raise CannotTranslate("no internal_union_t")
    members, mem_ty = [], []
    rest = m.group(1)
    for mm in re.finditer(r"std::aligned_storage<sizeof\((.+?)\),alignof\((.+?)\)>::type(\w+);", rest):
        if mm.group(1) != mm.group(2):
            raise CannotTranslate("sizeof/alignof of different types")
        members.append(mm.group(3))
        mem_ty.append(types.id(mm.group(1)))
    if squeeze(re.sub(r"std::aligned_storage<sizeof\((.+?)\),alignof\((.+?)\)>::type(\w+);", "", rest)):
        raise CannotTranslate("unrecognised member of internal_union_t: " + rest[:200])
    if "std::size_ttag_;" not in cls:
        raise CannotTranslate("no tag_ member")
    # alternative<I>
    alts = {}
    for mm in re.finditer(r"template<class\.\.\.Types>structalternative<(\d+)U,Types\.\.\.>\{usingtype=(.+?);"
                          r"staticconstexprautopointer=&VariantType::internal_union_t::(\w+);\};", cls):
        alts[int(mm.group(1))] = (types.id(mm.group(2)), members.index(mm.group(3)))
    if sorted(alts) != list(range(len(alts))) or not alts:
        raise CannotTranslate("alternative<I> table is not 0..n-1")
    # IndexOf constants
    mi = re.search(r"structIndexOffinal\{IndexOf\(\)=delete;(.*?)\};", cls)
    if not mi:
        raise CannotTranslate("no IndexOf")
    index_of = {}
    for mm in re.finditer(r"staticconstexprconststd::size_t(\w+)=(\d+)U;", mi.group(1)):
        index_of[mm.group(1)] = int(mm.group(2))
    if re.sub(r"staticconstexprconststd::size_t(\w+)=(\d+)U;", "", mi.group(1)):
        raise CannotTranslate("unrecognised member of IndexOf")
    if [index_of.get(n) for n in members] != list(range(len(members))):
        raise CannotTranslate("IndexOf does not number the members in declaration order")
    mx = re.search(r"staticconstexprconststd::size_tMAX_INDEX=(\d+)U;", cls)
    if not mx or int(mx.group(1)) != len(members):
        raise CannotTranslate("MAX_INDEX is not the number of members")
    methods = {}
    init, body = find_method(cls, r"(?<![~\w])VariantType\(\)(?=[:{])")
    methods["defCtor"] = (False, init_stmts(init) + parse_body(body, members, types, index_of, allow_guard=False)[1])
    init, body = find_method(cls, r"(?<![~\w])VariantType\(constVariantType&rhs\)(?=[:{])")
    methods["copyCtor"] = (False, init_stmts(init) + parse_body(body, members, types, index_of, allow_guard=False)[1])
    init, body = find_method(cls, r"(?<![~\w])VariantType\(VariantType&&rhs\)(?=[:{])")
    methods["moveCtor"] = (False, init_stmts(init) + parse_body(body, members, types, index_of, allow_guard=False)[1])
    _, body = find_method(cls, r"VariantType&operator=\(constVariantType&rhs\)(?=\{)")
    methods["copyAssign"] = parse_body(body, members, types, index_of)
    _, body = find_method(cls, r"VariantType&operator=\(VariantType&&rhs\)(?=\{)")
    methods["moveAssign"] = parse_body(body, members, types, index_of)
    _, body = find_method(cls, r"~VariantType\(\)(?=\{)")
    methods["dtor"] = parse_body(body, members, types, index_of, allow_guard=False)
    _, body = find_method(cls, r"template<std::size_tI,class\.\.\.Args>typenameVariantType::alternative<I,VariantType>::type&emplace\(Args&&\.\.\.v\)(?=\{)")
    methods["emplace"] = parse_body(body, members, types, index_of, allow_guard=False)
    _, body = find_method(cls, r"voiddestroy_current\(\)(?=\{)")
    if body:
        # an else-if chain, or independent `if`s (equivalent: the branches do not change tag_ and test distinct tags)
        kind, destroy, pos = parse_chain(body, 0, "", members, types, index_of, allow_separate=True)
        if pos != len(body) or kind != "destroy":
            raise CannotTranslate("destroy_current is not a single tag chain: " + body[pos:pos + 120])
    else:
        destroy = []
    # helpers must be what the model assumes
    helpers = {
        "do_emplace": r"template<std::size_tI,class\.\.\.Args>typenameVariantType::alternative<I,VariantType>::type&do_emplace\(Args&&\.\.\.v\)(?=\{)",
        "do_copy": r"template<std::size_tI,class\.\.\.Args>typenameVariantType::alternative<I,VariantType>::type&do_copy\(constArgs&\.\.\.v\)(?=\{)",
        "do_get_if": r"constexprtypenameVariantType::alternative<I,VariantType>::type\*do_get_if\(\)noexcept(?=\{)",
        "do_get_if_const": r"constexprconsttypenameVariantType::alternative<I,VariantType>::type\*do_get_if_const\(\)constnoexcept(?=\{)",
        "index": r"size_tindex\(\)const(?=\{)",
    }
    for name, rx in helpers.items():
        _, body = find_method(cls, rx)
        if body != EXPECT_HELPERS[name]:
            raise CannotTranslate(f"helper {name} is not what the model assumes: {body[:300]}")
    return {"members": members, "memTy": mem_ty, "altTy": [alts[i][0] for i in range(len(alts))],
            "altMember": [alts[i][1] for i in range(len(alts))], "destroy": destroy, "methods": methods,
            "types": {v: k for k, v in types.ids.items()}}


# ---------------------------------------------------------------------------------------------------------------
# Lean rendering
# ---------------------------------------------------------------------------------------------------------------

def lean_branch(b):
    return "⟨%d, %d, %d, %d⟩" % b


def lean_stmt(st):
    if st[0] in ("copyChain", "moveChain"):
        return "(.%s [%s])" % (st[0], ", ".join(lean_branch(b) for b in st[1]))
    if len(st) == 2:
        return "(.%s %d)" % st
    return "." + st[0]


def lean_method(m):
    return "⟨%s, [%s]⟩" % ("true" if m[0] else "false", ", ".join(lean_stmt(s) for s in m[1]))


def lean_list(xs, f=str):
    return "[" + ", ".join(f(x) for x in xs) + "]"


def render(tables):
    o = ["/- GENERATED by translate/variant_tables.py from the output of the real generator (C++14 unions). Do not edit. -/",
         "import NunavutVerif.Model.Variant",
         "namespace NunavutVerif.Gen.VariantTables",
         "open NunavutVerif.Variant",
         ""]
    chunk_names = []
    CH = 40
    items = list(tables.items())
    for ci in range(0, len(items), CH):
        name = f"progs{ci // CH}"
        chunk_names.append(name)
        o.append(f"def {name} : List (String × Prog) := [")
        rows = []
        for kinds, t in items[ci: ci + CH]:
            ms = t["methods"]
            fields = [
                f'memTy := {lean_list(t["memTy"])}',
                f'nontrivial := {lean_list([KIND_NONTRIVIAL[k] for k in kinds], lambda b: "true" if b else "false")}',
                f'altMember := {lean_list(t["altMember"])}',
                f'altTy := {lean_list(t["altTy"])}',
                f'destroy := {lean_list(t["destroy"], lean_branch)}',
                f'defCtor := {lean_method(ms["defCtor"])}',
                f'copyCtor := {lean_method(ms["copyCtor"])}',
                f'moveCtor := {lean_method(ms["moveCtor"])}',
                f'copyAssign := {lean_method(ms["copyAssign"])}',
                f'moveAssign := {lean_method(ms["moveAssign"])}',
                f'dtor := {lean_method(ms["dtor"])}',
                f'emplace := {lean_method(ms["emplace"])}']
            rows.append(f'  ("{kinds}", {{\n      ' + ",\n      ".join(fields) + " })")
        o.append(",\n".join(rows))
        o.append("]")
        o.append("")
    o.append("def chunks : List (List (String × Prog)) := [" + ", ".join(chunk_names) + "]")
    o.append("")
    o.append("def progs : List (String × Prog) := chunks.flatten")
    o.append("")
    o.append("def progOf (kinds : String) : Option Prog := (progs.find? fun kp => kp.1 == kinds).map (·.2)")
    o.append("")
    o.append("end NunavutVerif.Gen.VariantTables")
    return "\n".join(o) + "\n"


def tables_for(kinds_list, keep_dir=None):
    """Generate + parse. Returns {kinds: table}."""
    tmp = pathlib.Path(keep_dir) if keep_dir else pathlib.Path(tempfile.mkdtemp(prefix="nv_vt_"))
    try:
        ns = write_namespace(tmp / "ns", kinds_list)
        out = tmp / "out"
        out.mkdir(parents=True, exist_ok=True)
        run_generator(ns, out)
        tables = {}
        for kinds in kinds_list:
            h = out / "vt" / f"K{kinds}_1_0.hpp"
            if not h.exists():
                raise CannotTranslate(f"no header generated for {kinds}")
            t = parse_variant(h.read_text())
            if len(t["members"]) != len(kinds):
                raise CannotTranslate(f"{kinds}: {len(t['members'])} union members for {len(kinds)} fields")
            tables[kinds] = t
        return tables
    finally:
        if not keep_dir:
            shutil.rmtree(tmp, ignore_errors=True)


def generate(write=True):
    """Returns (tables, changed). Raises CannotTranslate when the emitted class cannot be expressed."""
    tables = tables_for(kind_lists())
    text = render(tables)
    changed = False
    if write:
        OUT.parent.mkdir(parents=True, exist_ok=True)
        if not OUT.exists() or OUT.read_text() != text:
            OUT.write_text(text)
            changed = True
    return tables, changed


if __name__ == "__main__":
    import time
    t0 = time.time()
    tabs, ch = generate()
    print("VariantTables.lean", "rewritten" if ch else "unchanged", len(tabs), "unions", f"{time.time() - t0:.1f}s")
