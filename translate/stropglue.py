"""
C09 translator, round 2: the glue around TokenEncoder.strop  ->  lean/NunavutVerif/Gen/StropGlue.lean

Regenerated from the tree under check on every run (written only when the content changed):

* `doc`        what `LanguageClassLoader().config` holds right after the defaults were loaded: every section, every key;
               `list` objects become heap cells and two keys that hold THE SAME object (YAML alias, assignment by
               reference in `deep_update`) get the same address;
* `codeC` …    what each language class contributes in Python code: does it override `filter_id` with
               `default_filter_id_for_target` + `strop` (recognised from the AST), the arguments of the
               `TokenEncoder(...)` call in its `_token_encoder` property (additional reserved identifiers evaluated on the
               class, failure handlers recognised by `stropcfg.handler_kind`);
* `lruMaxsize` the argument of the `functools.lru_cache` decorator on `TokenEncoder.strop`;
* `regexTable` every pattern source of the document with its parse tree (`re._parser`) = the model's `re.compile`;
* `idSites`    every place where an identifier category reaches `filter_id`: `| id…` (and any other filter with an
               `id_type` parameter) in every template, parsed with the bundled Jinja, and every call of
               `filter_id` / `filter_short_reference_name` / `strop` / `filter_id_for_target` in the Python sources.

A construct that cannot be expressed raises `Unsupported` (= the tie is broken).
"""
import ast
import inspect
import pathlib
import re
import sys
import textwrap

from . import stropcfg
from .stropcfg import Unsupported, lean_str, _wrap_list, _comment_safe, tree_lean, regex_tree

VERIF = pathlib.Path(__file__).resolve().parent.parent
OUT = VERIF / "lean" / "NunavutVerif" / "Gen" / "StropGlue.lean"
STROP_LANGS = ["c", "cpp", "py"]
LIST_KEYS = {"reserved_identifiers"}
MAP_KEYS = {"reserved_token_patterns_by_type", "token_encoding_rules_by_identifier_type"}


def _src_root():
    return pathlib.Path(stropcfg.repo_src())


def _ensure_path():
    if stropcfg.repo_src() not in sys.path:
        sys.path.insert(0, stropcfg.repo_src())


# ---------------------------------------------------------------------------------------------------------
# the loaded defaults

class DocBuilder:
    """Python objects of a LanguageConfig -> (cells, sections) with object identity preserved."""

    def __init__(self):
        self.cells = []          # list of list-of-str
        self.addr = {}           # id(list object) -> address
        self.keep = []           # keep the objects alive so that ids stay unique

    def cell(self, obj, where):
        if id(obj) in self.addr:
            return self.addr[id(obj)]
        if not all(isinstance(x, str) for x in obj):
            raise Unsupported(f"{where}: list with a non-string entry: {[x for x in obj if not isinstance(x, str)][:3]!r}")
        self.addr[id(obj)] = len(self.cells)
        self.cells.append(list(obj))
        self.keep.append(obj)
        return self.addr[id(obj)]

    def leaf(self, v, where, needed):
        if isinstance(v, bool):
            return ("bool", v)
        if isinstance(v, str):
            return ("str", v)
        if v is None:
            return ("null",)
        if isinstance(v, int) and v >= 0:
            return ("num", v)
        if isinstance(v, list):
            if needed or all(isinstance(x, str) for x in v):
                return ("list", self.cell(v, where))
            return ("other",)
        if needed:
            raise Unsupported(f"{where}: value {v!r} where the token encoder expects a list")
        return ("other",)

    def value(self, key, v, where):
        if isinstance(v, dict):
            es = []
            for k2, v2 in v.items():
                if not isinstance(k2, str):
                    if key in MAP_KEYS:
                        raise Unsupported(f"{where}.{key}: id type key {k2!r} is not a string")
                    k2 = str(k2)
                es.append((k2, self.leaf(v2, f"{where}.{key}.{k2}", key in MAP_KEYS)))
            return ("dict", es)
        if key in MAP_KEYS and v is not None:
            raise Unsupported(f"{where}.{key}: not a mapping: {v!r}")
        return ("leaf", self.leaf(v, f"{where}.{key}", key in LIST_KEYS and v is not None))

    def section(self, name, sec):
        out = []
        for k, v in sec.items():
            if not isinstance(k, str):
                raise Unsupported(f"{name}: key {k!r} is not a string")
            out.append((k, self.value(k, v, name)))
        return out


def loaded_doc():
    """(cells, [(language name, section)]) of a freshly loaded LanguageConfig."""
    _ensure_path()
    from nunavut.lang._language import LanguageClassLoader
    loader = LanguageClassLoader()
    cfg = loader.config
    b = DocBuilder()
    sections = []
    for sname, sec in cfg.sections().items():
        sections.append((LanguageClassLoader.to_language_name(sname), b.section(sname, sec)))
    return b.cells, sections, cfg


# ---------------------------------------------------------------------------------------------------------
# what the language classes contribute

_REF_FILTER_ID = [
    '''
def filter_id(self, instance, id_type="any"):
    raw_name = self.default_filter_id_for_target(instance)
    vne = self._token_encoder
    return vne.strop(raw_name, id_type)
''',
    '''
def filter_id(self, instance, id_type="any"):
    raw_name = self.default_filter_id_for_target(instance)
    return self._token_encoder.strop(raw_name, id_type)
''',
]
_REF_BASE_FILTER_ID = '''
def filter_id(self, instance, id_type="any"):
    return self.default_filter_id_for_target(instance)
'''
_REF_DEFAULT_FILTER = '''
def default_filter_id_for_target(cls, instance):
    if hasattr(instance, "name"):
        return str(instance.name)
    else:
        return str(instance)
'''
_REF_CACHED_PROPERTY_GET = '''
def __get__(self, instance, owner=None):
    if self._attr_name is None:
        raise TypeError("Cannot use cached_property instance without calling __set_name__ on it.")
    cache = instance.__dict__
    val = cast(PropertyT, cache.get(self._attr_name, self._NOT_FOUND))
    if val is self._NOT_FOUND:
        val = self._func(instance)
        cache[self._attr_name] = val
    return val
'''


def _strip(fn: ast.FunctionDef):
    """body without docstring, arguments without annotations, defaults kept."""
    body = list(fn.body)
    if body and isinstance(body[0], ast.Expr) and isinstance(body[0].value, ast.Constant) and isinstance(body[0].value.value, str):
        body = body[1:]
    args = [a.arg for a in fn.args.args]
    defaults = [ast.dump(d) for d in fn.args.defaults]
    return ast.dump(ast.Module(body=body, type_ignores=[])) + "|" + ",".join(args) + "|" + ",".join(defaults)


def _norm_src(src: str):
    fn = ast.parse(textwrap.dedent(src)).body[0]
    if not isinstance(fn, ast.FunctionDef):
        raise Unsupported("not a plain function")
    return _strip(fn)


def _norm_obj(f):
    f = getattr(f, "__func__", f)
    try:
        return _norm_src(inspect.getsource(f))
    except (OSError, TypeError, SyntaxError) as e:
        raise Unsupported(f"cannot read the source of {f!r}: {e}")


def _token_encoder_call(cls):
    """The keyword view of `return TokenEncoder(self, …)` inside the class's `_token_encoder` cached property."""
    from nunavut._utilities import cached_property
    from nunavut.lang._common import TokenEncoder
    prop = cls.__dict__.get("_token_encoder")
    if not isinstance(prop, cached_property):
        raise Unsupported(f"{cls.__module__}.{cls.__qualname__}._token_encoder is not a nunavut cached_property")
    fn = ast.parse(textwrap.dedent(inspect.getsource(prop._func))).body[0]
    body = [s for s in fn.body if not (isinstance(s, ast.Expr) and isinstance(s.value, ast.Constant))]
    if len(body) != 1 or not isinstance(body[0], ast.Return) or not isinstance(body[0].value, ast.Call):
        raise Unsupported(f"{cls.__module__}: _token_encoder is not a single `return TokenEncoder(...)`")
    call = body[0].value
    if not (isinstance(call.func, ast.Name) and call.func.id == "TokenEncoder"):
        raise Unsupported(f"{cls.__module__}: _token_encoder does not return a TokenEncoder(...) call")
    params = [p for p in inspect.signature(TokenEncoder.__init__).parameters][1:]
    if params != ["language", "additional_reserved_identifiers", "stropping_failure_handler", "encoding_failure_handler"]:
        raise Unsupported(f"TokenEncoder.__init__ parameters {params}")
    got = {}
    for i, a in enumerate(call.args):
        got[params[i]] = a
    for kw in call.keywords:
        if kw.arg is None or kw.arg in got or kw.arg not in params:
            raise Unsupported(f"{cls.__module__}: TokenEncoder(...) argument {kw.arg!r}")
        got[kw.arg] = kw.value
    if not (isinstance(got.get("language"), ast.Name) and got["language"].id == "self"):
        raise Unsupported(f"{cls.__module__}: TokenEncoder(...) is not built for `self`")

    def on_class(node, what):
        if node is None or (isinstance(node, ast.Constant) and node.value is None):
            return None
        if isinstance(node, ast.Attribute) and isinstance(node.value, ast.Name) and node.value.id in ("self", "cls", cls.__name__):
            return getattr(cls, node.attr)
        raise Unsupported(f"{cls.__module__}: TokenEncoder(... {what}=<{ast.unparse(node)}>) is not an attribute of the class")

    add = on_class(got.get("additional_reserved_identifiers"), "additional_reserved_identifiers")
    if add is not None and not (isinstance(add, list) and all(isinstance(x, str) for x in add)):
        raise Unsupported(f"{cls.__module__}: additional_reserved_identifiers is not a list of str")
    return {"additional": None if add is None else list(add),
            "strop_handler": stropcfg.handler_kind(on_class(got.get("stropping_failure_handler"), "stropping_failure_handler")),
            "enc_handler": stropcfg.handler_kind(on_class(got.get("encoding_failure_handler"), "encoding_failure_handler"))}


def lang_code(name):
    _ensure_path()
    from nunavut.lang._language import Language as Base, LanguageClassLoader
    from nunavut._utilities import cached_property
    _, cls = LanguageClassLoader().load_language_class(name)
    if _norm_obj(Base.default_filter_id_for_target) != _norm_src(_REF_DEFAULT_FILTER):
        raise Unsupported("Language.default_filter_id_for_target is not of the known form")
    if "default_filter_id_for_target" in cls.__dict__ and cls is not Base:
        raise Unsupported(f"{name}: default_filter_id_for_target is overridden")
    if _norm_obj(cached_property.__get__) != _norm_src(_REF_CACHED_PROPERTY_GET):
        raise Unsupported("nunavut._utilities.cached_property.__get__ is not of the known form")
    owner = next(k for k in cls.__mro__ if "filter_id" in k.__dict__)
    if owner is Base:
        if _norm_obj(Base.filter_id) != _norm_src(_REF_BASE_FILTER_ID):
            raise Unsupported("Language.filter_id is not of the known form")
        return {"strops": False, "additional": None, "strop_handler": "none", "enc_handler": "none"}
    if _norm_obj(owner.filter_id) not in [_norm_src(r) for r in _REF_FILTER_ID]:
        raise Unsupported(f"{name}: Language.filter_id is not `default_filter_id_for_target` followed by `_token_encoder.strop`")
    enc_owner = next((k for k in cls.__mro__ if "_token_encoder" in k.__dict__), None)
    if enc_owner is None:
        raise Unsupported(f"{name}: no _token_encoder")
    d = _token_encoder_call(enc_owner)
    d["strops"] = True
    return d


def lru_maxsize():
    """The `maxsize` of the lru_cache around TokenEncoder.strop, read from the decorator (and from the live wrapper)."""
    _ensure_path()
    from nunavut.lang._common import TokenEncoder
    src = (_src_root() / "nunavut" / "lang" / "_common.py").read_text(encoding="utf-8")
    cls = next(n for n in ast.parse(src).body if isinstance(n, ast.ClassDef) and n.name == "TokenEncoder")
    fn = next(n for n in cls.body if isinstance(n, ast.FunctionDef) and n.name == "strop")
    if len(fn.decorator_list) != 1:
        raise Unsupported("TokenEncoder.strop: expected exactly one decorator (functools.lru_cache)")
    d = fn.decorator_list[0]
    if not (isinstance(d, ast.Call) and ast.unparse(d.func) in ("functools.lru_cache", "lru_cache")):
        raise Unsupported(f"TokenEncoder.strop decorator {ast.unparse(d)!r}")
    kw = {k.arg: k.value for k in d.keywords}
    if set(kw) - {"maxsize"} or len(d.args) + len(kw) != 1:
        raise Unsupported(f"TokenEncoder.strop decorator arguments {ast.unparse(d)!r}")
    node = d.args[0] if d.args else kw["maxsize"]
    if not (isinstance(node, ast.Constant) and isinstance(node.value, int) and node.value > 0):
        raise Unsupported(f"lru_cache maxsize {ast.unparse(node)!r}")
    live = TokenEncoder.strop.cache_parameters()
    if live != {"maxsize": node.value, "typed": False}:
        raise Unsupported(f"live cache parameters {live} differ from the decorator")
    if [p for p in inspect.signature(TokenEncoder.strop.__wrapped__).parameters] != ["self", "token", "token_type"]:
        raise Unsupported("TokenEncoder.strop signature")
    return node.value


# ---------------------------------------------------------------------------------------------------------
# id-type call sites

ID_FUNCS = {"filter_id": 1, "filter_id_for_target": 1, "strop": 1, "filter_short_reference_name": 2}   # positional index of id type
ID_KW = {"id_type", "token_type"}


def _lang_of(rel: pathlib.PurePath):
    parts = rel.parts
    if len(parts) >= 3 and parts[0] == "nunavut" and parts[1] == "lang" and parts[2] in ("c", "cpp", "py", "js", "html"):
        return [parts[2]]
    return list(STROP_LANGS)      # shared code: every stropping language


def python_sites():
    """[(langs, file, line, id type literal)] for calls that hand an id type on; pass-through parameters are not sites."""
    root = _src_root()
    out = []
    for f in sorted((root / "nunavut").rglob("*.py")):
        rel = f.relative_to(root)
        if "jinja2" in rel.parts or "markupsafe" in rel.parts:
            continue
        tree = ast.parse(f.read_text(encoding="utf-8"))
        parents = {}
        for n in ast.walk(tree):
            for c in ast.iter_child_nodes(n):
                parents[c] = n

        def enclosing_params(n):
            ps = set()
            while n in parents:
                n = parents[n]
                if isinstance(n, (ast.FunctionDef, ast.Lambda)):
                    a = n.args
                    ps |= {x.arg for x in a.args + a.kwonlyargs + a.posonlyargs}
            return ps

        for n in ast.walk(tree):
            if not (isinstance(n, ast.Call) and isinstance(n.func, ast.Attribute) and n.func.attr in ID_FUNCS):
                continue
            if n.func.attr == "strop" and not any(s in ast.unparse(n.func.value) for s in ("_token_encoder", "vne", "encoder")):
                continue
            idx = ID_FUNCS[n.func.attr]
            node = None
            for kw in n.keywords:
                if kw.arg in ID_KW:
                    node = kw.value
                if kw.arg is None:
                    raise Unsupported(f"{rel}:{n.lineno}: **kwargs in a call that takes an id type")
            if node is None and len(n.args) > idx:
                node = n.args[idx]
            if any(isinstance(a, ast.Starred) for a in n.args):
                raise Unsupported(f"{rel}:{n.lineno}: *args in a call that takes an id type")
            if node is None:
                lit = "any"
            elif isinstance(node, ast.Constant) and isinstance(node.value, str):
                lit = node.value
            elif isinstance(node, ast.Name) and node.id in ID_KW and node.id in enclosing_params(n):
                continue            # handed through from the caller (a template filter's argument)
            else:
                raise Unsupported(f"{rel}:{n.lineno}: id type is neither a literal nor a pass-through parameter: {ast.unparse(node)}")
            out.append((_lang_of(rel), str(rel), n.lineno, lit))
    return out


def _filters_with_id_type(lang):
    """template filter name -> index of the id type among the explicit (template-side) arguments."""
    _ensure_path()
    import importlib
    mod = importlib.import_module(f"nunavut.lang.{lang}")
    out = {}
    for nm, fn in vars(mod).items():
        if not (nm.startswith("filter_") and callable(fn)):
            continue
        try:
            params = [p for p in inspect.signature(fn).parameters]
        except (TypeError, ValueError):
            continue
        hit = [p for p in params if p in ID_KW]
        if not hit:
            continue
        explicit = list(params)
        if explicit and explicit[0] in ("language", "context", "env", "environment", "eval_ctx"):
            explicit = explicit[1:]
        explicit = explicit[1:]      # the piped value
        out[nm[len("filter_"):]] = (explicit.index(hit[0]), hit[0])
    return out


def template_sites():
    _ensure_path()
    from nunavut.jinja.environment import CodeGenEnvironmentBuilder
    from nunavut.jinja import jinja2
    from nunavut.jinja.jinja2 import nodes as N
    env = jinja2.Environment(extensions=CodeGenEnvironmentBuilder.DEFAULT_JINJA_EXTENSIONS)
    root = _src_root()
    out = []
    for lang in STROP_LANGS:
        fl = _filters_with_id_type(lang)
        if "id" not in fl:
            raise Unsupported(f"{lang}: no template filter `id` with an id_type parameter")
        files = sorted((root / "nunavut" / "lang" / lang).rglob("*.j2"))
        if not files:
            raise Unsupported(f"{lang}: no templates found")
        for f in files:
            tree = env.parse(f.read_text(encoding="utf-8"))
            for node in tree.find_all(N.Filter):
                if node.name not in fl:
                    continue
                idx, pname = fl[node.name]
                if node.dyn_args is not None or node.dyn_kwargs is not None:
                    raise Unsupported(f"{f.name}:{node.lineno}: dynamic arguments on filter {node.name}")
                arg = None
                for kw in node.kwargs:
                    if kw.key == pname:
                        arg = kw.value
                if arg is None and len(node.args) > idx:
                    arg = node.args[idx]
                if arg is None:
                    lit = "any"
                elif isinstance(arg, N.Const) and isinstance(arg.value, str):
                    lit = arg.value
                else:
                    raise Unsupported(f"{f.name}:{node.lineno}: id type of `| {node.name}` is not a literal")
                out.append(([lang], str(f.relative_to(root)), node.lineno, lit))
    return out


# ---------------------------------------------------------------------------------------------------------

def collect():
    stropcfg.check_properties_yaml()
    cells, sections, _ = loaded_doc()
    names = [n for n, _ in sections]
    for l in STROP_LANGS:
        if l not in names:
            raise Unsupported(f"no configuration section for {l}")
    codes = {n: lang_code(n) for n in names}
    for l in STROP_LANGS:
        if not codes[l]["strops"]:
            raise Unsupported(f"{l}: the language class does not strop")
    table = {}
    for n, sec in sections:
        for k, v in sec:
            if k in MAP_KEYS and v[0] == "dict":
                for ty, lf in v[1]:
                    if lf[0] != "list":
                        raise Unsupported(f"{n}.{k}.{ty}: not a list")
                    for src in cells[lf[1]]:
                        table[src] = regex_tree(src)
    sites = template_sites() + python_sites()
    return {"cells": cells, "sections": sections, "codes": codes, "maxsize": lru_maxsize(), "regex": table, "sites": sites}


def _leaf_lean(lf):
    k = lf[0]
    if k == "str":
        return f".str {lean_str(lf[1])}"
    if k == "null":
        return ".null"
    if k == "bool":
        return f".bool {'true' if lf[1] else 'false'}"
    if k == "num":
        return f".num {lf[1]}"
    if k == "list":
        return f".list {lf[1]}"
    return ".other"


def _ident(s):
    return re.sub(r"[^A-Za-z0-9]", "_", s)


def render(g) -> str:
    o = []
    o.append("import NunavutVerif.Model.StropGlue")
    o.append("import NunavutVerif.Gen.StropCfg")
    o.append("/-!")
    o.append("GENERATED by translate/stropglue.py from the tree under check — do not edit.")
    o.append("The loaded language configuration (list objects with their sharing), the language classes' contributions,")
    o.append("the lru_cache size, the regex compile table and the id-type call sites of templates and Python sources.")
    o.append("-/")
    o.append("namespace NunavutVerif.Gen.StropGlue")
    o.append("open NunavutVerif.Regex NunavutVerif.Strop NunavutVerif.StropGlue NunavutVerif.Gen.StropCfg")
    o.append("")
    for i, c in enumerate(g["cells"]):
        o.append(f"def cell{i} : List Str := [")
        o.append(_wrap_list([lean_str(w) for w in c]))
        o.append("  ]")
    o.append("def docCells : Heap := [" + ", ".join(f"cell{i}" for i in range(len(g["cells"]))) + "]")
    o.append("")
    for n, sec in g["sections"]:
        o.append(f"/-- section `nunavut.lang.{n}` -/")
        o.append(f"def section_{_ident(n)} : Section := [")
        rows = []
        for k, v in sec:
            if v[0] == "leaf":
                rows.append(f"    ({lean_str(k)}, .leaf ({_leaf_lean(v[1])}))  -- {_comment_safe(k)}")
            else:
                inner = ", ".join(f"({lean_str(k2)}, {_leaf_lean(l2)})" for k2, l2 in v[1])
                rows.append(f"    ({lean_str(k)}, .dict [{inner}])  -- {_comment_safe(k)}")
        # the comma must precede the trailing comment
        fixed = []
        for i, r in enumerate(rows):
            body, _, cm = r.partition("  -- ")
            fixed.append(body + ("," if i + 1 < len(rows) else "") + "  -- " + cm)
        o.append("\n".join(fixed))
        o.append("  ]")
    o.append("def doc : Doc where")
    o.append("  cells := docCells")
    o.append("  sections := [" + ", ".join(f"({lean_str(n)}, section_{_ident(n)})" for n, _ in g["sections"]) + "]")
    o.append("")
    for n, c in g["codes"].items():
        if c["additional"] is not None:
            o.append(f"def additional_{_ident(n)} : List Str := [")
            o.append(_wrap_list([lean_str(w) for w in c["additional"]]))
            o.append("  ]")
        add = "none" if c["additional"] is None else f"(some additional_{_ident(n)})"
        o.append(f"def code_{_ident(n)} : LangCode := ⟨{'true' if c['strops'] else 'false'}, {add}, .{c['strop_handler']}, .{c['enc_handler']}⟩")
    o.append("def codeOf (lang : Str) : Option LangCode :=")
    o.append("  " + " else ".join(f"if lang = {lean_str(n)} then some code_{_ident(n)}" for n in g["codes"]) + " else none")
    o.append("")
    o.append(f"def lruMaxsize : Nat := {g['maxsize']}")
    o.append("")
    o.append("def regexTable : List (Str × Re) := [")
    rows = []
    for src, tree in g["regex"].items():
        rows.append(f"    ({lean_str(src)}, {tree_lean(tree)})  -- {_comment_safe(src)}")
    fixed = []
    for i, r in enumerate(rows):
        body, _, cm = r.partition("  -- ")
        fixed.append(body + ("," if i + 1 < len(rows) else "") + "  -- " + cm)
    o.append("\n".join(fixed))
    o.append("  ]")
    o.append("def compile (src : Str) : Option Re := aget regexTable src")
    o.append("")
    o.append("/-- (language, literal id type) of every call site; `any` where the argument is left out -/")
    o.append("def idSites : List Site := [")
    rows = []
    for langs, f, line, lit in g["sites"]:
        for l in langs:
            rows.append(f"    ⟨{lean_str(l)}, {lean_str(lit)}⟩  -- {l}: {f}:{line} {lit!r}")
    fixed = []
    for i, r in enumerate(rows):
        body, _, cm = r.partition("  -- ")
        fixed.append(body + ("," if i + 1 < len(rows) else "") + "  -- " + _comment_safe(cm))
    o.append("\n".join(fixed))
    o.append("  ]")
    o.append("")
    o.append("/-- the encoder tables dumped from the real TokenEncoder objects (Gen/StropCfg.lean), by language name -/")
    o.append("def cfgOfLang (lang : Str) : Option Cfg :=")
    o.append("  " + " else ".join(f"if lang = {lean_str(n)} then some cfg{n.capitalize()}" for n in STROP_LANGS) + " else none")
    o.append("")
    o.append("def env : Env := ⟨rangesIsSpace, compile, lruMaxsize, doc, codeOf⟩")
    o.append("")
    o.append("end NunavutVerif.Gen.StropGlue")
    return "\n".join(o) + "\n"


def generate(write=True):
    g = collect()
    text = render(g)
    changed = False
    if write:
        if not OUT.exists() or OUT.read_text() != text:
            OUT.write_text(text)
            changed = True
    return g, changed


if __name__ == "__main__":
    g, ch = generate()
    print("StropGlue.lean", "rewritten" if ch else "unchanged", "cells", len(g["cells"]), "sites", len(g["sites"]))
