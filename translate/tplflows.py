#!/venv/bin/python
"""
translate/tplflows.py — dataflow abstraction of every built-in template of c, cpp, py, html
                         → lean/NunavutVerif/Gen/TplFlows{C,Cpp,Py,Html}.lean + Gen/TplFlows.lean

Runs on every check of C07 / C10 against $VERIF_REPO (a fresh interpreter; `--repo`).  For each language the *real*
environments are built (DSDLCodeGenerator / SupportGenerator with an empty namespace), every template they can load
(plus everything reachable through include/import/extends) is parsed with the environment's own — bundled — Jinja
parser, and every statement is mapped onto the mini template language of Model/Tpl.lean:

    text | out e | ite c t e | loop e body | call m | filterBlock f t | seq a b | nil

Every expression occurrence (output, condition, iterable, assignment, call arguments, filter of a filter block)
becomes a *leaf* carrying the ambient source classes it may read and the classes removed by sanitisers.

Classification = hand table (names that cannot be understood from their body) ∪ AST scan of the Python callable
behind every filter / test / extension method (transitively inside the nunavut package, by name) for ambient APIs.
An unknown free name, filter, test, attribute of the `nunavut` global or AST node kind raises `TieBroken`.
"""
import argparse
import ast
import hashlib
import inspect
import json
import pathlib
import sys
import tempfile
import textwrap

LANGS = ["c", "cpp", "py", "html"]
MOD = {"c": "C", "cpp": "Cpp", "py": "Py", "html": "Html"}

# source classes (Model/Tpl.lean `Src`)
TIME, ABSPATH, PLATFORM, HASHORDER, RANDOM, SIBLINGS = "time", "absPath", "platform", "hashOrder", "random", "siblings"
PS_UNIQ, PS_MEMO, PS_TPLCACHE, PS_MODELCACHE = "psUniqueName", "psMemo", "psTemplateCache", "psModelCache"
PS_FOLD, PS_SHARED = "psCompileFold", "psSharedMutable"
ALL_SRC = [TIME, ABSPATH, PLATFORM, HASHORDER, RANDOM, SIBLINGS, PS_UNIQ, PS_MEMO, PS_TPLCACHE, PS_MODELCACHE, PS_FOLD, PS_SHARED]
MUTATORS = {"append", "extend", "insert", "remove", "pop", "clear", "update", "add", "discard", "setdefault", "sort", "reverse", "popitem"}
# ... of buffers, streams, iterators, queues (reading moves a position: that is state as well)
IO_MUTATORS = {"write", "writelines", "truncate", "seek", "read", "readline", "readlines", "flush", "close", "send", "put", "put_nowait",
               "get_nowait", "appendleft", "popleft", "rotate", "acquire", "release", "__next__", "subtract", "move_to_end"}


class TieBroken(Exception):
    pass


# =====================================================================================================================
# hand table
# =====================================================================================================================
# free names of the templates (environment globals).  value = classes read by merely mentioning the name.
GLOBALS = {
    "T": set(), "options": set(), "nunavut": set(), "ln": set(), "uses_queries": set(),
    "now_utc": {TIME},
    "range": set(), "dict": set(), "namespace": set(), "cycler": set(), "joiner": set(),
    "lipsum": {RANDOM},
    "ConstructorConvention": set(), "SpecialMethod": set(),
    # names bound by the engine inside templates
    "loop": set(), "caller": set(), "varargs": set(), "kwargs": set(), "self": set(), "true": set(), "false": set(),
    "none": set(), "True": set(), "False": set(), "None": set(),
}
GLOBAL_PREFIXES = ("typename_", "valuetoken_")     # strings from the language configuration

# attributes of the `nunavut` global (set by CodeGenEnvironment.update_nunavut_globals)
NUNAVUT_ATTRS = {
    "version": set(), "support": set(), "embed_auditing_info": set(), "template_sets": set(),
    "platform_version": {PLATFORM},      # sanitised by `auditOffOnly` iff _create_platform_version is gated (AST check)
}
# attribute / method names with a meaning for the analysis (applies to any object; pydsdl attributes are pure data
# of T).  value = (classes added, classes removed)
ATTRS = {
    "source_file_path": ({ABSPATH}, set()),
    # pathlib accessors that keep only the final component
    "name": (set(), {ABSPATH}), "stem": (set(), {ABSPATH}), "suffix": (set(), {ABSPATH}),
    # nunavut.Namespace: hash-ordered set of nested namespaces; whole-tree walks look at sibling types
    "get_nested_namespaces": ({HASHORDER}, set()),
    "get_all_namespaces": ({HASHORDER, SIBLINGS}, set()),
    "get_all_datatypes": ({HASHORDER, SIBLINGS}, set()),
    "get_all_types": ({HASHORDER, SIBLINGS}, set()),
    "get_root_namespace": ({SIBLINGS}, set()),
    "find_output_path_for_type": ({SIBLINGS, ABSPATH}, set()),
    "output_folder": ({ABSPATH}, set()), "source_folder": ({ABSPATH}, set()), "output_path": ({ABSPATH}, set()),
    "get_support_output_folder": ({ABSPATH}, set()),
    "resolve": ({ABSPATH}, set()), "absolute": ({ABSPATH}, set()), "cwd": ({ABSPATH}, set()),
    "__hash__": ({HASHORDER}, set()),
}
# filters: name -> (classes added, classes removed from the filtered value).  Only what the body scan cannot see.
# Jinja's own filters are listed explicitly (an unlisted one raises).
JINJA_FILTERS = {
    "format": (set(), set()), "indent": (set(), set()), "length": (set(), set()), "trim": (set(), set()),
    "int": (set(), set()), "lower": (set(), set()), "upper": (set(), set()), "string": (set(), set()),
    "map": (set(), set()), "first": (set(), set()), "last": (set(), set()), "join": (set(), set()),
    "list": (set(), set()), "replace": (set(), set()), "default": (set(), set()), "d": (set(), set()),
    "abs": (set(), set()), "capitalize": (set(), set()), "center": (set(), set()), "count": (set(), set()),
    "escape": (set(), set()), "e": (set(), set()), "float": (set(), set()), "max": (set(), set()),
    "min": (set(), set()), "sum": (set(), set()), "title": (set(), set()), "truncate": (set(), set()),
    "wordwrap": (set(), set()), "select": (set(), set()), "reject": (set(), set()), "selectattr": (set(), set()),
    "rejectattr": (set(), set()), "attr": (set(), set()), "batch": (set(), set()), "slice": (set(), set()),
    "reverse": (set(), set()), "round": (set(), set()), "safe": (set(), set()), "striptags": (set(), set()),
    "tojson": (set(), set()), "unique": (set(), set()), "groupby": (set(), set()), "wordcount": (set(), set()),
    "items": (set(), set()), "xmlattr": (set(), set()), "urlencode": (set(), set()), "filesizeformat": (set(), set()),
    "forceescape": (set(), set()), "urlize": (set(), set()), "pprint": (set(), set()),
    "lineprefix": (set(), set()),        # nunavut's addition to the bundled Jinja: prefixes every line of a string (found by the sweep)
    "sort": (set(), {HASHORDER}), "dictsort": (set(), {HASHORDER}),
    "random": ({RANDOM}, set()), "shuffle": ({RANDOM}, set()),
}
NUNAVUT_FILTERS = {
    # include / import lists: built from the hash-ordered Dependencies.composite_types; sanitised by `sorted` when the
    # `sort` argument is not switched off and IncludeGenerator still sorts (AST check `include_generator_sorts`)
    "includes": ({HASHORDER}, set()),
    "imports": (set(), set()),            # ordered list of attribute namespaces, no set involved (body scan confirms)
    "to_template_unique_name": ({PS_UNIQ}, set()),
    "make_unique": ({PS_UNIQ}, set()),
    "natural_sort_namespace": (set(), {HASHORDER}),
    "natural_sort_type": (set(), {HASHORDER}),
    "type_to_template": ({PS_TPLCACHE}, set()),
    "type_to_include_path": (set(), set()),
}
TESTS_JINJA = {"defined", "undefined", "none", "number", "string", "sequence", "mapping", "iterable", "callable",
               "sameas", "escaped", "odd", "even", "divisibleby", "lower", "upper", "in", "eq", "equalto", "==", "ne",
               "!=", "lt", "<", "le", "<=", "gt", ">", "ge", ">=", "lessthan", "greaterthan", "boolean", "false",
               "true", "integer", "float"}
EXT_METHODS = {"_do_assert": set(), "_use_query": set(), "_use_nquery": set()}


# =====================================================================================================================
# ambient-API scan of Python callables
# =====================================================================================================================
class Scanner:
    """Scan function bodies (transitively, by name, inside the nunavut package) for ambient APIs."""

    def __init__(self, repo_src: pathlib.Path):
        self.repo_src = repo_src
        self.index = {}       # simple name -> list of (module, qualname, ast.FunctionDef)
        self.memo = {}
        pkg = repo_src / "nunavut"
        self.memoised = set()
        for f in sorted(pkg.rglob("*.py")):
            rel = f.relative_to(repo_src)
            if "jinja2" in rel.parts or "markupsafe" in rel.parts:
                continue
            try:
                tree = ast.parse(f.read_text(encoding="utf-8"))
            except SyntaxError as e:  # pragma: no cover
                raise TieBroken(f"cannot parse {f}: {e}")
            mod = ".".join(rel.with_suffix("").parts)
            for node in ast.walk(tree):
                if isinstance(node, (ast.FunctionDef, ast.AsyncFunctionDef)):
                    self.index.setdefault(node.name, []).append((mod, node))
                    for d in node.decorator_list:
                        dn = self._dotted(d.func if isinstance(d, ast.Call) else d) or ""
                        if dn.endswith("lru_cache") or dn.endswith(".cache") or dn == "cache" or dn.endswith("cached_property"):
                            self.memoised.add(node.name)

    # names too generic to follow by name (would connect everything with everything)
    STOP = {"__init__", "get", "items", "keys", "values", "update", "format", "join", "append", "add", "write", "read",
            "run", "main", "create", "setup", "parse", "generate_all", "get_templates", "__call__", "__repr__",
            "__eq__", "__hash__", "__contains__", "__iter__", "__len__", "__str__", "name", "copy", "split", "strip",
            "lower", "upper", "replace", "startswith", "endswith", "encode", "decode", "extend", "pop", "index",
            "count", "sort", "search", "match", "sub", "group", "start", "end", "exists", "open", "close", "info",
            "debug", "warning", "error", "isinstance", "len", "str", "int", "min", "max", "sorted", "list", "dict",
            "set", "tuple", "range", "enumerate", "zip", "map", "filter", "repr", "getattr", "setattr", "hasattr",
            "type", "super", "bool", "float", "abs", "any", "all", "next", "iter", "print", "ord", "chr"}

    @staticmethod
    def _dotted(node):
        parts = []
        while isinstance(node, ast.Attribute):
            parts.append(node.attr)
            node = node.value
        if isinstance(node, ast.Name):
            parts.append(node.id)
            return ".".join(reversed(parts))
        return None

    def _scan_def(self, fn: ast.AST):
        """(classes, called simple names, notes) of one function body, nested defs included."""
        classes, calls, notes = set(), set(), []
        sorted_args = set()
        for node in ast.walk(fn):
            if isinstance(node, ast.Call) and isinstance(node.func, ast.Name) and node.func.id in ("sorted", "len", "min", "max", "sum", "any", "all", "frozenset", "set"):
                for a in node.args:
                    sorted_args.add(id(a))
        # objects handed out by a memoised function / cached property are shared: any mutation of them is process state
        shared = set()
        for node in ast.walk(fn):
            if isinstance(node, ast.Assign) and len(node.targets) == 1 and isinstance(node.targets[0], ast.Name):
                v = node.value
                callee = None
                if isinstance(v, ast.Call):
                    callee = (self._dotted(v.func) or "").rsplit(".", 1)[-1] or (v.func.attr if isinstance(v.func, ast.Attribute) else None)
                elif isinstance(v, ast.Attribute):
                    callee = v.attr
                if callee in self.memoised:
                    shared.add(node.targets[0].id)

        def is_shared(e):
            if isinstance(e, ast.Name) and e.id in shared:
                return True
            if isinstance(e, ast.Call):
                c = (self._dotted(e.func) or "").rsplit(".", 1)[-1] or (e.func.attr if isinstance(e.func, ast.Attribute) else "")
                return c in self.memoised
            if isinstance(e, ast.Attribute) and e.attr in self.memoised and not isinstance(e.ctx, ast.Store):
                return True
            return False
        for node in ast.walk(fn):
            tg = []
            if isinstance(node, ast.Assign):
                tg = node.targets
            elif isinstance(node, (ast.AugAssign, ast.AnnAssign)):
                tg = [node.target]
            for t in tg:
                if isinstance(t, (ast.Attribute, ast.Subscript)) and is_shared(t.value):
                    classes.add(PS_SHARED); notes.append(f"mutates an object handed out by a memoised function (line {t.lineno})")
            if isinstance(node, ast.Call):
                if isinstance(node.func, ast.Attribute) and node.func.attr in MUTATORS and is_shared(node.func.value):
                    classes.add(PS_SHARED); notes.append(f"calls .{node.func.attr}() on an object handed out by a memoised function (line {node.lineno})")
                if (self._dotted(node.func) or "") in ("setattr", "delattr") and node.args and is_shared(node.args[0]):
                    classes.add(PS_SHARED); notes.append(f"setattr on an object handed out by a memoised function (line {node.lineno})")
        for node in ast.walk(fn):
            if isinstance(node, (ast.FunctionDef, ast.AsyncFunctionDef)) and node is not fn:
                for d in node.decorator_list:
                    pass
            if isinstance(node, (ast.FunctionDef, ast.AsyncFunctionDef)):
                for d in node.decorator_list:
                    dn = self._dotted(d.func if isinstance(d, ast.Call) else d) or ""
                    if dn.endswith("lru_cache") or dn.endswith("cache"):
                        classes.add(PS_MEMO); notes.append(f"{node.name}: memoised ({dn})")
                        # a memoised function that writes object / class state is not a function of its arguments
                        for sub in ast.walk(node):
                            tg = sub.targets if isinstance(sub, ast.Assign) else [sub.target] if isinstance(sub, (ast.AugAssign, ast.AnnAssign)) else []
                            for t in tg:
                                base_ = t.value if isinstance(t, ast.Subscript) else t
                                dn2 = self._dotted(base_) or ""
                                if dn2.startswith("self.") or dn2.startswith("cls."):
                                    classes.add(PS_SHARED); notes.append(f"{node.name}: memoised but writes {dn2} (line {sub.lineno})")
                            if isinstance(sub, ast.Call) and isinstance(sub.func, ast.Attribute) and sub.func.attr in MUTATORS:
                                dn2 = self._dotted(sub.func.value) or ""
                                if dn2.startswith("self.") or dn2.startswith("cls."):
                                    classes.add(PS_SHARED); notes.append(f"{node.name}: memoised but calls {dn2}.{sub.func.attr}() (line {sub.lineno})")
            if isinstance(node, ast.Call):
                dn = self._dotted(node.func) or ""
                last = dn.rsplit(".", 1)[-1] if dn else (node.func.attr if isinstance(node.func, ast.Attribute) else "")
                kw = {k.arg for k in node.keywords}
                if dn in ("time.time", "time.time_ns", "time.monotonic", "time.perf_counter", "time.localtime", "time.gmtime",
                          "time.strftime", "time.ctime", "time.asctime") or last in ("utcnow", "today") or \
                        (last == "now" and "datetime" in dn) or dn in ("datetime.now", "datetime.datetime.now"):
                    classes.add(TIME); notes.append(f"calls {dn or last}")
                if last in ("stat", "lstat", "getmtime", "getctime", "getatime", "utime", "scandir") or dn in ("os.stat", "os.lstat"):
                    classes.add(TIME); notes.append(f"calls {dn or last} (file time stamps / metadata are not part of the declared inputs)")
                if (dn in ("gzip.compress", "gzip.GzipFile", "gzip.open", "GzipFile") or last == "GzipFile") and "mtime" not in kw:
                    classes.add(TIME); notes.append(f"{dn} without mtime (header embeds the current time)")
                if dn in ("os.getcwd", "os.getcwdb", "os.path.abspath", "os.path.realpath", "os.path.expanduser",
                          "Path.cwd", "pathlib.Path.cwd", "Path.home", "pathlib.Path.home", "tempfile.mkdtemp",
                          "tempfile.gettempdir", "tempfile.mkstemp") or last in ("resolve", "absolute", "getcwd", "expanduser"):
                    classes.add(ABSPATH); notes.append(f"calls {dn or last}")
                if dn in ("pickle.dumps", "pickle.dump", "marshal.dumps", "marshal.dump", "dill.dumps", "copy.deepcopy"):
                    classes.add(ABSPATH); notes.append(f"{dn}: serialises whole objects (the pydsdl model holds absolute source paths)")
                    # ... and the lazily filled caches inside the shared model objects (pydsdl BitLengthSet operators memoise
                    # `% n` / expansions): their fill state depends on what was asked of the shared objects earlier in the process
                    classes.add(PS_MODELCACHE); notes.append(f"{dn}: serialises the fill state of caches inside the shared model objects")
                if dn in ("id", "hash") and node.args:
                    classes.add(HASHORDER); notes.append(f"calls {dn}()")
                if dn.startswith("random.") or dn.startswith("secrets.") or dn.startswith("uuid.") or dn in ("os.urandom",):
                    classes.add(RANDOM); notes.append(f"calls {dn}")
                if dn.startswith("platform.") or dn in ("os.getpid", "os.getppid", "os.uname", "socket.gethostname",
                                                        "getpass.getuser", "os.getlogin", "os.cpu_count", "sys.getfilesystemencoding",
                                                        "locale.getlocale", "locale.getpreferredencoding"):
                    classes.add(PLATFORM); notes.append(f"calls {dn}")
                if last and last not in self.STOP:
                    calls.add(last)
                if last == "get_instance" and "UniqueNameGenerator" in dn:
                    classes.add(PS_UNIQ); notes.append("uses the process-wide UniqueNameGenerator")
            if isinstance(node, ast.Attribute):
                dn = self._dotted(node) or ""
                if dn in ("os.environ", "sys.platform", "sys.version", "sys.version_info", "sys.executable", "sys.prefix",
                          "sys.argv", "sys.path", "sys.flags", "sys._xoptions", "sys.hexversion", "sys.implementation",
                          "os.sep", "os.name", "os.linesep"):
                    classes.add(PLATFORM); notes.append(f"reads {dn}")
            # iteration over a syntactic set without sorting
            iters = []
            if isinstance(node, (ast.For, ast.AsyncFor)):
                iters.append(node.iter)
            if isinstance(node, (ast.ListComp, ast.GeneratorExp, ast.DictComp, ast.SetComp)):
                if not (isinstance(node, ast.SetComp)):
                    iters += [g.iter for g in node.generators]
                elif id(node) not in sorted_args:
                    pass
            if isinstance(node, ast.Call) and isinstance(node.func, ast.Name) and node.func.id in ("list", "tuple", "iter", "enumerate", "next") and node.args:
                iters.append(node.args[0])
            if isinstance(node, ast.Call) and isinstance(node.func, ast.Attribute) and node.func.attr == "join" and node.args:
                iters.append(node.args[0])
            for it in iters:
                if self._is_set_expr(it):
                    classes.add(HASHORDER); notes.append(f"iterates a set without sorting (line {getattr(it, 'lineno', '?')})")
        return classes, calls, notes

    @staticmethod
    def _is_set_expr(node):
        if isinstance(node, (ast.Set, ast.SetComp)):
            return True
        if isinstance(node, ast.Call) and isinstance(node.func, ast.Name) and node.func.id in ("set", "frozenset"):
            return True
        if isinstance(node, ast.Attribute) and node.attr in ("composite_types", "_nested_namespaces"):
            return True
        if isinstance(node, ast.BinOp) and isinstance(node.op, (ast.Sub, ast.BitOr, ast.BitAnd, ast.BitXor)):
            return Scanner._is_set_expr(node.left) or Scanner._is_set_expr(node.right)
        return False

    def scan_name(self, name: str, depth=0, seen=None):
        """Union over all functions of that simple name in the package, followed transitively."""
        if seen is None:
            seen = set()
        if name in seen or depth > 6:
            return set(), []
        seen.add(name)
        classes, notes = set(), []
        for mod, fn in self.index.get(name, []):
            key = (mod, fn.name, fn.lineno)
            if key not in self.memo:
                self.memo[key] = self._scan_def(fn)
            c, calls, n = self.memo[key]
            classes |= c
            notes += [f"{mod}.{fn.name}: {x}" for x in n]
            for callee in sorted(calls):
                if callee in self.index:
                    c2, n2 = self.scan_name(callee, depth + 1, seen)
                    classes |= c2
                    notes += n2
        return classes, notes

    def scan_callable(self, fn):
        """Scan a live callable (unwrapping partials / decorators) by its simple name; fall back to its source."""
        seen_objs = 0
        while seen_objs < 8:
            seen_objs += 1
            if hasattr(fn, "func") and callable(getattr(fn, "func")):
                fn = fn.func; continue
            if hasattr(fn, "__wrapped__"):
                fn = fn.__wrapped__; continue
            break
        name = getattr(fn, "__name__", None)
        mod = getattr(fn, "__module__", "") or ""
        if name is None:
            raise TieBroken(f"cannot name callable {fn!r}")
        if mod.startswith("nunavut") and "jinja2" not in mod and "markupsafe" not in mod:
            if name not in self.index:
                # defined dynamically: scan the source directly
                try:
                    src = textwrap.dedent(inspect.getsource(fn))
                    tree = ast.parse(src)
                    c, calls, n = self._scan_def(tree)
                    for callee in sorted(calls):
                        c2, n2 = self.scan_name(callee)
                        c |= c2; n += n2
                    return c, n, f"{mod}:{name}"
                except (OSError, TypeError, SyntaxError) as e:
                    raise TieBroken(f"no source for {mod}.{name}: {e}")
            c, n = self.scan_name(name)
            return c, n, f"{mod}:{name}"
        return None, [], f"{mod}:{name}"   # not nunavut code: must be in the hand table


# =====================================================================================================================
# source-level facts used as sanitiser conditions
# =====================================================================================================================
def source_facts(repo_src: pathlib.Path):
    facts = {}

    def find_def(path, name, cls=None):
        tree = ast.parse((repo_src / path).read_text(encoding="utf-8"))
        for node in ast.walk(tree):
            if isinstance(node, ast.ClassDef) and (cls is None or node.name == cls):
                for sub in ast.walk(node):
                    if isinstance(sub, ast.FunctionDef) and sub.name == name:
                        return sub
            if cls is None and isinstance(node, ast.FunctionDef) and node.name == name:
                return node
        raise TieBroken(f"{path}: def {name} not found")

    # 1. _generate_code resets the UniqueNameGenerator before it consumes the template generator
    fn = find_def("nunavut/jinja/__init__.py", "_generate_code", "CodeGenerator")
    reset_line, consume_line = None, None
    for node in ast.walk(fn):
        if isinstance(node, ast.Call):
            dn = Scanner._dotted(node.func) or ""
            if dn == "UniqueNameGenerator.reset" and reset_line is None and not node.args and not node.keywords:
                reset_line = node.lineno      # a reset of ALL domains: no argument
            if dn.endswith("_generate_with_line_buffer") or dn == "output_file.write":
                consume_line = node.lineno if consume_line is None else min(consume_line, node.lineno)
    # ... and reset() replaces the whole singleton unconditionally (every domain of the index map)
    rdef = find_def("nunavut/lang/_common.py", "reset", "UniqueNameGenerator")
    full = False
    for st in rdef.body:
        if isinstance(st, ast.Assign) and len(st.targets) == 1 and Scanner._dotted(st.targets[0]) == "cls._singleton" and \
                isinstance(st.value, ast.Call) and Scanner._dotted(st.value.func) == "cls" and not st.value.args:
            full = True
    facts["unique_name_reset_clears_all_domains"] = full
    facts["resets_unique_names_per_file"] = bool(full and reset_line is not None and consume_line is not None and reset_line < consume_line)

    # 2. IncludeGenerator sorts when asked to
    fn = find_def("nunavut/lang/_common.py", "generate_include_filepart_list", "IncludeGenerator")
    ok = False
    for node in ast.walk(fn):
        if isinstance(node, ast.If) and isinstance(node.test, ast.Name) and node.test.id == "sort":
            for sub in node.body:
                if isinstance(sub, ast.Return) and isinstance(sub.value, ast.Call) and \
                        isinstance(sub.value.func, ast.Name) and sub.value.func.id == "sorted":
                    ok = True
    facts["include_generator_sorts"] = ok

    # 3. the platform dictionary: which keys are filled in outside `if embed_auditing_info`
    fn = find_def("nunavut/jinja/environment.py", "_create_platform_version", "CodeGenEnvironment")
    ungated = []

    def visit(stmts, gated):
        for s in stmts:
            if isinstance(s, ast.If):
                t = s.test
                is_gate = isinstance(t, ast.Name) and t.id == "embed_auditing_info"
                visit(s.body, gated or is_gate)
                visit(s.orelse, gated)
            elif isinstance(s, (ast.Try,)):
                visit(s.body, gated); visit(s.orelse, gated); visit(s.finalbody, gated)
                for h in s.handlers:
                    visit(h.body, gated)
            elif isinstance(s, (ast.With, ast.For, ast.While)):
                visit(s.body, gated)
            else:
                if not gated:
                    for node in ast.walk(s):
                        dn = Scanner._dotted(node) if isinstance(node, ast.Attribute) else None
                        if dn and (dn.startswith("platform.") or dn.startswith("sys.") or dn.startswith("os.") or dn.startswith("time.") or dn.startswith("datetime.")):
                            ungated.append(dn)
    visit(fn.body, False)
    facts["platform_ungated_reads"] = sorted(set(ungated))
    # the interpreter version is counted as part of the tool version (declared input); anything else is ambient
    facts["platform_version_audit_off_only"] = set(ungated) <= {"platform.python_version"}

    # 4. the line post-processors are reset per file
    facts["line_pp_reset_per_file"] = line_pp_reset_per_file(repo_src)

    # 7. the HTML natural sort is total: ties of the natural key are broken by the plain name
    fn = find_def("nunavut/lang/html/__init__.py", "_natural_sort")
    total = False
    for node in ast.walk(fn):
        if isinstance(node, ast.Call) and isinstance(node.func, ast.Name) and node.func.id == "sorted":
            for k in node.keywords:
                if k.arg == "key" and isinstance(k.value, ast.Lambda) and isinstance(k.value.body, ast.Tuple) and len(k.value.body.elts) >= 2:
                    last = k.value.body.elts[-1]
                    if isinstance(last, ast.Call) and isinstance(last.func, ast.Name) and last.func.id == "key":
                        total = True
    facts["natural_sort_total"] = total

    # 8. class-level / module-level mutable containers that are written at run time (process-wide state)
    facts["shared_containers"] = shared_containers(repo_src)
    facts["no_unlisted_shared_containers"] = all(x["id"] in SHARED_CONTAINER_WHITELIST for x in facts["shared_containers"])
    facts["process_state_candidates"] = list(CANDIDATES)

    # 6. templates are compiled lazily: no generator constructor asks the environment for a template
    lazy = True
    jt = ast.parse((repo_src / "nunavut/jinja/__init__.py").read_text(encoding="utf-8"))
    for node in ast.walk(jt):
        if isinstance(node, ast.FunctionDef) and node.name in ("__init__", "__new__", "__post_init__"):
            for sub in ast.walk(node):
                if isinstance(sub, ast.Call) and isinstance(sub.func, ast.Attribute) and sub.func.attr in (
                        "get_template", "select_template", "get_or_select_template", "compile_templates", "from_string", "compile", "join_path"):
                    lazy = False
    facts["templates_compiled_lazily"] = lazy

    # 5. cached_property keeps its value per instance: __get__ stores into instance.__dict__ and assigns nothing on the descriptor
    fn = find_def("nunavut/_utilities.py", "__get__", "cached_property")
    dict_names, stores_in_instance, stores_on_self = set(), False, False
    for node in ast.walk(fn):
        if isinstance(node, ast.Assign):
            for t in node.targets:
                if isinstance(t, ast.Name) and Scanner._dotted(node.value) == "instance.__dict__":
                    dict_names.add(t.id)
    for node in ast.walk(fn):
        if isinstance(node, (ast.Assign, ast.AugAssign, ast.AnnAssign)):
            targets = node.targets if isinstance(node, ast.Assign) else [node.target]
            for t in targets:
                if isinstance(t, ast.Subscript) and (Scanner._dotted(t.value) == "instance.__dict__" or (isinstance(t.value, ast.Name) and t.value.id in dict_names)):
                    stores_in_instance = True
                if isinstance(t, ast.Attribute) and isinstance(t.value, ast.Name) and t.value.id == "self":
                    stores_on_self = True
        if isinstance(node, ast.Call) and (Scanner._dotted(node.func) or "") in ("setattr", "object.__setattr__") and node.args:
            a0 = node.args[0]
            if isinstance(a0, ast.Name) and a0.id == "instance":
                stores_in_instance = True
            if isinstance(a0, ast.Name) and a0.id == "self":
                stores_on_self = True
    facts["cached_property_per_instance"] = bool(stores_in_instance and not stores_on_self)

    # 9. file post-processors: the code Model/FilePP.lean transcribes
    facts.update(file_pp_facts(repo_src))

    # 11. the line buffer of _generate_with_line_buffer is created by the call that uses it (a fresh io.StringIO() at entry and after
    #     every complete line): nothing of an earlier — possibly aborted — rendering can be in it
    fn = find_def("nunavut/jinja/__init__.py", "_generate_with_line_buffer", "CodeGenerator")
    binds = [n for n in ast.walk(fn) if isinstance(n, ast.Assign) and any(isinstance(t, ast.Name) and t.id == "line_buffer" for t in n.targets)]
    fresh = [n for n in binds if isinstance(n.value, ast.Call) and (Scanner._dotted(n.value.func) or "") in ("io.StringIO", "StringIO") and not n.value.args]
    first_use = min([n.lineno for n in ast.walk(fn) if isinstance(n, ast.Name) and n.id == "line_buffer" and isinstance(n.ctx, ast.Load)] or [0])
    facts["line_buffer_per_call"] = bool(binds) and len(fresh) == len(binds) and min(n.lineno for n in binds) < first_use

    # 12. memoised functions are keyed by values that determine their result
    facts["memoised_functions"] = memoised_functions(repo_src)
    facts["memo_keys_coarser_than_function"] = [m for m in facts["memoised_functions"] if m["coarse_key_params"]]
    facts["memo_keys_determine_result"] = not facts["memo_keys_coarser_than_function"]
    MODELLED = {"nunavut/lang/_common.py:TokenEncoder.strop", "nunavut/lang/_language.py:LanguageClassLoader.load_language_class",
                "nunavut/lang/cpp/__init__.py:_make_textwrap"}      # = ProcState.modelledMemoised (the Lean theorem is the check; this names it)
    facts["memoised_not_modelled"] = [m["function"] for m in facts["memoised_functions"] if m["function"] not in MODELLED]
    facts["memoised_functions_modelled"] = not facts["memoised_not_modelled"]

    # 13. override files are read in the order they are given (the later file wins; no re-ordering by path)
    fn = find_def("nunavut/lang/__init__.py", "add_config_files", "LanguageContextBuilder")
    param = fn.args.vararg.arg if fn.args.vararg is not None else (fn.args.args[1].arg if len(fn.args.args) > 1 else None)
    loops = [n for n in ast.walk(fn) if isinstance(n, ast.For)]
    facts["config_files_read_in_given_order"] = bool(param) and len(loops) == 1 and isinstance(loops[0].iter, ast.Name) and loops[0].iter.id == param
    facts["config_files_loop"] = [ast.unparse(l.iter) for l in loops]

    # 10. nothing but the command line, the declared environment variables and the package itself is looked at
    facts["ambient_probes"] = ambient_probes(repo_src)
    facts["no_undeclared_ambient_inputs"] = not facts["ambient_probes"]
    return facts



# =====================================================================================================================
# file post-processors: the code Model/FilePP.lean was transcribed from
# =====================================================================================================================
# The statements of the small functions the model transcribes, docstrings removed.  A function whose AST no longer equals
# the AST of this text is reported by name (fact `file_pp_source_matches_model`): the model has to be looked at again.
FILE_PP_TRANSCRIBED = {
    ("nunavut/_postprocessors.py", "SetFileMode", "__init__"): """
def __init__(self, file_mode: int):
    self._file_mode = file_mode
""",
    ("nunavut/_postprocessors.py", "SetFileMode", "__call__"): """
def __call__(self, generated: pathlib.Path) -> pathlib.Path:
    generated.chmod(self._file_mode)
    return generated
""",
    ("nunavut/_postprocessors.py", "ExternalProgramEditInPlace", "__init__"): """
def __init__(self, command_line: typing.List[str], check: bool = True):
    self._command_line = command_line
    self._check = check
""",
    ("nunavut/_postprocessors.py", "ExternalProgramEditInPlace", "__call__"): """
def __call__(self, generated: pathlib.Path) -> pathlib.Path:
    run_args = self._command_line + [str(generated)]
    if len(run_args) > 0 and str(run_args[0]).endswith(".py"):
        run_args = [sys.executable] + run_args
    subprocess_run(run_args, check=self._check)
    return generated
""",
    ("nunavut/cli/runners.py", "ArgparseRunner", "_build_ext_program_postprocessor"): """
def _build_ext_program_postprocessor(self, program: str) -> FilePostProcessor:
    subprocess_args = [program]
    if hasattr(self._args, "pp_run_program_arg") and self._args.pp_run_program_arg is not None:
        for program_arg in self._args.pp_run_program_arg:
            subprocess_args.append(program_arg)
    return ExternalProgramEditInPlace(subprocess_args)
""",
    ("nunavut/cli/runners.py", "ArgparseRunner", "_build_post_processor_list_from_args"): """
def _build_post_processor_list_from_args(self) -> typing.List[PostProcessor]:
    post_processors: typing.List[PostProcessor] = []
    if self._args.pp_trim_trailing_whitespace:
        post_processors.append(TrimTrailingWhitespace())
    if hasattr(self._args, "pp_max_emptylines") and self._args.pp_max_emptylines is not None:
        post_processors.append(LimitEmptyLines(self._args.pp_max_emptylines))
    if hasattr(self._args, "pp_run_program") and self._args.pp_run_program is not None:
        post_processors.append(self._build_ext_program_postprocessor(self._args.pp_run_program))

    post_processors.append(SetFileMode(self._args.file_mode))

    return post_processors
""",
    ("nunavut/jinja/__init__.py", "CodeGenerator", "_handle_overwrite"): """
def _handle_overwrite(self, output_path: pathlib.Path, allow_overwrite: bool) -> None:
    if output_path.exists():
        if allow_overwrite:
            output_path.chmod(output_path.stat().st_mode | 0o220)
        else:
            raise PermissionError("{output_path} exists and allow_overwrite is False.")
""",
    ("nunavut/jinja/__init__.py", "SupportGenerator", "_copy_header"): """
def _copy_header(
    self,
    resource: pathlib.Path,
    target: pathlib.Path,
    is_dryrun: bool,
    allow_overwrite: bool,
    line_pps: typing.List["nunavut._postprocessors.LinePostProcessor"],
    file_pps: typing.List["nunavut._postprocessors.FilePostProcessor"],
) -> pathlib.Path:
    if not is_dryrun:
        self._handle_overwrite(target, allow_overwrite)
        target.parent.mkdir(parents=True, exist_ok=True)
        if len(line_pps) == 0:
            shutil.copyfile(str(resource), str(target))
            shutil.copymode(str(resource), str(target))
        else:
            self._copy_header_using_line_pps(resource, target, line_pps)
        for file_pp in file_pps:
            target = file_pp(target)
    return target
""",
}


def _strip_docstrings(fn):
    """Function definition without docstrings, with string constants of raise / log messages blanked (wording is not logic)."""
    fn = ast.parse(ast.unparse(fn)).body[0]
    for node in ast.walk(fn):
        if isinstance(node, (ast.FunctionDef, ast.AsyncFunctionDef, ast.ClassDef)) and node.body and \
                isinstance(node.body[0], ast.Expr) and isinstance(node.body[0].value, ast.Constant) and isinstance(node.body[0].value.value, str):
            node.body = node.body[1:] or [ast.Pass()]
    for node in ast.walk(fn):
        if isinstance(node, ast.Raise) and isinstance(node.exc, ast.Call):
            node.exc.args = []
    fn.body = [st for st in fn.body if not (isinstance(st, ast.Expr) and isinstance(st.value, ast.Call) and
                                            (Scanner._dotted(st.value.func) or "").startswith("logger."))]
    return fn


def _find_method(repo_src, path, cls, name):
    tree = ast.parse((repo_src / path).read_text(encoding="utf-8"))
    for node in ast.walk(tree):
        if isinstance(node, ast.ClassDef) and node.name == cls:
            for sub in node.body:
                if isinstance(sub, ast.FunctionDef) and sub.name == name:
                    return sub
    return None


def _pp_subclasses(repo_src, root_name):
    """(module path, ClassDef) of every class of the package deriving (transitively, by simple name) from `root_name`."""
    classes = []
    for f in sorted((repo_src / "nunavut").rglob("*.py")):
        rel = f.relative_to(repo_src)
        if "jinja2" in rel.parts or "markupsafe" in rel.parts:
            continue
        for node in ast.walk(ast.parse(f.read_text(encoding="utf-8"))):
            if isinstance(node, ast.ClassDef):
                classes.append((rel.as_posix(), node))
    derived, changed = {root_name}, True
    while changed:
        changed = False
        for _, c in classes:
            if c.name not in derived and any((Scanner._dotted(b) or "").rsplit(".", 1)[-1] in derived for b in c.bases):
                derived.add(c.name); changed = True
    return [(m, c) for m, c in classes if c.name in derived and c.name != root_name]


def _state_writes(fn):
    """Writes to object state in a method body: [(line, what)].  `self.x = …`, `self.x[…] = …`, `self.x += …`, `del self.x`,
    mutating method on `self.x`, setattr(self, …) — and the same through a local alias of `self.x` (`a = self.x; a += […]`)."""
    aliases = set()
    changed = True
    def is_state(e):
        while isinstance(e, (ast.Subscript, ast.Attribute)) and not (isinstance(e, ast.Attribute) and isinstance(e.value, ast.Name) and e.value.id == "self"):
            e = e.value
        if isinstance(e, ast.Attribute) and isinstance(e.value, ast.Name) and e.value.id == "self":
            return True
        return isinstance(e, ast.Name) and e.id in aliases
    def may_alias(v):
        if isinstance(v, ast.IfExp):
            return may_alias(v.body) or may_alias(v.orelse)
        if isinstance(v, ast.BoolOp):
            return any(may_alias(x) for x in v.values)
        if isinstance(v, ast.NamedExpr):
            return may_alias(v.value)
        return is_state(v) and not isinstance(v, ast.Call)
    while changed:
        changed = False
        for node in ast.walk(fn):
            tv = []
            if isinstance(node, ast.Assign):
                tv = [(t, node.value) for t in node.targets]
            elif isinstance(node, ast.AnnAssign) and node.value is not None:
                tv = [(node.target, node.value)]
            elif isinstance(node, ast.NamedExpr):
                tv = [(node.target, node.value)]
            for t, v in tv:
                if isinstance(t, ast.Name) and t.id not in aliases and may_alias(v):
                    aliases.add(t.id); changed = True
    out = []
    for node in ast.walk(fn):
        if isinstance(node, ast.Assign):
            for t in node.targets:
                for tt in (t.elts if isinstance(t, (ast.Tuple, ast.List)) else [t]):
                    if isinstance(tt, (ast.Attribute, ast.Subscript)) and is_state(tt):
                        out.append((node.lineno, f"assigns {ast.unparse(tt)}"))
        elif isinstance(node, ast.AnnAssign) and node.value is not None:
            if isinstance(node.target, (ast.Attribute, ast.Subscript)) and is_state(node.target):
                out.append((node.lineno, f"assigns {ast.unparse(node.target)}"))
        elif isinstance(node, ast.AugAssign):
            if is_state(node.target):
                out.append((node.lineno, f"updates {ast.unparse(node.target)} in place ({type(node.op).__name__})"))
        elif isinstance(node, ast.Delete):
            for t in node.targets:
                if is_state(t):
                    out.append((node.lineno, f"deletes {ast.unparse(t)}"))
        elif isinstance(node, ast.Call):
            if isinstance(node.func, ast.Attribute) and node.func.attr in MUTATORS and is_state(node.func.value):
                out.append((node.lineno, f"calls {ast.unparse(node.func)}()"))
            if (Scanner._dotted(node.func) or "") in ("setattr", "delattr", "object.__setattr__") and node.args and \
                    isinstance(node.args[0], ast.Name) and node.args[0].id == "self":
                out.append((node.lineno, f"{ast.unparse(node.func)}(self, …)"))
    return sorted(set(out))


def file_pp_facts(repo_src):
    facts = {}
    # (1) no FilePostProcessor of the package writes object state outside __init__
    impure = []
    for mod, cl in _pp_subclasses(repo_src, "FilePostProcessor"):
        for sub in cl.body:
            if isinstance(sub, ast.FunctionDef) and sub.name not in ("__init__", "__new__"):
                for line, what in _state_writes(sub):
                    impure.append({"class": cl.name, "method": sub.name, "where": f"{mod}:{line}", "what": what})
    facts["file_pp_state_writes"] = impure
    facts["file_pp_calls_pure"] = not impure
    # (1b) every attribute a LinePostProcessor writes while processing lines is re-initialised by its reset()
    unreset = []
    for mod, cl in _pp_subclasses(repo_src, "LinePostProcessor"):
        methods = {sub.name: sub for sub in cl.body if isinstance(sub, ast.FunctionDef)}
        written = set()
        for name, sub in methods.items():
            if name in ("__init__", "__new__", "reset"):
                continue
            for line, what in _state_writes(sub):
                written.add((what.split()[-1] if what.startswith(("assigns", "deletes")) else what.split()[1], line, name))
        if written:
            reset_assigns = set()
            if "reset" in methods:
                for node in ast.walk(methods["reset"]):
                    if isinstance(node, ast.Assign):
                        reset_assigns |= {ast.unparse(t) for t in node.targets}
            for attr, line, name in sorted(written):
                base_attr = attr.split("[")[0].split("(")[0]
                base_attr = ".".join(base_attr.split(".")[:2])
                if base_attr not in reset_assigns:
                    unreset.append({"class": cl.name, "method": name, "where": f"{mod}:{line}", "attribute": base_attr})
    facts["line_pp_state_not_reset"] = unreset
    facts["line_pp_reset_complete"] = not unreset
    # (2) the transcribed functions are what the model was written from
    diffs = []
    for (path, cls, name), text in FILE_PP_TRANSCRIBED.items():
        fn = _find_method(repo_src, path, cls, name)
        if fn is None:
            diffs.append({"function": f"{path}:{cls}.{name}", "what": "not found"})
            continue
        want = _strip_docstrings(ast.parse(textwrap.dedent(text)).body[0])
        got = _strip_docstrings(fn)
        if ast.dump(want) != ast.dump(got):
            ws, gs = [ast.unparse(x) for x in want.body], [ast.unparse(x) for x in got.body]
            i = next((k for k in range(max(len(ws), len(gs))) if k >= len(ws) or k >= len(gs) or ws[k] != gs[k]), None)
            diffs.append({"function": f"{path}:{cls}.{name}",
                          "what": "signature differs" if i is None else f"statement {i + 1} differs",
                          "transcribed": None if i is None or i >= len(ws) else ws[i][:200],
                          "found": None if i is None or i >= len(gs) else gs[i][:200]})
    facts["file_pp_source_diffs"] = diffs
    facts["file_pp_source_matches_model"] = not diffs
    # (3) the generators' loops: classification (reset + collect | collect | raise), then — after the file is closed —
    #     `for file_pp in file_pps: <path> = file_pp(<path>)`
    problems = []

    def classification_ok(fn, want_reset):
        for node in ast.walk(fn):
            if isinstance(node, ast.For) and isinstance(node.target, ast.Name) and ast.unparse(node.iter) == "self._post_processors":
                pp = node.target.id
                if len(node.body) != 1 or not isinstance(node.body[0], ast.If):
                    return "the loop over self._post_processors is not a single if / elif / else"
                i1 = node.body[0]
                t1 = ast.unparse(i1.test)
                if not (t1.startswith(f"isinstance({pp}, ") and t1.endswith("LinePostProcessor)")):
                    return "first branch does not test for LinePostProcessor"
                b1 = [ast.unparse(x) for x in i1.body]
                if b1 != ([f"{pp}.reset()"] if want_reset else []) + [f"line_pps.append({pp})"]:
                    return f"LinePostProcessor branch is {b1}"
                if len(i1.orelse) != 1 or not isinstance(i1.orelse[0], ast.If):
                    return "no elif branch"
                i2 = i1.orelse[0]
                t2 = ast.unparse(i2.test)
                if not (t2.startswith(f"isinstance({pp}, ") and t2.endswith("FilePostProcessor)")):
                    return "second branch does not test for FilePostProcessor"
                if [ast.unparse(x) for x in i2.body] != [f"file_pps.append({pp})"]:
                    return "FilePostProcessor branch does not just collect the object"
                if len(i2.orelse) != 1 or not isinstance(i2.orelse[0], ast.Raise) or "ValueError" not in ast.unparse(i2.orelse[0]):
                    return "else branch does not raise ValueError"
                return None
        return "no loop over self._post_processors"

    def file_pp_loop_ok(fn, var, after_types):
        """top-level (or inside `if not is_dryrun`) `for file_pp in file_pps: var = file_pp(var)` after a statement of after_types"""
        bodies = [fn.body] + [n.body for n in fn.body if isinstance(n, ast.If)]
        for body in bodies:
            for i, st in enumerate(body):
                if isinstance(st, ast.For) and ast.unparse(st.iter) == "file_pps":
                    if [ast.unparse(x) for x in st.body] != [f"{var} = {st.target.id}({var})"] or st.orelse:
                        return f"body of the file post-processor loop is {[ast.unparse(x) for x in st.body]}"
                    if not any(isinstance(b, after_types) for b in body[:i]):
                        return "the file post-processor loop does not follow the writing of the file"
                    if any(isinstance(n, ast.For) and ast.unparse(n.iter) == "file_pps" for b in body[i + 1:] for n in ast.walk(b)):
                        return "a second loop over file_pps"
                    return None
        return "no loop over file_pps"

    gc = _find_method(repo_src, "nunavut/jinja/__init__.py", "CodeGenerator", "_generate_code")
    ga = _find_method(repo_src, "nunavut/jinja/__init__.py", "SupportGenerator", "generate_all")
    ch = _find_method(repo_src, "nunavut/jinja/__init__.py", "SupportGenerator", "_copy_header")
    for label, fn, chk in (("CodeGenerator._generate_code: classification", gc, lambda f: classification_ok(f, True)),
                           ("CodeGenerator._generate_code: file post-processor loop", gc, lambda f: file_pp_loop_ok(f, "output_path", (ast.With,))),
                           ("SupportGenerator.generate_all: classification", ga, lambda f: classification_ok(f, False)),
                           ("SupportGenerator._copy_header: file post-processor loop", ch, lambda f: file_pp_loop_ok(f, "target", (ast.If,)))):
        if fn is None:
            problems.append({"where": label, "what": "function not found"})
        else:
            r = chk(fn)
            if r:
                problems.append({"where": label, "what": r})
    if gc is not None:
        calls = [n for n in ast.walk(gc) if isinstance(n, ast.Call)]
        ow = [c.lineno for c in calls if ast.unparse(c.func) == "self._handle_overwrite"]
        withs = [n.lineno for n in gc.body if isinstance(n, ast.With)]
        if len(ow) != 1 or not withs or not ow[0] < withs[0]:
            problems.append({"where": "CodeGenerator._generate_code", "what": "_handle_overwrite is not called exactly once before the file is opened"})
    facts["generator_pp_loop_problems"] = problems
    facts["generator_runs_file_pps_once_in_order"] = not problems
    return facts



# =====================================================================================================================
# undeclared ambient inputs of the glue code (command line, runners, language configuration, generators, post-processors)
# =====================================================================================================================
# environment variables the command line documents as inputs (`--lookup-dir` help text)
DECLARED_ENV_VARS = {"DSDL_INCLUDE_PATH", "CYPHAL_PATH"}


def ambient_probes(repo_src):
    """Places of the package (bundled third-party code excluded) that look at something which is neither named on the command
    line nor part of the package: a file-system path spelled as a relative string constant, the working / home directory,
    environment variables other than the documented ones, temporary-file names.  [{where, what}]"""
    out = []
    for f in sorted((repo_src / "nunavut").rglob("*.py")):
        rel = f.relative_to(repo_src)
        if "jinja2" in rel.parts or "markupsafe" in rel.parts:
            continue
        tree = ast.parse(f.read_text(encoding="utf-8"))
        parents = {}
        for node in ast.walk(tree):
            for ch in ast.iter_child_nodes(node):
                parents[id(ch)] = node
        funcs = {}
        for node in ast.walk(tree):
            if isinstance(node, (ast.FunctionDef, ast.AsyncFunctionDef)):
                for sub in ast.walk(node):
                    funcs.setdefault(id(sub), node.name)
        for node in ast.walk(tree):
            where = f"{rel.as_posix()}:{getattr(node, 'lineno', 0)}"
            if isinstance(node, ast.Call):
                dn = Scanner._dotted(node.func) or ""
                last = dn.rsplit(".", 1)[-1]
                a0 = node.args[0] if node.args else None
                const = a0.value if isinstance(a0, ast.Constant) and isinstance(a0.value, str) else None
                if last in ("Path", "PurePath", "PosixPath") or dn in ("open", "io.open", "os.open", "os.stat", "os.listdir", "os.scandir", "os.walk",
                                                                         "os.path.exists", "os.path.isfile", "os.path.isdir", "os.path.lexists"):
                    if const not in (None, "", "."):
                        par = parents.get(id(node))
                        joined = isinstance(par, ast.BinOp) and isinstance(par.op, ast.Div) and par.right is node
                        if not joined and not const.startswith("/"):
                            out.append({"where": where, "what": f"{dn}({const!r}): a path relative to the working directory"})
                        elif const.startswith("/") or const.startswith("~"):
                            out.append({"where": where, "what": f"{dn}({const!r}): a fixed location outside the inputs"})
                if dn in ("os.getcwd", "os.getcwdb", "Path.cwd", "pathlib.Path.cwd", "Path.home", "pathlib.Path.home", "os.path.expanduser",
                          "os.path.expandvars", "os.getenv", "os.environ.get", "os.putenv", "getpass.getuser", "os.getlogin", "socket.gethostname") \
                        or last in ("expanduser", "expandvars"):
                    if not (dn in ("os.getenv", "os.environ.get") and const in DECLARED_ENV_VARS):
                        out.append({"where": where, "what": f"calls {dn or last}" + (f"({const!r})" if const else "")})
                if dn.startswith("tempfile.") or last in ("mkstemp", "mkdtemp", "NamedTemporaryFile", "TemporaryDirectory", "mktemp", "gettempdir"):
                    out.append({"where": where, "what": f"calls {dn or last}: a name chosen at random / a directory outside the inputs"})
                if dn.startswith("uuid.") or dn.startswith("random.") or dn.startswith("secrets.") or dn == "os.urandom":
                    out.append({"where": where, "what": f"calls {dn}"})
                if last == "_extra_includes_from_env":
                    if const not in DECLARED_ENV_VARS:
                        out.append({"where": where, "what": f"reads the environment variable {ast.unparse(a0) if a0 is not None else '?'} (not a documented input)"})
            # state that outlives the process: compiled-template / result caches on disk
            nm = node.id if isinstance(node, ast.Name) else node.attr if isinstance(node, ast.Attribute) else \
                node.arg if isinstance(node, ast.keyword) else None
            if nm is not None and (nm.endswith("BytecodeCache") or nm in ("bytecode_cache", "shelve", "dbm", "sqlite3", "diskcache", "joblib",
                                                                         "user_cache_dir", "site_cache_dir")):
                out.append({"where": where, "what": f"{nm}: a cache that outlives the process (outside the inputs and the output directory)"})
            if isinstance(node, (ast.Import, ast.ImportFrom)):
                for al in node.names:
                    if al.name.split(".")[0] in ("shelve", "dbm", "sqlite3", "diskcache", "joblib", "platformdirs", "appdirs"):
                        out.append({"where": where, "what": f"imports {al.name}: persistent state outside the inputs"})
            if isinstance(node, ast.Attribute) and (Scanner._dotted(node) or "") == "os.environ":
                par = parents.get(id(node))
                key = None
                if isinstance(par, ast.Subscript) and isinstance(par.slice, ast.Constant):
                    key = par.slice.value
                if isinstance(par, ast.Attribute) and par.attr == "get":
                    continue      # reported as the call os.environ.get above
                if key in DECLARED_ENV_VARS:
                    continue
                if funcs.get(id(node)) == "_extra_includes_from_env" and isinstance(par, ast.Subscript) and isinstance(par.slice, ast.Name):
                    continue      # the documented lookup: its callers are checked above
                out.append({"where": where, "what": "reads os.environ" + (f"[{key!r}]" if key else "")})
    return out



def memoised_functions(repo_src):
    """Every function of the package behind functools.lru_cache / functools.cache: its parameters with their annotations, and
    whether a parameter is compared by something coarser than what the function may look at: a PyDSDL model object (composite
    types compare and hash equal by name, version and bit length set — not by their attributes) or a container."""
    out = []
    for f in sorted((repo_src / "nunavut").rglob("*.py")):
        rel = f.relative_to(repo_src)
        if "jinja2" in rel.parts or "markupsafe" in rel.parts:
            continue
        tree = ast.parse(f.read_text(encoding="utf-8"))
        owner = {}
        for cl in ast.walk(tree):
            if isinstance(cl, ast.ClassDef):
                for sub in cl.body:
                    owner[id(sub)] = cl.name
        for node in ast.walk(tree):
            if not isinstance(node, (ast.FunctionDef, ast.AsyncFunctionDef)):
                continue
            deco = [Scanner._dotted(d.func if isinstance(d, ast.Call) else d) or "" for d in node.decorator_list]
            if not any(d.endswith("lru_cache") or d.endswith("functools.cache") or d == "cache" for d in deco):
                continue
            params = []
            for a in node.args.posonlyargs + node.args.args + node.args.kwonlyargs:
                params.append((a.arg, ast.unparse(a.annotation) if a.annotation is not None else ""))
            coarse = [f"{n}: {t}" for n, t in params if "pydsdl" in t or any(x in t for x in ("List", "Dict", "Set[", "Iterable", "Sequence", "Mapping", "Any"))
                      and n not in ("self", "cls")]
            out.append({"function": f"{rel.as_posix()}:{(owner.get(id(node)) + '.') if id(node) in owner else ''}{node.name}",
                        "params": [f"{n}: {t}" if t else n for n, t in params], "coarse_key_params": coarse})
    return out


# process-wide containers that are known and modelled / harmless (id = module:Class.attr or module:NAME)
SHARED_CONTAINER_WHITELIST = {
    # the process-wide unique-name generator: modelled as an explicit state machine (Model/ProcState.lean), reset per file
    "nunavut.lang._common:UniqueNameGenerator._singleton",
}


CANDIDATES = []      # module-level / class-level names bound to a value that could hold state (filled by shared_containers)


def shared_containers(repo_src):
    """Class attributes / module globals bound to a mutable container (dict/list/set literal or constructor) that some function
    of the package mutates (item / attribute assignment, mutating method, `global` rebinding)."""
    # constructors / factories whose result has no state that a later call could observe (anything else bound at module or class
    # level — dict(), io.StringIO(), itertools.count(), a user class … — is a candidate for process-wide state)
    immutable = {"compile", "frozenset", "tuple", "str", "int", "float", "bool", "bytes", "complex", "getLogger", "TypeVar", "NewType",
                 "namedtuple", "NamedTuple", "Path", "PurePath", "PurePosixPath", "PosixPath", "Enum", "IntEnum", "auto", "property",
                 "staticmethod", "classmethod", "field", "object", "type", "cast", "partial", "lru_cache", "getattr", "import_module",
                 "Version", "parse", "Literal", "Union", "Optional", "Callable", "ParamSpec", "Generic", "Struct", "dedent", "format",
                 "join", "len", "range", "min", "max", "sorted", "abs", "round", "hash", "id", "repr", "ord", "chr", "version",
                 "MappingProxyType", "__import__", "files"}

    def is_container(v):
        if isinstance(v, (ast.Dict, ast.List, ast.Set, ast.DictComp, ast.ListComp, ast.SetComp)):
            return True
        if isinstance(v, ast.Call):
            dn = (Scanner._dotted(v.func) or "").rsplit(".", 1)[-1]
            return dn not in immutable
        return False

    out = []
    del CANDIDATES[:]
    for f in sorted((repo_src / "nunavut").rglob("*.py")):
        rel = f.relative_to(repo_src)
        if "jinja2" in rel.parts or "markupsafe" in rel.parts:
            continue
        tree = ast.parse(f.read_text(encoding="utf-8"))
        mod = ".".join(rel.with_suffix("").parts)
        mod_names = set()
        for st in tree.body:
            tgs = st.targets if isinstance(st, ast.Assign) else [st.target] if isinstance(st, ast.AnnAssign) and st.value is not None else []
            if tgs and is_container(st.value):
                mod_names |= {t.id for t in tgs if isinstance(t, ast.Name)}
        class_attrs = {}
        for cl in [n for n in ast.walk(tree) if isinstance(n, ast.ClassDef)]:
            for st in cl.body:
                tgs = st.targets if isinstance(st, ast.Assign) else [st.target] if isinstance(st, ast.AnnAssign) and st.value is not None else []
                if tgs and is_container(st.value):
                    for t in tgs:
                        if isinstance(t, ast.Name):
                            class_attrs.setdefault(cl.name, set()).add(t.id)
        all_class_attr = {a for v in class_attrs.values() for a in v}
        class_names = {n.name for n in ast.walk(tree) if isinstance(n, ast.ClassDef)}
        owner_class = {}
        for cl in [n for n in ast.walk(tree) if isinstance(n, ast.ClassDef)]:
            for sub in ast.walk(cl):
                if isinstance(sub, (ast.FunctionDef, ast.AsyncFunctionDef)):
                    owner_class.setdefault(id(sub), cl.name)
        CANDIDATES.extend(sorted([f"{mod}:{n}" for n in mod_names] + [f"{mod}:{c}.{a}" for c, v in class_attrs.items() for a in v]))

        def owner(expr):
            """id of the shared container an expression denotes, or None."""
            dn = Scanner._dotted(expr) or ""
            parts = dn.split(".")
            if len(parts) == 1 and parts[0] in mod_names:
                return f"{mod}:{parts[0]}"
            if len(parts) == 2 and parts[1] in all_class_attr and (parts[0] in ("cls", "self") or parts[0] in class_attrs):
                cn = [c for c, v in class_attrs.items() if parts[1] in v][0]
                return f"{mod}:{cn}.{parts[1]}"
            return None

        for cl_or_fn in ast.walk(tree):
            if not isinstance(cl_or_fn, (ast.FunctionDef, ast.AsyncFunctionDef)):
                continue
            # an instance attribute of the same name assigned in this function shadows the class attribute
            rebinds = {Scanner._dotted(t) for n in ast.walk(cl_or_fn) if isinstance(n, ast.Assign) for t in n.targets if isinstance(t, ast.Attribute)}
            aliases = {}
            for n in ast.walk(cl_or_fn):
                if isinstance(n, ast.Assign) and len(n.targets) == 1 and isinstance(n.targets[0], ast.Name) and owner(n.value):
                    aliases[n.targets[0].id] = owner(n.value)

            def own(expr):
                if isinstance(expr, ast.Name) and expr.id in aliases:
                    return aliases[expr.id]
                o = owner(expr)
                if o and (Scanner._dotted(expr) or "").startswith("self.") and Scanner._dotted(expr) in rebinds:
                    return None
                return o
            for n in ast.walk(cl_or_fn):
                tg = n.targets if isinstance(n, ast.Assign) else [n.target] if isinstance(n, (ast.AugAssign, ast.AnnAssign)) else []
                for t in tg:
                    if isinstance(t, ast.Subscript) and own(t.value):
                        out.append({"id": own(t.value), "where": f"{mod}.{cl_or_fn.name}:{n.lineno}", "how": "item assignment"})
                if isinstance(n, ast.Call) and isinstance(n.func, ast.Attribute) and n.func.attr in (MUTATORS | IO_MUTATORS) and own(n.func.value):
                    out.append({"id": own(n.func.value), "where": f"{mod}.{cl_or_fn.name}:{n.lineno}", "how": f".{n.func.attr}()"})
                if isinstance(n, ast.Call) and isinstance(n.func, ast.Name) and n.func.id == "next" and n.args and own(n.args[0]):
                    out.append({"id": own(n.args[0]), "where": f"{mod}.{cl_or_fn.name}:{n.lineno}", "how": "next()"})
                if isinstance(n, ast.AugAssign) and own(n.target):
                    out.append({"id": own(n.target), "where": f"{mod}.{cl_or_fn.name}:{n.lineno}", "how": "augmented assignment"})
                # a class attribute rebound at run time (`cls.x = …`, `ClassName.x = …`) is process-wide state as well
                for t in tg:
                    if isinstance(t, ast.Attribute) and isinstance(t.value, ast.Name) and \
                            (t.value.id == "cls" or t.value.id in class_names):
                        cn = t.value.id if t.value.id in class_names else owner_class.get(id(cl_or_fn), "?")
                        out.append({"id": f"{mod}:{cn}.{t.attr}", "where": f"{mod}.{cl_or_fn.name}:{n.lineno}", "how": "class attribute rebound"})
                if isinstance(n, ast.Global):
                    for nm in n.names:
                        out.append({"id": f"{mod}:{nm}", "where": f"{mod}.{cl_or_fn.name}:{n.lineno}", "how": "global statement"})
    return out


def line_pp_reset_per_file(repo_src):
    """True iff _generate_code and _copy_header_using_line_pps put the line post-processors into their initial state
    before the first line of a file (i.e. the code after the proposed fix)."""
    src = (repo_src / "nunavut/jinja/__init__.py").read_text(encoding="utf-8")
    tree = ast.parse(src)
    found = {"_generate_code": False, "_copy_header_using_line_pps": False}
    for node in ast.walk(tree):
        if isinstance(node, ast.FunctionDef) and node.name in found:
            for sub in ast.walk(node):
                if isinstance(sub, ast.Call) and isinstance(sub.func, ast.Attribute) and sub.func.attr == "reset" and \
                        not (Scanner._dotted(sub.func) or "").startswith("UniqueNameGenerator"):
                    found[node.name] = True
    pp = ast.parse((repo_src / "nunavut/_postprocessors.py").read_text(encoding="utf-8"))
    has_reset = False
    for node in ast.walk(pp):
        if isinstance(node, ast.ClassDef) and node.name == "LimitEmptyLines":
            for sub in node.body:
                if isinstance(sub, ast.FunctionDef) and sub.name == "reset":
                    has_reset = True
    return bool(all(found.values()) and has_reset)


# =====================================================================================================================
# template → Tpl
# =====================================================================================================================
class LangConv:
    def __init__(self, lang, repo_src, scanner, facts, nodes):
        self.lang, self.repo_src, self.sc, self.facts, self.n = lang, repo_src, scanner, facts, nodes
        self.bodies = []          # (name, tpl)
        self.body_index = {}
        self.leaves = []          # dict(id, file, line, expr, reads, removes, notes)
        self.asts = {}            # (envkind, name) -> ast
        self.callable_cache = {}
        self.taint = {}           # (file, macro|None, var) -> set
        self.macro_sites = {}     # macro body name -> list of arg class sets
        self.changed = True
        self.roots = []           # (file kind, body name, first text)

    # ---- environment ---------------------------------------------------------------------------------------------
    def build_envs(self):
        import nunavut
        from nunavut.jinja import DSDLCodeGenerator, SupportGenerator
        from nunavut.lang import LanguageContextBuilder
        tmp = pathlib.Path(tempfile.mkdtemp(prefix="tplflows_"))
        (tmp / "ns").mkdir()
        lctx = LanguageContextBuilder(include_experimental_languages=True).set_target_language(self.lang).create()
        ns = nunavut.build_namespace_tree([], str(tmp / "ns"), str(tmp / "out"), lctx)
        self.gen = DSDLCodeGenerator(ns)
        self.sup = SupportGenerator(ns)
        self.envs = {"type": self.gen._env, "support": self.sup._env}
        self.lang_obj = lctx.get_target_language()
        import shutil
        shutil.rmtree(tmp, ignore_errors=True)

    def load(self, kind, name):
        key = (kind, name)
        if key not in self.asts:
            env = self.envs[kind]
            try:
                src = env.loader.get_source(env, name)[0]
            except Exception as e:
                raise TieBroken(f"{self.lang}/{kind}: template {name!r} cannot be loaded: {e}")
            self.asts[key] = (env.parse(src), src)
        return self.asts[key]

    # ---- classification of callables -----------------------------------------------------------------------------
    def classify_callable(self, kind, table, name, env_map, what):
        """(added, removed, notes) for filter/test `name`."""
        ck = (kind, what, name)
        if ck in self.callable_cache:
            return self.callable_cache[ck]
        if name not in env_map:
            raise TieBroken(f"{self.lang}: {what} {name!r} is not registered in the environment")
        fn = env_map[name]
        scanned, notes, where = self.sc.scan_callable(fn)
        short = name.rsplit(".", 1)[-1]
        added, removed = set(), set()
        if scanned is None:
            # not nunavut code (Jinja / builtins): must be in the hand table
            if what == "filter":
                if short not in JINJA_FILTERS:
                    raise TieBroken(f"{self.lang}: filter {name!r} ({where}) is neither nunavut code nor in the Jinja filter table")
                added, removed = JINJA_FILTERS[short]
            else:
                if short not in TESTS_JINJA:
                    raise TieBroken(f"{self.lang}: test {name!r} ({where}) is neither nunavut code nor in the Jinja test table")
        else:
            added |= scanned
            if what == "filter" and short in NUNAVUT_FILTERS:
                a, r = NUNAVUT_FILTERS[short]
                added |= a; removed |= r
        res = (set(added), set(removed), notes, where)
        self.callable_cache[ck] = res
        return res

    # ---- sweep: EVERY callable / value registered in the environments, used by a built-in template or not -----------------
    def sweep_registered(self):
        """rows: dict(what, name, reads, removes, effective, where) for every filter, test and global of both environments of the
        language; unclassified: names that neither the hand tables nor the body scan can classify."""
        import datetime as _dt
        rows, unclassified = {}, []

        def put(what, name, added, removed, where):
            added, removed = set(added), set(removed)
            if PS_UNIQ in added and self.facts["resets_unique_names_per_file"]:
                removed |= {PS_UNIQ}
            removed |= (added & {PS_MEMO, PS_TPLCACHE})      # memoisation / template lookup cache: transparent (T5)
            short = name.rsplit(".", 1)[-1]
            if short in ("natural_sort_namespace", "natural_sort_type") and not self.facts["natural_sort_total"]:
                added |= {HASHORDER}; removed -= {HASHORDER}
            key = (what, name)
            row = {"what": what, "name": name, "reads": sorted(added), "removes": sorted(removed & added), "effective": sorted(added - removed), "where": where}
            if key in rows and (rows[key]["reads"], rows[key]["removes"]) != (row["reads"], row["removes"]):
                # registered differently in the two environments: keep the union
                row["reads"] = sorted(set(row["reads"]) | set(rows[key]["reads"]))
                row["removes"] = sorted(set(row["removes"]) & set(rows[key]["removes"]))
                row["effective"] = sorted(set(row["reads"]) - set(row["removes"]))
            rows[key] = row

        for kind, env in self.envs.items():
            for what, table in (("filter", env.filters), ("test", env.tests)):
                for name in sorted(table):
                    try:
                        added, removed, notes, where = self.classify_callable(kind, what + "s", name, table, what)
                    except TieBroken as e:
                        unclassified.append({"lang": self.lang, "env": kind, "what": what, "name": name, "why": str(e)[:200]})
                        continue
                    put(what, name, added, removed, where)
            for name, value in sorted(env.globals.items()):
                hand = GLOBALS.get(name, set() if name.startswith(GLOBAL_PREFIXES) and isinstance(value, str) else None)
                scanned, where = None, type(value).__name__
                mod = getattr(value, "__module__", "") or ""
                if callable(value) and mod.startswith("nunavut") and "jinja2" not in mod and not isinstance(value, type):
                    scanned, _notes, where = self.sc.scan_callable(value)
                elif isinstance(value, (_dt.datetime, _dt.date, _dt.time)):
                    scanned = {TIME}
                elif isinstance(value, (str, int, float, bool, type(None), tuple, frozenset)):
                    scanned = set()
                if hand is None and scanned is None:
                    unclassified.append({"lang": self.lang, "env": kind, "what": "global", "name": name,
                                         "why": f"a {type(value).__module__}.{type(value).__name__} that is neither in the table of globals nor scannable nunavut code"})
                    continue
                put("global", name, (hand or set()) | (scanned or set()), set(), where)
        return [rows[k] for k in sorted(rows)], unclassified

    # ---- expression classes ----------------------------------------------------------------------------------------
    def is_audit(self, node):
        n = self.n
        return isinstance(node, n.Getattr) and node.attr == "embed_auditing_info" and isinstance(node.node, n.Name) and node.node.name == "nunavut"

    def mentions_audit(self, node):
        return any(self.is_audit(x) for x in [node] + list(node.find_all(self.n.Getattr)))

    def lookup_var(self, scope, name):
        file, macro = scope
        for key in ((file, macro, name), (file, None, name)):
            if key in self.taint:
                return self.taint[key]
        # an included template sees the variables of the template that includes it: union over all files
        hits = [v for (f, m, nm), v in self.taint.items() if nm == name]
        if hits:
            return set().union(*hits)
        return None

    @staticmethod
    def via(log, classes, label):
        for c in classes:
            log.setdefault("via", {}).setdefault(c, set()).add(label)

    def cls(self, node, scope, kind, log):
        """Effective classes of an expression; `log` collects (removed classes, notes, provenance labels)."""
        n = self.n
        u = lambda *xs: set().union(*xs) if xs else set()
        if node is None:
            return set()
        if isinstance(node, n.Const) or isinstance(node, n.TemplateData):
            return set()
        if isinstance(node, n.Name):
            if node.ctx != "load":
                return set()
            t = self.lookup_var(scope, node.name)
            if t is not None:
                self.via(log, t, f"var:{node.name}")
                return set(t)
            if node.name in self.macros_visible.get(scope[0], {}):
                return set()
            if node.name in GLOBALS:
                self.via(log, GLOBALS[node.name], f"global:{node.name}")
                return set(GLOBALS[node.name])
            if node.name.startswith(GLOBAL_PREFIXES):
                return set()
            raise TieBroken(f"{self.lang}:{scope[0]}:{node.lineno}: free name {node.name!r} is not classified")
        if isinstance(node, n.Getattr) or isinstance(node, n.Getitem):
            base = self.cls(node.node, scope, kind, log)
            if isinstance(node, n.Getitem):
                attr = node.arg.value if isinstance(node.arg, n.Const) and isinstance(node.arg.value, str) else None
                base |= self.cls(node.arg, scope, kind, log)
            else:
                attr = node.attr
            if attr is None:
                return base
            if isinstance(node.node, n.Name) and node.node.name == "nunavut" and self.lookup_var(scope, "nunavut") is None:
                if attr not in NUNAVUT_ATTRS:
                    raise TieBroken(f"{self.lang}:{scope[0]}:{node.lineno}: attribute nunavut.{attr} is not classified")
                c = set(NUNAVUT_ATTRS[attr])
                if attr == "template_sets":
                    sc_, notes_ = self.sc.scan_name("get_template_sets")
                    c |= (sc_ - {PS_MEMO})
                if attr == "platform_version" and self.facts["platform_version_audit_off_only"]:
                    log["removed"] |= {PLATFORM}
                    log["notes"].append("platform_version holds only python_version when auditing is off (counted as tool version)")
                    c -= {PLATFORM}
                self.via(log, c, f"global:nunavut.{attr}")
                return base | c
            if attr in ATTRS:
                add, rem = ATTRS[attr]
                if rem & base:
                    log["removed"] |= (rem & base)
                self.via(log, add, f"attr:{attr}")
                return (base - rem) | add
            return base
        if isinstance(node, n.Call):
            args = u(*[self.cls(a, scope, kind, log) for a in node.args],
                     *[self.cls(k.value, scope, kind, log) for k in node.kwargs],
                     self.cls(node.dyn_args, scope, kind, log), self.cls(node.dyn_kwargs, scope, kind, log))
            if isinstance(node.node, n.Name) and node.node.name == "super":
                raise TieBroken(f"{self.lang}:{scope[0]}:{node.lineno}: super() is not expressible")
            return self.cls(node.node, scope, kind, log) | args
        if isinstance(node, n.ExtensionAttribute):
            if node.name not in EXT_METHODS:
                raise TieBroken(f"{self.lang}:{scope[0]}: extension method {node.identifier}.{node.name} is not classified")
            ext = self.envs[kind].extensions.get(node.identifier)
            c = set(EXT_METHODS[node.name])
            if ext is not None and hasattr(ext, node.name):
                sc, notes, _ = self.sc.scan_callable(getattr(ext, node.name))
                c |= (sc or set())
            return c
        if isinstance(node, n.Filter):
            base = self.cls(node.node, scope, kind, log) if node.node is not None else set()
            args = u(*[self.cls(a, scope, kind, log) for a in node.args], *[self.cls(k.value, scope, kind, log) for k in node.kwargs],
                     self.cls(node.dyn_args, scope, kind, log), self.cls(node.dyn_kwargs, scope, kind, log))
            added, removed, notes, where = self.classify_callable(kind, "filters", node.name, self.envs[kind].filters, "filter")
            added, removed = set(added), set(removed)
            short = node.name.rsplit(".", 1)[-1]
            if short == "includes":
                sort_off = any((k.key == "sort" and not (isinstance(k.value, n.Const) and k.value.value is True)) for k in node.kwargs) or bool(node.args)
                if self.facts["include_generator_sorts"] and not sort_off:
                    removed |= {HASHORDER}
            if short in ("natural_sort_namespace", "natural_sort_type") and not self.facts["natural_sort_total"]:
                removed -= {HASHORDER}      # ties keep the iteration order of the input
            if short == "map" and node.args and isinstance(node.args[0], n.Const) and isinstance(node.args[0].value, str):
                # map("filtername") / map(attribute=...) applies another filter by name
                fname = node.args[0].value
                if fname in self.envs[kind].filters:
                    a2, r2, _, _ = self.classify_callable(kind, "filters", fname, self.envs[kind].filters, "filter")
                    added |= a2
                else:
                    raise TieBroken(f"{self.lang}:{scope[0]}:{node.lineno}: map({fname!r}) names an unknown filter")
            if PS_UNIQ in added:
                # a stateful filter that Jinja may constant-fold: not marked volatile (contextfilter) and all arguments constant.
                # It is then evaluated when the template is COMPILED.  Tolerable only if templates are compiled lazily (at generation
                # time, after the per-file reset) and the leaf is not in a root template (those are compiled before the reset).
                fobj = self.envs[kind].filters[node.name]
                seenf = 0
                volatile = False
                while fobj is not None and seenf < 8:
                    seenf += 1
                    if getattr(fobj, "contextfilter", False) or getattr(fobj, "evalcontextfilter", False):
                        volatile = True
                    fobj = getattr(fobj, "func", None) or getattr(fobj, "__wrapped__", None)
                const_args = isinstance(node.node, n.Const) and all(isinstance(a, n.Const) for a in node.args) and \
                    all(isinstance(k.value, n.Const) for k in node.kwargs) and node.dyn_args is None and node.dyn_kwargs is None
                if const_args and not volatile:
                    added |= {PS_FOLD}
                    root_files = {r for r in self.root_template_names}
                    if self.facts["templates_compiled_lazily"] and scope[0] not in root_files:
                        removed |= {PS_FOLD}
                    notes = list(notes) + [f"{node.name}: constant-foldable (not volatile) yet stateful"]
            if PS_UNIQ in added and self.facts["resets_unique_names_per_file"]:
                removed |= {PS_UNIQ}
            if PS_MEMO in added:
                removed |= {PS_MEMO}      # memoisation transparency (Lemmas/Tpl memo_transparent; purity assumed, tied in the harness)
            if PS_TPLCACHE in added:
                removed |= {PS_TPLCACHE}
            eff_added = added - removed
            self.via(log, eff_added, f"filter:{short}")
            got_removed = (removed & (base | added))
            if got_removed:
                log["removed"] |= got_removed
            if notes and (added - {PS_MEMO}):
                log["notes"] += [x for x in notes if "memoised" not in x][:4]
            return ((base - removed) | eff_added | args)
        if isinstance(node, n.Test):
            base = self.cls(node.node, scope, kind, log)
            args = u(*[self.cls(a, scope, kind, log) for a in node.args], *[self.cls(k.value, scope, kind, log) for k in node.kwargs])
            added, removed, notes, where = self.classify_callable(kind, "tests", node.name, self.envs[kind].tests, "test")
            added = set(added) - {PS_MEMO}
            self.via(log, added, f"test:{node.name}")
            return base | args | added
        if isinstance(node, n.CondExpr):
            if self.is_audit(node.test):
                log["notes"].append("conditional expression guarded by nunavut.embed_auditing_info: else-branch only")
                return self.cls(node.expr2, scope, kind, log) if node.expr2 is not None else set()
            if isinstance(node.test, n.Not) and self.is_audit(node.test.node):
                return self.cls(node.expr1, scope, kind, log)
            return u(self.cls(node.test, scope, kind, log), self.cls(node.expr1, scope, kind, log), self.cls(node.expr2, scope, kind, log))
        # generic: union over children expressions
        if isinstance(node, n.Expr) or isinstance(node, n.Helper):
            out = set()
            for child in node.iter_child_nodes():
                out |= self.cls(child, scope, kind, log)
            return out
        raise TieBroken(f"{self.lang}:{scope[0]}: expression node {type(node).__name__} is not expressible")

    def leaf(self, node, scope, kind, role, extra=()):
        log = {"removed": set(), "notes": [], "via": {}}
        eff = self.cls(node, scope, kind, log)
        for e in extra:
            eff |= self.cls(e, scope, kind, log)
        lid = len(self.leaves)
        self.leaves.append({"id": lid, "lang": self.lang, "kind": kind, "file": scope[0], "macro": scope[1],
                            "line": getattr(node, "lineno", 0), "role": role,
                            "reads": sorted(eff | log["removed"]), "removes": sorted(log["removed"] - eff),
                            "effective": sorted(eff), "notes": log["notes"][:6],
                            "via": {c: sorted(log["via"].get(c, ())) for c in sorted(eff)}})
        return ("leaf", lid)

    # ---- statements --------------------------------------------------------------------------------------------------
    def seq(self, items):
        items = [x for x in items if x != ("nil",)]
        if not items:
            return ("nil",)
        out = items[-1]
        for x in reversed(items[:-1]):
            out = ("seq", x, out)
        return out

    def macro_calls(self, node, scope):
        """Call nodes inside `node` whose callee is a macro visible in this file → [(body name, Call node)]."""
        n = self.n
        out = []
        vis = self.macros_visible.get(scope[0], {})
        mods = self.modules_visible.get(scope[0], {})
        nodes = [node] + list(node.find_all(n.Call)) if not isinstance(node, n.Call) else list({id(x): x for x in [node] + list(node.find_all(n.Call))}.values())
        for c in nodes:
            if not isinstance(c, n.Call):
                continue
            if isinstance(c.node, n.Name) and c.node.name in vis and self.lookup_var(scope, c.node.name) is None:
                out.append((vis[c.node.name], c))
            elif isinstance(c.node, n.Getattr) and isinstance(c.node.node, n.Name) and c.node.node.name in mods:
                target = f"macro:{mods[c.node.node.name]}:{c.node.attr}"
                out.append((target, c))
        return out

    def call_tpl(self, target, call_node, scope, kind):
        """`loop <args leaf> (call m)`: the argument tuple is bound like a one-element iteration."""
        n = self.n
        args = list(call_node.args) + [k.value for k in call_node.kwargs]
        self.pending_calls.append((target, scope, kind, call_node))
        if args:
            tup = n.Tuple(args, "load", lineno=call_node.lineno)
            return ("loop", self.leaf(tup, scope, kind, "macro-args"), ("call", target))
        return ("call", target)

    def expr_tpl(self, node, scope, kind, role):
        """An evaluated expression: out / filterBlock over the macros it calls."""
        n = self.n
        if isinstance(node, n.CondExpr) and role == "out":
            if self.is_audit(node.test):
                return ("ite", ("audit",), self.expr_tpl(node.expr1, scope, kind, role),
                        self.expr_tpl(node.expr2, scope, kind, role) if node.expr2 is not None else ("nil",))
            if isinstance(node.test, n.Not) and self.is_audit(node.test.node):
                return ("ite", ("notAudit",), self.expr_tpl(node.expr1, scope, kind, role),
                        self.expr_tpl(node.expr2, scope, kind, role) if node.expr2 is not None else ("nil",))
        calls = self.macro_calls(node, scope)
        lf = self.leaf(node, scope, kind, role)
        if calls:
            return ("filterBlock", lf, self.seq([self.call_tpl(t, c, scope, kind) for t, c in calls]))
        if role == "out":
            return ("out", lf)
        return ("ite", ("cond", lf), ("nil",), ("nil",))       # evaluated, emits nothing

    def cond(self, test, scope, kind):
        """-> (cond, prefix tpl) ; recognises the auditing guard."""
        n = self.n
        if self.is_audit(test):
            return ("audit",), ("nil",)
        if isinstance(test, n.Not) and self.is_audit(test.node):
            return ("notAudit",), ("nil",)
        if self.mentions_audit(test):
            return None, None
        calls = self.macro_calls(test, scope)
        pre = ("nil",)
        if calls:
            pre = self.expr_tpl(test, scope, kind, "cond-macros")
        return ("cond", self.leaf(test, scope, kind, "cond")), pre

    def stmts(self, nodes_, scope, kind):
        return self.seq([self.stmt(x, scope, kind) for x in nodes_])

    def stmt(self, node, scope, kind):
        n = self.n
        file, macro = scope
        if isinstance(node, n.Output):
            items = []
            for c in node.nodes:
                if isinstance(c, n.TemplateData):
                    items.append(("text", c.data))
                else:
                    items.append(self.expr_tpl(c, scope, kind, "out"))
            return self.seq(items)
        if isinstance(node, n.If):
            else_t = self.stmts(node.else_, scope, kind)
            for el in reversed(node.elif_):
                else_t = self.if_one(el.test, self.stmts(el.body, scope, kind), else_t, scope, kind, el)
            return self.if_one(node.test, self.stmts(node.body, scope, kind), else_t, scope, kind, node)
        if isinstance(node, n.For):
            if node.recursive:
                raise TieBroken(f"{self.lang}:{file}:{node.lineno}: recursive for-loop is not expressible")
            extra = [node.test] if node.test is not None else []
            # the loop test may use the loop variable: give it the iterable's classes first
            lf = self.leaf(node.iter, scope, kind, "iter", extra=[])
            body = self.stmts(node.body, scope, kind)
            if extra:
                body = ("ite", ("cond", self.leaf(node.test, scope, kind, "loop-filter")), body, ("nil",))
            out = ("loop", lf, body)
            pre = self.macro_calls(node.iter, scope)
            if pre:
                out = self.seq([self.expr_tpl(node.iter, scope, kind, "iter-macros"), out])
            if node.else_:
                out = self.seq([out, ("ite", ("cond", self.leaf(node.iter, scope, kind, "iter-empty")), ("nil",), self.stmts(node.else_, scope, kind))])
            return out
        if isinstance(node, n.Assign):
            t = self.expr_tpl(node.node, scope, kind, "assign")
            if macro is None and (kind, file) in self.import_only and any(
                    isinstance(x, n.Name) and x.name in ("nunavut", "now_utc") and self.lookup_var(scope, x.name) is None for x in node.node.find_all(n.Name)):
                # a template-level variable of a template that is only ever imported: Jinja caches the module per environment, the
                # value is whatever the generator state was at the FIRST import
                lid = len(self.leaves)
                self.leaves.append({"id": lid, "lang": self.lang, "kind": kind, "file": file, "macro": None, "line": node.lineno, "role": "module-level-set",
                                    "reads": [PS_SHARED], "removes": [], "effective": [PS_SHARED],
                                    "notes": ["template-level set of generator state in an import-only template (cached module)"],
                                    "via": {PS_SHARED: ["set:" + ",".join(sorted(x.name for x in node.target.find_all(n.Name))) if hasattr(node.target, "find_all") else "set"]}})
                t = self.seq([t, ("ite", ("cond", ("leaf", lid)), ("nil",), ("nil",))])
            return t
        if isinstance(node, n.AssignBlock):
            body = self.stmts(node.body, scope, kind)
            if node.filter is not None:
                return ("filterBlock", self.leaf(node.filter, scope, kind, "assign-filter"), body)
            return body
        if isinstance(node, n.ExprStmt):
            return self.expr_tpl(node.node, scope, kind, "do")
        if isinstance(node, n.Macro):
            name = f"macro:{file}:{node.name}"
            inner = (file, node.name)
            pre = [self.expr_tpl(d, scope, kind, "macro-default") for d in node.defaults if not isinstance(d, n.Const)]
            self.add_body(name, self.stmts(node.body, inner, kind))
            return self.seq(pre)
        if isinstance(node, n.CallBlock):
            body = self.stmts(node.body, scope, kind)
            call = node.call
            calls = self.macro_calls(call, scope)
            lf = self.leaf(call, scope, kind, "call-block")
            parts = [self.call_tpl(t, c, scope, kind) for t, c in calls] + [body]
            return ("filterBlock", lf, self.seq(parts))
        if isinstance(node, n.FilterBlock):
            return ("filterBlock", self.leaf(node.filter, scope, kind, "filter-block"), self.stmts(node.body, scope, kind))
        if isinstance(node, n.Include):
            if not (isinstance(node.template, n.Const) and isinstance(node.template.value, str)):
                raise TieBroken(f"{self.lang}:{file}:{node.lineno}: include of a computed template name")
            self.need.append((kind, node.template.value))
            return ("call", f"tpl:{kind}:{node.template.value}")
        if isinstance(node, (n.Import, n.FromImport)):
            if not (isinstance(node.template, n.Const) and isinstance(node.template.value, str)):
                raise TieBroken(f"{self.lang}:{file}:{node.lineno}: import of a computed template name")
            self.need.append((kind, node.template.value))
            # the module's top level runs, its output is discarded: filterBlock with a constant function
            return ("filterBlock", self.leaf(n.Const("", lineno=node.lineno), scope, kind, "import-discard"),
                    ("call", f"tpl:{kind}:{node.template.value}"))
        if isinstance(node, n.Extends):
            return ("nil",)    # handled by the caller (the parent is rendered after the child's top level ran)
        if isinstance(node, n.Block):
            return self.block_site(node, scope, kind)
        if isinstance(node, (n.Continue, n.Break)):
            return ("nil",)
        if isinstance(node, n.Scope):
            return self.stmts(node.body, scope, kind)
        if isinstance(node, n.With):
            pre = [self.expr_tpl(v, scope, kind, "with") for v in node.values]
            return self.seq(pre + [self.stmts(node.body, scope, kind)])
        raise TieBroken(f"{self.lang}:{file}:{getattr(node, 'lineno', '?')}: statement node {type(node).__name__} is not expressible")

    def if_one(self, test, then_t, else_t, scope, kind, node):
        n = self.n
        c, pre = self.cond(test, scope, kind)
        if c is None:
            # `audit and X` / `X and audit`
            if isinstance(test, n.And) and (self.is_audit(test.left) or self.is_audit(test.right)):
                other = test.right if self.is_audit(test.left) else test.left
                if self.mentions_audit(other):
                    raise TieBroken(f"{self.lang}:{scope[0]}:{node.lineno}: unrecognised use of nunavut.embed_auditing_info in a condition")
                c2, pre2 = self.cond(other, scope, kind)
                return ("ite", ("audit",), self.seq([pre2, ("ite", c2, then_t, else_t)]), else_t)
            raise TieBroken(f"{self.lang}:{scope[0]}:{node.lineno}: unrecognised use of nunavut.embed_auditing_info in a condition")
        return self.seq([pre, ("ite", c, then_t, else_t)])

    def block_site(self, node, scope, kind):
        n = self.n
        file = scope[0]
        own = f"block:{kind}:{file}:{node.name}"
        self.add_body(own, self.stmts(node.body, scope, kind))
        if self.extends.get((kind, file)) is not None:
            return ("nil",)      # inside a child template: the block is rendered at the parent's site
        # overriding blocks of descendants: which one runs is a function of the root template, i.e. of T's class
        site = ("call", own)
        for child in sorted(self.descendants((kind, file))):
            if node.name in self.blocks_of.get(child, set()):
                pick = self.n.Const(f"root-template-is:{child[1]}", lineno=node.lineno)
                site = ("ite", ("cond", self.leaf(pick, scope, kind, "block-dispatch")),
                        ("call", f"block:{kind}:{child[1]}:{node.name}"), site)
        return site

    def descendants(self, key):
        out, todo = set(), [key]
        while todo:
            k = todo.pop()
            for child, parent in self.extends.items():
                if parent == k[1] and child[0] == k[0] and child not in out:
                    out.add(child); todo.append(child)
        return out

    def add_body(self, name, tpl):
        if name in self.body_index:
            self.bodies[self.body_index[name]] = (name, tpl)
        else:
            self.body_index[name] = len(self.bodies)
            self.bodies.append((name, tpl))

    # ---- driver ----------------------------------------------------------------------------------------------------
    def run(self):
        n = self.n
        self.build_envs()
        # roots: what the generators can select
        todo = []
        for kind, env in self.envs.items():
            for name in sorted(env.list_templates()):
                todo.append((kind, name))
        self.need = list(todo)
        # 1st pass: load everything reachable, collect structure (extends, blocks, macros, imports)
        self.extends, self.blocks_of, self.macros_of, self.imports_of = {}, {}, {}, {}
        seen = set()
        while self.need:
            key = self.need.pop()
            if key in seen:
                continue
            seen.add(key)
            kind, name = key
            tree, _ = self.load(kind, name)
            for e in tree.find_all(n.Extends):
                if not isinstance(e.template, n.Const):
                    raise TieBroken(f"{self.lang}:{name}: computed extends")
                self.extends[key] = e.template.value
                self.need.append((kind, e.template.value))
            self.extends.setdefault(key, None)
            self.blocks_of[key] = {b.name for b in tree.find_all(n.Block)}
            self.macros_of[key] = {m.name for m in tree.find_all(n.Macro)}
            imps = []
            for i in tree.find_all((n.Include, n.Import, n.FromImport)):
                if not isinstance(i.template, n.Const):
                    raise TieBroken(f"{self.lang}:{name}: computed include/import")
                self.need.append((kind, i.template.value))
                imps.append(i)
            self.imports_of[key] = imps
        self.all_templates = sorted(seen)
        imported = {(k, i.template.value) for k_, imps in self.imports_of.items() for i in imps for k in [k_[0]] if isinstance(i, (n.Import, n.FromImport))}
        included = {(k_[0], i.template.value) for k_, imps in self.imports_of.items() for i in imps if isinstance(i, n.Include)}
        extended = {(k_[0], v) for k_, v in self.extends.items() if v is not None}
        self.import_only = imported - included - extended
        import pydsdl as _pydsdl
        _classes, _todo = {"Any", "Namespace"}, [_pydsdl.SerializableType]
        while _todo:
            _c = _todo.pop(); _classes.add(_c.__name__); _todo += _c.__subclasses__()
        self.root_template_names = {nm for (k, nm) in self.all_templates if k == "type" and nm.rsplit(".", 1)[0] in _classes}
        # macro visibility per file (own macros + imported names + imported modules + macros of included-from parents are
        # not visible in Jinja; macros of a parent template are not visible in the child either)
        self.macros_visible, self.modules_visible = {}, {}
        for key in self.all_templates:
            kind, name = key
            vis = {m: f"macro:{name}:{m}" for m in self.macros_of[key]}
            mods = {}
            for i in self.imports_of[key]:
                if isinstance(i, n.FromImport):
                    for item in i.names:
                        src, alias = (item if isinstance(item, tuple) else (item, item))
                        vis[alias] = f"macro:{i.template.value}:{src}"
                elif isinstance(i, n.Import):
                    mods[i.target] = i.template.value
            self.macros_visible.setdefault(name, {}).update(vis)
            self.modules_visible.setdefault(name, {}).update(mods)
        # a block of a child template runs in the parent's context and an included template in the includer's: macros
        # (and imported names) of the other templates are visible as a fallback (own definitions win)
        everything = {}
        for fname in sorted(self.macros_visible):
            for m, target in sorted(self.macros_visible[fname].items()):
                everything.setdefault(m, target)
        for fname in self.macros_visible:
            for m, target in everything.items():
                self.macros_visible[fname].setdefault(m, target)
        # taint fixpoint + emission (emit repeatedly until the taint map is stable; last emission wins)
        for rnd in range(8):
            before = json.dumps({"|".join(map(str, k)): sorted(v) for k, v in sorted(self.taint.items(), key=lambda kv: str(kv[0]))})
            self.bodies, self.body_index, self.leaves, self.pending_calls = [], {}, [], []
            self.need = []
            for key in self.all_templates:
                self.collect_taint(key)
            for key in self.all_templates:
                self.emit_template(key)
            self.bind_macro_params()
            after = json.dumps({"|".join(map(str, k)): sorted(v) for k, v in sorted(self.taint.items(), key=lambda kv: str(kv[0]))})
            if before == after and rnd > 0:
                break
        else:
            raise TieBroken(f"{self.lang}: taint propagation did not converge")
        # every call target must exist
        names = set(self.body_index)
        def targets(t):
            if t[0] == "call":
                yield t[1]
            for x in t[1:]:
                if isinstance(x, tuple):
                    yield from targets(x)
        for name, t in self.bodies:
            for tg in targets(t):
                if tg not in names:
                    raise TieBroken(f"{self.lang}: {name} calls {tg} which does not exist")
        self.compute_roots()

    def collect_taint(self, key):
        """Assignments, loop targets (flow-insensitive, per file and enclosing macro)."""
        n = self.n
        kind, name = key
        tree, _ = self.load(kind, name)

        def targets(t):
            if isinstance(t, n.Name):
                return [t.name]
            if isinstance(t, n.Tuple):
                return [x for i in t.items for x in targets(i)]
            if isinstance(t, n.NSRef):
                return [t.name]
            return []

        def walk(node, scope):
            if isinstance(node, n.Macro):
                inner = (name, node.name)
                for a in node.args:
                    self.taint.setdefault((name, node.name, a.name), set())
                for sub in node.body:
                    walk(sub, inner)
                return
            if isinstance(node, n.Assign):
                c = self.safe_cls(node.node, scope, kind)
                for t in targets(node.target):
                    self.taint.setdefault((name, scope[1], t), set()).update(c)
            elif isinstance(node, n.AssignBlock):
                c = set()
                for o in node.find_all(n.Output):
                    for e in o.nodes:
                        c |= self.safe_cls(e, scope, kind)
                if node.filter is not None:
                    c |= self.safe_cls(node.filter, scope, kind)
                for t in targets(node.target):
                    self.taint.setdefault((name, scope[1], t), set()).update(c)
            elif isinstance(node, n.For):
                c = self.safe_cls(node.iter, scope, kind)
                for t in targets(node.target):
                    self.taint.setdefault((name, scope[1], t), set()).update(c)
            elif isinstance(node, n.CallBlock):
                for a in node.args:
                    self.taint.setdefault((name, scope[1], a.name), set())
            elif isinstance(node, n.With):
                for t, v in zip(node.targets, node.values):
                    for tt in targets(t):
                        self.taint.setdefault((name, scope[1], tt), set()).update(self.safe_cls(v, scope, kind))
            for child in node.iter_child_nodes():
                walk(child, scope)

        # names bound first so that lookups succeed, then classes (two passes inside one round are enough together with
        # the outer fixpoint)
        def bind(node, scope):
            if isinstance(node, n.Macro):
                for a in node.args:
                    self.taint.setdefault((name, node.name, a.name), set())
                for sub in node.body:
                    bind(sub, (name, node.name))
                return
            tg = []
            if isinstance(node, (n.Assign, n.AssignBlock, n.For)):
                tg = targets(node.target)
            if isinstance(node, n.CallBlock):
                tg = [a.name for a in node.args]
            if isinstance(node, n.With):
                tg = [x for t in node.targets for x in targets(t)]
            for t in tg:
                self.taint.setdefault((name, scope[1], t), set())
            for child in node.iter_child_nodes():
                bind(child, scope)

        bind(tree, (name, None))
        walk(tree, (name, None))

    def safe_cls(self, node, scope, kind):
        return self.cls(node, scope, kind, {"removed": set(), "notes": [], "via": {}})

    def bind_macro_params(self):
        """Macro parameters take the union of the argument classes over all call sites (positional/keyword by name)."""
        n = self.n
        macro_args = {}
        for key in self.all_templates:
            tree, _ = self.load(*key)
            for m in tree.find_all(n.Macro):
                macro_args[f"macro:{key[1]}:{m.name}"] = (key[1], m.name, [a.name for a in m.args])
        for target, scope, kind, call in self.pending_calls:
            if target not in macro_args:
                raise TieBroken(f"{self.lang}:{scope[0]}: call of unknown macro {target}")
            file, mname, params = macro_args[target]
            for i, a in enumerate(call.args):
                c = self.safe_cls(a, scope, kind)
                if i < len(params):
                    self.taint.setdefault((file, mname, params[i]), set()).update(c)
                else:
                    for p in params:
                        self.taint[(file, mname, p)].update(c)
            for k in call.kwargs:
                c = self.safe_cls(k.value, scope, kind)
                if k.key in params:
                    self.taint.setdefault((file, mname, k.key), set()).update(c)
                else:
                    for p in params:
                        self.taint[(file, mname, p)].update(c)

    def emit_template(self, key):
        n = self.n
        kind, name = key
        tree, _ = self.load(kind, name)
        scope = (name, None)
        parent = self.extends.get(key)
        items = []
        for node in tree.body:
            if parent is not None and isinstance(node, n.Output):
                continue            # a child template's top-level output is not rendered
            items.append(self.stmt(node, scope, kind))
        if parent is not None:
            items.append(("call", f"tpl:{kind}:{parent}"))
        self.add_body(f"tpl:{kind}:{name}", self.seq(items))

    # ---- first emitted text of each root (for the empty-line limiter hypothesis) ------------------------------------
    def first_text(self, kind, name, depth=0):
        """The static text a rendering of template `name` starts with, or None if it starts with something dynamic.
        Returns (text, complete) where complete=False means only a prefix is known (dynamic content follows)."""
        n = self.n
        if depth > 8:
            return None
        tree, _ = self.load(kind, name)
        parent = self.extends.get((kind, name))
        if parent is not None:
            return self.first_text(kind, parent, depth + 1)
        acc = ""
        for node in tree.body:
            if isinstance(node, (n.Macro, n.Import, n.FromImport, n.Assign, n.ExprStmt)):
                continue
            if isinstance(node, n.AssignBlock):
                continue
            if isinstance(node, n.Output):
                for c in node.nodes:
                    if isinstance(c, n.TemplateData):
                        acc += c.data
                        if "\n" in acc:
                            return acc
                    else:
                        return acc if acc.strip() else None
                continue
            if isinstance(node, n.Include) and isinstance(node.template, n.Const):
                sub = self.first_text(kind, node.template.value, depth + 1)
                if sub is None:
                    return acc if acc.strip() else None
                acc += sub
                if "\n" in acc:
                    return acc
                return acc if acc.strip() else None
            return acc if acc.strip() else None
        return acc

    def last_text(self, kind, name, depth=0):
        """The static text a rendering of template `name` ends with ("" if the template emits nothing at all),
        or None if it ends with something dynamic / cannot be told."""
        n = self.n
        if depth > 8:
            return None
        tree, _ = self.load(kind, name)
        parent = self.extends.get((kind, name))
        if parent is not None:
            return self.last_text(kind, parent, depth + 1)
        acc = ""
        emits = False
        for node in reversed(tree.body):
            if isinstance(node, (n.Macro, n.Import, n.FromImport, n.Assign, n.ExprStmt, n.AssignBlock)):
                continue
            if isinstance(node, n.Output):
                for c in reversed(node.nodes):
                    if isinstance(c, n.TemplateData):
                        acc = c.data + acc
                        emits = emits or bool(c.data)
                        if "\n" in acc[:-1]:
                            return acc
                    else:
                        return None
                continue
            if isinstance(node, n.Include) and isinstance(node.template, n.Const):
                sub = self.last_text(kind, node.template.value, depth + 1)
                if sub is None:
                    return None
                acc = sub + acc
                if "\n" in acc[:-1]:
                    return acc
                if sub != "":
                    return None      # a partial line whose beginning is not known
                continue
            return None
        return acc if (acc == "" or "\n" not in acc[:-1]) else acc

    def compute_roots(self):
        from nunavut._utilities import ResourceType
        self.roots = []
        for kind, env in self.envs.items():
            if kind == "type":
                names = sorted(env.list_templates())
                # templates that _generate_type can select: named after a pydsdl class / Namespace / Any
                import pydsdl
                classes = {"Any", "Namespace"}
                todo = [pydsdl.SerializableType]
                while todo:
                    c = todo.pop(); classes.add(c.__name__); todo += c.__subclasses__()
                for name in names:
                    stem = name.rsplit(".", 1)[0]
                    if stem in classes:
                        ft = self.first_text(kind, name)
                        fk = "namespace" if stem == "Namespace" else "type"
                        self.roots.append({"kind": fk, "name": name, "body": f"tpl:{kind}:{name}", "first": ft,
                                           "last": self.last_text(kind, name)})
            else:
                for res in sorted(self.sup.get_templates(False), key=lambda p: p.name):
                    if res.suffix == ".j2":
                        ft = self.first_text(kind, res.name)
                        self.roots.append({"kind": "support", "name": res.name, "body": f"tpl:{kind}:{res.name}", "first": ft,
                                           "last": self.last_text(kind, res.name)})
                    else:
                        text = res.read_text(encoding="utf-8")
                        self.roots.append({"kind": "support", "name": res.name, "body": None, "first": text[:400], "last": text[-400:]})


# =====================================================================================================================
# Lean emission
# =====================================================================================================================
def lean_str(s: str) -> str:
    out = ['"']
    for ch in s:
        o = ord(ch)
        if ch == "\\":
            out.append("\\\\")
        elif ch == '"':
            out.append('\\"')
        elif ch == "\n":
            out.append("\\n")
        elif ch == "\t":
            out.append("\\t")
        elif ch == "\r":
            out.append("\\r")
        elif o < 32 or o == 127 or o > 126:
            out.append("\\u{%x}" % o)
        else:
            out.append(ch)
    out.append('"')
    return "".join(out)


def clip_first(s, limit=96):
    """Prefix of `s` up to and including its first newline, clipped."""
    if s is None:
        return None
    i = s.find("\n")
    p = s if i < 0 else s[: i + 1]
    return p[:limit]


def clip_last(s, limit=96):
    """Suffix of `s` from the line feed that precedes its last line (the whole of `s` if it is a single line)."""
    if s is None:
        return None
    body = s[:-1] if s.endswith("\n") else s
    i = body.rfind("\n")
    p = s if i < 0 else s[i:]
    return p if len(p) <= limit else None


def emit_lang(conv: LangConv) -> str:
    leaves = {l["id"]: l for l in conv.leaves}
    idx = conv.body_index
    text_ids = []
    src_l = lambda cs: "[" + ", ".join("." + c for c in cs) + "]"

    def leaf(lf):
        l = leaves[lf[1]]
        return f"⟨{l['id']}, {src_l(l['reads'])}, {src_l(l['removes'])}⟩"

    def tpl(t, ind):
        k = t[0]
        if k == "nil":
            return ".nil"
        if k == "text":
            text_ids.append(t[1])
            return f".text {len(text_ids) - 1}"
        if k == "out":
            return f".out {leaf(t[1])}"
        if k == "call":
            return f".call {idx[t[1]]}"
        if k == "seq":
            # flatten right-nested seq for readability
            return f".seq ({tpl(t[1], ind)})\n{ind}({tpl(t[2], ind)})"
        if k == "ite":
            c = t[1]
            cs = ".audit" if c[0] == "audit" else ".notAudit" if c[0] == "notAudit" else f"(.leaf {leaf(c[1])})"
            return f".ite {cs} ({tpl(t[2], ind + ' ')})\n{ind} ({tpl(t[3], ind + ' ')})"
        if k == "loop":
            return f".loop {leaf(t[1])} ({tpl(t[2], ind + ' ')})"
        if k == "filterBlock":
            return f".filterBlock {leaf(t[1])} ({tpl(t[2], ind + ' ')})"
        raise TieBroken(f"emit: {k}")

    m = MOD[conv.lang]
    lines = [f"-- GENERATED by translate/tplflows.py from the templates of language `{conv.lang}` — do not edit.",
             "import NunavutVerif.Model.Tpl", "set_option maxRecDepth 100000",
             f"namespace NunavutVerif.Gen.TplFlows{m}", "open NunavutVerif.Tpl", ""]
    for i, (name, t) in enumerate(conv.bodies):
        lines.append(f"/-- {name} -/")
        lines.append(f"def b{i} : Tpl :=\n  {tpl(t, '  ')}")
    lines.append("")
    lines.append("def program : List Tpl := [" + ", ".join(f"b{i}" for i in range(len(conv.bodies))) + "]")
    lines.append("def bodyNames : List String := [" + ", ".join(lean_str(nm) for nm, _ in conv.bodies) + "]")
    rts = []
    for r in conv.roots:
        first = clip_first(r["first"])
        kind = {"type": ".type", "namespace": ".namespace", "support": ".support"}[r["kind"]]
        body = "none" if r["body"] is None else f"some {idx[r['body']]}"
        ft = "none" if first is None else f"some {lean_str(first)}"
        last = clip_last(r["last"])
        lt = "none" if last is None else f"some {lean_str(last)}"
        rts.append(f"  ⟨{lean_str(r['name'])}, {kind}, {body}, {ft}, {lt}⟩")
    lines.append("def roots : List Root := [\n" + ",\n".join(rts) + "]")
    lines.append(f"def lang : Lang := ⟨{lean_str(conv.lang)}, program, roots⟩")
    pick = sorted(l["id"] for l in conv.leaves if any("filter:pickle" in v for v in l["via"].values()))
    lines.append("/-- The leaves that apply the `pickle` filter (the `_MODEL_` literal of a generated Python module). -/")
    lines.append("def pickleLeaves : List Nat := [" + ", ".join(str(i) for i in pick) + "]")
    lines.append(f"end NunavutVerif.Gen.TplFlows{m}")
    return "\n".join(lines) + "\n"


def emit_top(facts) -> str:
    b = lambda x: "true" if x else "false"
    out = ["-- GENERATED by translate/tplflows.py — do not edit."]
    for l in LANGS:
        out.append(f"import NunavutVerif.Gen.TplFlows{MOD[l]}")
    out += ["namespace NunavutVerif.Gen.TplFlows", "open NunavutVerif.Tpl", "",
            "def langs : List Lang := [" + ", ".join(f"NunavutVerif.Gen.TplFlows{MOD[l]}.lang" for l in LANGS) + "]",
            "/-- `_generate_code` calls `UniqueNameGenerator.reset()` before it consumes the template generator. -/",
            f"def resetsUniqueNamesPerFile : Bool := {b(facts['resets_unique_names_per_file'])}",
            "/-- `IncludeGenerator.generate_include_filepart_list` returns `sorted(...)` under `if sort:`. -/",
            f"def includeGeneratorSorts : Bool := {b(facts['include_generator_sorts'])}",
            "/-- With auditing off `_create_platform_version` reads nothing but `platform.python_version()`. -/",
            f"def platformVersionAuditOffOnly : Bool := {b(facts['platform_version_audit_off_only'])}",
            "/-- The line post-processors are put into their initial state at the start of every file. -/",
            f"def linePPResetPerFile : Bool := {b(facts['line_pp_reset_per_file'])}",
            "/-- `cached_property.__get__` stores the value in `instance.__dict__` and nothing on the descriptor. -/",
            f"def cachedPropertyPerInstance : Bool := {b(facts['cached_property_per_instance'])}",
            "/-- `_natural_sort` (HTML) breaks ties of its natural key by the plain name: the order it produces is total. -/",
            f"def naturalSortTotal : Bool := {b(facts['natural_sort_total'])}",
            "/-- No class-level / module-level mutable container is written at run time (beyond the listed, modelled ones). -/",
            f"def noUnlistedSharedContainers : Bool := {b(facts['no_unlisted_shared_containers'])}",
            "/-- No generator constructor compiles templates (`get_template` & co. only at generation time). -/",
            f"def templatesCompiledLazily : Bool := {b(facts['templates_compiled_lazily'])}",
            "/-- No `FilePostProcessor` of the package writes object state outside `__init__` (directly or through a local alias). -/",
            f"def filePPCallsPure : Bool := {b(facts['file_pp_calls_pure'])}",
            "/-- Every attribute a `LinePostProcessor` of the package writes while processing lines is assigned in its `reset()`. -/",
            f"def linePPResetComplete : Bool := {b(facts['line_pp_reset_complete'])}",
            "/-- `SetFileMode`, `ExternalProgramEditInPlace`, `_build_post_processor_list_from_args`, `_build_ext_program_postprocessor`,",
            "`_handle_overwrite`, `_copy_header` have the statements `Model/FilePP.lean` was transcribed from. -/",
            f"def filePPSourceMatchesModel : Bool := {b(facts['file_pp_source_matches_model'])}",
            "/-- `_generate_code` / `SupportGenerator.generate_all` classify (reset+collect | collect | raise ValueError) and run",
            "`for file_pp in file_pps: path = file_pp(path)` once, after the file is written. -/",
            f"def generatorRunsFilePPsOnceInOrder : Bool := {b(facts['generator_runs_file_pps_once_in_order'])}",
            "/-- Outside templates and filters, no code of the package looks at a path relative to the working directory, the working or",
            "home directory, an undocumented environment variable, or a temporary-file name. -/",
            f"def noUndeclaredAmbientInputs : Bool := {b(facts['no_undeclared_ambient_inputs'])}",
            "/-- `LanguageContextBuilder.add_config_files` iterates over its argument as given (no sorting / de-duplication by path). -/",
            f"def configFilesReadInGivenOrder : Bool := {b(facts['config_files_read_in_given_order'])}",
            "/-- `_generate_with_line_buffer` binds `line_buffer` only to a fresh `io.StringIO()` (at entry, after each complete line). -/",
            f"def lineBufferPerCall : Bool := {b(facts['line_buffer_per_call'])}",
            "/-- No function behind `functools.lru_cache` takes a PyDSDL model object (equal by name, version and bit length set only) or a",
            "container as part of its key. -/",
            f"def memoKeysDetermineResult : Bool := {b(facts['memo_keys_determine_result'])}",
            "/-- Module-level / class-level names of the package bound to a value that could hold state (a container literal or the result",
            "of a call that is not a known immutable constructor); `noUnlistedSharedContainers` says that none of them is written at run",
            "time (item / attribute / augmented assignment, mutating or position-moving method, `next()`, `global` — also through a local alias). -/",
            "def processStateCandidates : List String := [" + ", ".join(lean_str(x) for x in facts["process_state_candidates"]) + "]",
            "/-- The functions behind `functools.lru_cache` / `functools.cache`, with their parameters. -/",
            "def memoisedFunctions : List (String × List String) := [" + ", ".join(
                "(" + lean_str(m["function"]) + ", [" + ", ".join(lean_str(x) for x in m["params"]) + "])" for m in facts["memoised_functions"]) + "]",
            "end NunavutVerif.Gen.TplFlows", ""]
    return "\n".join(out)



def emit_callables(per_lang) -> str:
    """Gen/TplCallables.lean: every filter, test and global registered in the real environments of each language."""
    src_l = lambda cs: "[" + ", ".join("." + c for c in cs) + "]"
    out = ["-- GENERATED by translate/tplflows.py (sweep over the real CodeGenEnvironment of every language) — do not edit.",
           "import NunavutVerif.Model.Tpl", "set_option maxRecDepth 100000", "namespace NunavutVerif.Gen.TplCallables", "open NunavutVerif.Tpl", ""]
    un = []
    for lang in LANGS:
        rows, unclassified = per_lang[lang]
        un += [f"{u['lang']}:{u['what']}:{u['name']}" for u in unclassified]
        out.append(f"def {MOD[lang].lower()} : List Callable := [")
        out.append(",\n".join(f"  ⟨{lean_str(r['what'])}, {lean_str(r['name'])}, {lean_str(r['name'].rsplit('.', 1)[-1])}, {src_l(r['reads'])}, {src_l(r['removes'])}⟩" for r in rows) + "]")
    out.append("def all : List (String × List Callable) := [" + ", ".join(f"({lean_str(l)}, {MOD[l].lower()})" for l in LANGS) + "]")
    out.append("/-- Registered names that neither the hand tables nor the body scan could classify. -/")
    out.append("def unclassified : List String := [" + ", ".join(lean_str(x) for x in sorted(set(un))) + "]")
    out.append("end NunavutVerif.Gen.TplCallables")
    return "\n".join(out) + "\n"


def write_if_changed(path: pathlib.Path, content: str) -> bool:
    if path.exists() and path.read_text(encoding="utf-8") == content:
        return False
    path.parent.mkdir(parents=True, exist_ok=True)
    path.write_text(content, encoding="utf-8")
    return True


def main(argv=None) -> int:
    ap = argparse.ArgumentParser()
    ap.add_argument("--repo", default="/repo")
    ap.add_argument("--out", default=str(pathlib.Path(__file__).resolve().parent.parent / "lean" / "NunavutVerif" / "Gen"))
    ap.add_argument("--info", default=None)
    ap.add_argument("--dry", action="store_true")
    a = ap.parse_args(argv)
    repo_src = pathlib.Path(a.repo).resolve() / "src"
    sys.path.insert(0, str(repo_src))
    sys.dont_write_bytecode = True
    import logging
    logging.disable(logging.CRITICAL)
    info = {"repo": str(repo_src), "langs": {}, "error": None, "written": []}
    try:
        from nunavut.jinja.jinja2 import nodes
        scanner = Scanner(repo_src)
        facts = source_facts(repo_src)
        info["facts"] = {k: (sorted(v, key=lambda x: json.dumps(x, sort_keys=True, default=str)) if isinstance(v, (set, list)) else v) for k, v in facts.items()}
        out = pathlib.Path(a.out)
        swept = {}
        for lang in LANGS:
            conv = LangConv(lang, repo_src, scanner, facts, nodes)
            conv.run()
            swept[lang] = conv.sweep_registered()
            text = emit_lang(conv)
            if not a.dry and write_if_changed(out / f"TplFlows{MOD[lang]}.lean", text):
                info["written"].append(f"TplFlows{MOD[lang]}.lean")
            info["langs"][lang] = {
                "bodies": [nm for nm, _ in conv.bodies],
                "leaves": conv.leaves,
                "roots": [{**r, "first": clip_first(r["first"]), "last": clip_last(r["last"])} for r in conv.roots],
                "templates": [list(k) for k in conv.all_templates],
                "callables": {f"{k[0]}:{k[1]}:{k[2]}": {"added": sorted(v[0]), "removed": sorted(v[1]), "notes": v[2][:8], "where": v[3]}
                              for k, v in sorted(conv.callable_cache.items())},
                "digest": hashlib.sha256(text.encode()).hexdigest(),
                "registered": {"n": len(swept[lang][0]), "non_pure": [r for r in swept[lang][0] if r["reads"]]},
            }
        unclassified = [u for l in LANGS for u in swept[l][1]]
        facts["unclassified_callables"] = unclassified
        facts["registered_callables_classified"] = not unclassified
        info["facts"]["unclassified_callables"] = unclassified
        info["facts"]["registered_callables_classified"] = not unclassified
        if not a.dry and write_if_changed(out / "TplCallables.lean", emit_callables(swept)):
            info["written"].append("TplCallables.lean")
        if not a.dry and write_if_changed(out / "TplFlows.lean", emit_top(facts)):
            info["written"].append("TplFlows.lean")
    except TieBroken as e:
        info["error"] = f"TieBroken: {e}"
    if a.info:
        pathlib.Path(a.info).write_text(json.dumps(info, indent=1, default=str))
    else:
        summary = {l: {"bodies": len(v["bodies"]), "leaves": len(v["leaves"]),
                       "unclean": [(x["file"], x["line"], x["effective"]) for x in v["leaves"] if x["effective"]][:40]}
                   for l, v in info["langs"].items()}
        print(json.dumps({"error": info["error"], "facts": info.get("facts"), "written": info["written"], "summary": summary}, indent=1))
    return 0 if info["error"] is None else 3


if __name__ == "__main__":
    sys.exit(main())
