"""
Translator for C16 (round 2): the construction of the template environment, read from the source of the tree under check
($VERIF_REPO/src) with Python's `ast`, into lean/NunavutVerif/Gen/EnvCtor.lean:

  * EVERY assignment to `_allow_replacements` anywhere under src/nunavut (file, line, enclosing function) with its
    right-hand side as an expression over the inputs it reads (`AllowExpr`): the constructor argument
    `allow_filter_test_or_use_query_overwrite`, constants, and/or/not, `getattr(loader, "<attr>", <default>)`; anything
    else becomes `.unknown "<source>"` — an input the model cannot evaluate, so the theorem "the flag is the constructor
    argument" no longer holds;
  * the same for the builder's `_allow_filter_test_or_use_query_overwrite` and for what `CodeGenerator.__init__` hands to
    the builder (today: nothing — generators never allow replacements);
  * the order in which `CodeGenEnvironment.__init__` (with `_update_language_support` inlined) fills the collections
    (`ctorSteps`), and what `DSDLCodeGenerator.__init__` / `SupportGenerator.__init__` add after `create()`;
  * the search policy each generator hands to the loader;
  * for every target language: the (test name -> class) map of the instance tests as they are in the FINISHED environment of
    a real `DSDLCodeGenerator` (read from the closures in `env.tests`).

A statement the translator does not recognise raises TranslationError (tie broken); nothing is skipped silently.
Run: /venv/bin/python -m translate.env_ctor
"""
import ast
import os
import pathlib
import sys
import tempfile
import shutil

VERIF = pathlib.Path(__file__).resolve().parent.parent
REPO = pathlib.Path(os.environ.get("VERIF_REPO", "/repo")).resolve()
OUT = VERIF / "lean" / "NunavutVerif" / "Gen" / "EnvCtor.lean"
CTOR_ARG = "allow_filter_test_or_use_query_overwrite"
FLAG = "_allow_replacements"
BUILDER_FLAG = "_allow_filter_test_or_use_query_overwrite"
LANGUAGES = ("c", "cpp", "py", "html")


class TranslationError(Exception):
    pass


def _lit(s: str) -> str:
    """A string as a `List Char` literal (quotes and backslashes escaped; source text of an expression may contain them)."""
    if any(ord(ch) >= 128 or ord(ch) < 32 for ch in s):
        raise TranslationError(f"string {s!r} cannot be written as a plain Lean character list")
    esc = {"'": "\\'", "\\": "\\\\"}
    return "[" + ",".join("'" + esc.get(ch, ch) + "'" for ch in s) + "]"


def _str(s: str) -> str:
    s = s.replace("\\", "\\\\").replace('"', '\\"').replace("\n", " ")
    if any(ord(ch) >= 128 or ord(ch) < 32 for ch in s):
        raise TranslationError(f"string {s!r} cannot be written as a plain Lean literal")
    return '"' + s + '"'


# ----------------------------------------------------------------------------------------------------------------------
# expressions a flag is assigned from
# ----------------------------------------------------------------------------------------------------------------------
def allow_expr(node, params, self_flag=None):
    """AST of a right-hand side -> nested tuple. `params`: names that denote the constructor argument here."""
    if isinstance(node, ast.Name) and node.id in params:
        return ("ctorArg",)
    if isinstance(node, ast.Constant) and isinstance(node.value, bool):
        return ("const", node.value)
    if isinstance(node, ast.BoolOp):
        op = "or" if isinstance(node.op, ast.Or) else "and"
        out = allow_expr(node.values[0], params, self_flag)
        for v in node.values[1:]:
            out = (op, out, allow_expr(v, params, self_flag))
        return out
    if isinstance(node, ast.UnaryOp) and isinstance(node.op, ast.Not):
        return ("not", allow_expr(node.operand, params, self_flag))
    if isinstance(node, ast.Call) and isinstance(node.func, ast.Name) and node.func.id == "bool" and len(node.args) == 1 and not node.keywords:
        return allow_expr(node.args[0], params, self_flag)
    if (isinstance(node, ast.Call) and isinstance(node.func, ast.Name) and node.func.id == "getattr" and len(node.args) == 3
            and ast.unparse(node.args[0]) in ("loader", "self.loader", "self._loader") and isinstance(node.args[1], ast.Constant)
            and isinstance(node.args[1].value, str) and isinstance(node.args[2], ast.Constant) and isinstance(node.args[2].value, bool)):
        return ("loaderAttr", node.args[1].value, node.args[2].value)
    if isinstance(node, ast.Attribute) and ast.unparse(node.value) in ("loader", "self.loader", "self._loader"):
        return ("loaderAttr", node.attr, False)
    if self_flag is not None and isinstance(node, ast.Attribute) and ast.unparse(node) == "self." + self_flag:
        return ("ctorArg",)   # the builder hands on its own flag
    return ("unknown", ast.unparse(node))


def render_expr(e) -> str:
    k = e[0]
    if k == "ctorArg":
        return ".ctorArg"
    if k == "const":
        return f"(.const {'true' if e[1] else 'false'})"
    if k in ("or", "and"):
        return f"(.{k} {render_expr(e[1])} {render_expr(e[2])})"
    if k == "not":
        return f"(.not {render_expr(e[1])})"
    if k == "loaderAttr":
        return f"(.loaderAttr {_lit(e[1])} {'true' if e[2] else 'false'})"
    if k == "unknown":
        return f"(.unknown {_lit(e[1][:120])})"
    raise TranslationError(f"unknown expression {e!r}")


def expr_inputs(e, acc):
    k = e[0]
    if k == "ctorArg":
        acc.append(CTOR_ARG)
    elif k in ("or", "and"):
        expr_inputs(e[1], acc)
        expr_inputs(e[2], acc)
    elif k == "not":
        expr_inputs(e[1], acc)
    elif k == "loaderAttr":
        acc.append("loader." + e[1])
    elif k == "unknown":
        acc.append("?" + e[1][:120])
    return acc


# ----------------------------------------------------------------------------------------------------------------------
# source walking
# ----------------------------------------------------------------------------------------------------------------------
class Scope(ast.NodeVisitor):
    """Every assignment whose target is an attribute named `attr`, with the qualified name of the enclosing function."""

    def __init__(self, attr):
        self.attr, self.stack, self.found = attr, [], []

    def _scoped(self, node):
        self.stack.append(node.name)
        self.generic_visit(node)
        self.stack.pop()

    visit_ClassDef = visit_FunctionDef = visit_AsyncFunctionDef = _scoped

    def _target(self, t, node, value):
        if isinstance(t, ast.Attribute) and t.attr == self.attr:
            self.found.append((".".join(self.stack), node.lineno, ast.unparse(t.value), value, node))
        elif isinstance(t, (ast.Tuple, ast.List)):
            for e in t.elts:
                self._target(e, node, None)   # destructuring: value unknown

    def visit_Assign(self, node):
        for t in node.targets:
            self._target(t, node, node.value)
        self.generic_visit(node)

    def visit_AnnAssign(self, node):
        self._target(node.target, node, node.value)
        self.generic_visit(node)

    def visit_AugAssign(self, node):
        self._target(node.target, node, None)
        self.generic_visit(node)

    def visit_NamedExpr(self, node):
        self.generic_visit(node)

    def visit_Call(self, node):
        # setattr(x, "<attr>", value) / x.__dict__["<attr>"] = … is an assignment too
        if isinstance(node.func, ast.Name) and node.func.id == "setattr" and len(node.args) == 3 and \
                isinstance(node.args[1], ast.Constant) and node.args[1].value == self.attr:
            self.found.append((".".join(self.stack), node.lineno, ast.unparse(node.args[0]), node.args[2], node))
        self.generic_visit(node)


def find_def(tree, *path):
    node = tree
    for name in path:
        for ch in node.body:
            if isinstance(ch, (ast.ClassDef, ast.FunctionDef)) and ch.name == name:
                node = ch
                break
        else:
            raise TranslationError(f"cannot find {'.'.join(path)} in the source")
    return node


def body_without_docstring(fn):
    b = fn.body
    if b and isinstance(b[0], ast.Expr) and isinstance(b[0].value, ast.Constant) and isinstance(b[0].value.value, str):
        return b[1:]
    return b


def is_call(node, text_prefix):
    return isinstance(node, ast.Expr) and isinstance(node.value, ast.Call) and ast.unparse(node.value.func) == text_prefix


HARMLESS_SELF_ATTRS = ("_target_language",)


def mentions_collections(node):
    src = ast.unparse(node)
    return any(x in src for x in ("self.globals", "self.filters", "self.tests", "_add_to_environment", "_add_each_to_environment",
                                  "_add_conventional", "add_conventional_methods", FLAG))


def translate_user_globals(node):
    """`if additional_globals is not None: for name, value in additional_globals.items(): …` -> (reservedCheck, checked)."""
    if len(node.body) != 1 or not isinstance(node.body[0], ast.For) or node.orelse:
        raise TranslationError(f"line {node.lineno}: unexpected shape of the additional_globals block")
    loop = node.body[0]
    if ast.unparse(loop.iter) != "additional_globals.items()" or not isinstance(loop.target, ast.Tuple) or len(loop.target.elts) != 2:
        raise TranslationError(f"line {loop.lineno}: unexpected loop over additional_globals")
    name_var, value_var = (ast.unparse(e) for e in loop.target.elts)
    reserved_check, checked, seen_add = False, None, False
    for st in loop.body:
        src = ast.unparse(st)
        if isinstance(st, ast.If) and not st.orelse and len(st.body) == 1 and isinstance(st.body[0], ast.Raise):
            t = ast.unparse(st.test)
            if t == f"{name_var} in self.RESERVED_GLOBAL_NAMESPACES or {name_var} in self.RESERVED_GLOBAL_NAMES" and not seen_add:
                reserved_check = True
                continue
            raise TranslationError(f"line {st.lineno}: a raise in the additional_globals loop the model does not know: {t}")
        if src == f"self._add_to_environment({name_var}, {value_var}, self.globals)" and checked is None:
            checked, seen_add = True, True
            continue
        if src == f"self.globals[{name_var}] = {value_var}" and checked is None:
            checked, seen_add = False, True
            continue
        raise TranslationError(f"line {st.lineno}: statement in the additional_globals loop the model does not know: {src[:100]}")
    if checked is None:
        raise TranslationError(f"line {loop.lineno}: the additional_globals loop installs nothing")
    return ("userGlobals", reserved_check, checked)


def translate_language_support(fn):
    """`CodeGenEnvironment._update_language_support` -> steps."""
    steps = []
    for st in body_without_docstring(fn):
        src = ast.unparse(st)
        if src == "self.globals.update(target_language.get_globals())":
            steps.append(("langGlobals", True))
        elif isinstance(st, ast.For) and ast.unparse(st.iter).endswith("get_globals().items()") and len(st.body) == 1 and \
                ast.unparse(st.body[0]).startswith("self.globals.setdefault("):
            steps.append(("langGlobals", False))
        elif isinstance(st, ast.Assign) and all(isinstance(t, ast.Name) for t in st.targets):
            pass   # a local name (reads self.globals['ln'] / ['options'] at most; the objects are filled below)
        elif src == "globals_options_ns.update(target_language.get_options())":
            pass   # content of the `options` namespace object
        elif isinstance(st, ast.For) and "_add_support_from_language_module_to_environment" in src:
            steps.append(("langSupport",))
        elif isinstance(st, ast.For) and "self.globals" not in src and "_add_to_environment" not in src and "setattr(ln_globals" in src:
            pass   # content of the `ln` namespace object
        else:
            raise TranslationError(f"_update_language_support line {st.lineno}: statement the model does not know: {src[:100]}")
    return steps


def translate_ctor(cls):
    init = find_def(cls, "__init__")
    params = [a.arg for a in init.args.args]
    if CTOR_ARG not in params:
        raise TranslationError(f"CodeGenEnvironment.__init__ has no parameter {CTOR_ARG}")
    steps = []
    for st in body_without_docstring(init):
        src = ast.unparse(st)
        if is_call(st, "super().__init__"):
            steps.append(("jinjaDefaults",))
        elif isinstance(st, (ast.Assign, ast.AnnAssign)) and FLAG in src.split("=")[0]:
            value = st.value
            steps.append(("setAllow", allow_expr(value, {CTOR_ARG})))
        elif isinstance(st, ast.If) and ast.unparse(st.test) == "additional_globals is not None":
            steps.append(translate_user_globals(st))
        elif isinstance(st, ast.For) and ast.unparse(st.iter) == "self.RESERVED_GLOBAL_NAMESPACES" and len(st.body) == 1 and \
                ast.unparse(st.body[0]).startswith(f"self.globals[{ast.unparse(st.target)}] = "):
            steps.append(("reservedNamespaces",))
        elif isinstance(st, ast.Assign) and len(st.targets) == 1 and isinstance(st.targets[0], ast.Subscript) and \
                ast.unparse(st.targets[0].value) == "self.globals" and isinstance(st.targets[0].slice, ast.Constant):
            steps.append(("assignGlobal", st.targets[0].slice.value))
        elif is_call(st, "self._update_language_support"):
            steps += translate_language_support(find_def(cls, "_update_language_support"))
        elif is_call(st, "self.update_nunavut_globals"):
            steps.append(("nunavutNamespace",))
        elif is_call(st, "self.add_conventional_methods_to_environment") and ast.unparse(st.value.args[0]) == "self":
            steps.append(("ownMethods",))
        elif isinstance(st, ast.If) and ast.unparse(st.test) in ("additional_filters is not None", "additional_tests is not None") and not st.orelse \
                and len(st.body) == 1 and is_call(st.body[0], "self._add_each_to_environment"):
            which = "filters" if "filters" in ast.unparse(st.test) else "tests"
            call = st.body[0].value
            if ast.unparse(call.args[0]) != f"additional_{which}.items()" or ast.unparse(call.args[1]) != f"self.{which}":
                raise TranslationError(f"line {st.lineno}: additional_{which} are not added to self.{which}")
            steps.append(("userFilters",) if which == "filters" else ("userTests",))
        elif isinstance(st, ast.Assign) and all(isinstance(t, ast.Name) for t in st.targets) and not mentions_collections(st.value):
            pass
        elif isinstance(st, ast.Assign) and len(st.targets) == 1 and ast.unparse(st.targets[0]) in ["self." + a for a in HARMLESS_SELF_ATTRS] \
                and not mentions_collections(st.value):
            pass
        else:
            raise TranslationError(f"CodeGenEnvironment.__init__ line {st.lineno}: statement the model does not know: {src[:100]}")
    return steps


def translate_generator_init(cls_node, name):
    """What a generator's __init__ does after `super().__init__(…)`: steps, and the keyword arguments of the super call."""
    init = find_def(cls_node, "__init__")
    steps, super_kw = [], None
    for st in body_without_docstring(init):
        src = ast.unparse(st)
        if is_call(st, "super().__init__"):
            super_kw = {k.arg: ast.unparse(k.value) for k in st.value.keywords if k.arg}
        elif isinstance(st, ast.For) and "_create_all_dsdl_tests()" in ast.unparse(st.iter) and len(st.body) == 1 and \
                ast.unparse(st.body[0]).startswith("self._env.add_test("):
            steps.append(("instanceTests",))
        elif is_call(st, "self._env.add_conventional_methods_to_environment") and ast.unparse(st.value.args[0]) == "self":
            steps.append(("generatorMethods",))
        elif not mentions_collections(st) and "_env" not in src:
            pass   # kwargs.update(...), sub-folder bookkeeping
        else:
            raise TranslationError(f"{name}.__init__ line {st.lineno}: statement the model does not know: {src[:100]}")
    if super_kw is None:
        raise TranslationError(f"{name}.__init__ does not call super().__init__")
    return steps, super_kw


def collect_source():
    src = REPO / "src" / "nunavut"
    env_py = src / "jinja" / "environment.py"
    gen_py = src / "jinja" / "__init__.py"
    env_tree = ast.parse(env_py.read_text())
    gen_tree = ast.parse(gen_py.read_text())
    # ---- every assignment to the flag, anywhere -----------------------------------------------------------------------------
    assignments = []
    for f in sorted(src.rglob("*.py")):
        text = f.read_text(errors="replace")
        if FLAG not in text:
            continue
        sc = Scope(FLAG)
        sc.visit(ast.parse(text))
        for func, line, obj, value, _ in sc.found:
            in_ctor = f == env_py and func == "CodeGenEnvironment.__init__" and obj == "self"
            e = ("unknown", "<no value>") if value is None else allow_expr(value, {CTOR_ARG} if in_ctor else set())
            assignments.append({"file": str(f.relative_to(REPO)), "line": line, "func": func, "object": obj, "expr": e})
    if not assignments:
        raise TranslationError(f"no assignment to {FLAG} found: the model of _add_to_environment reads it")
    # reads of the flag
    reads = []
    for f in sorted(src.rglob("*.py")):
        text = f.read_text(errors="replace")
        if FLAG not in text:
            continue

        class R(Scope):
            def visit_Attribute(self, node):
                if node.attr == FLAG and isinstance(node.ctx, ast.Load):
                    reads.append({"file": str(f.relative_to(REPO)), "line": node.lineno, "func": ".".join(self.stack)})
                self.generic_visit(node)
        R(FLAG).visit(ast.parse(text))
    # ---- the builder's flag --------------------------------------------------------------------------------------------------
    builder = []
    sc = Scope(BUILDER_FLAG)
    sc.visit(env_tree)
    for func, line, obj, value, _ in sc.found:
        params = {CTOR_ARG} if func.endswith("set_allow_filter_test_or_use_query_overwrite") else set()
        builder.append({"file": str(env_py.relative_to(REPO)), "line": line, "func": func,
                        "expr": ("unknown", "<no value>") if value is None else allow_expr(value, params)})
    create = find_def(env_tree, "CodeGenEnvironmentBuilder", "create")
    handed = None
    for node in ast.walk(create):
        if isinstance(node, ast.Call) and ast.unparse(node.func) == "CodeGenEnvironment":
            for k in node.keywords:
                if k.arg == CTOR_ARG:
                    handed = allow_expr(k.value, set(), self_flag=BUILDER_FLAG)
    if handed is None:
        raise TranslationError("CodeGenEnvironmentBuilder.create does not hand the allow flag to CodeGenEnvironment by keyword")
    # ---- what the generators hand to the builder -----------------------------------------------------------------------------
    cg_init = find_def(gen_tree, "CodeGenerator", "__init__")
    gen_allow = ("const", False)
    for node in ast.walk(cg_init):
        if isinstance(node, ast.Call) and isinstance(node.func, ast.Attribute) and node.func.attr == "set_allow_filter_test_or_use_query_overwrite":
            gen_allow = allow_expr(node.args[0], set()) if node.args else ("unknown", "<no argument>")
    cg_default_policy = None
    for a, d in zip(reversed(cg_init.args.args), reversed(cg_init.args.defaults)):
        if a.arg == "search_policy":
            cg_default_policy = ast.unparse(d)
    # ---- the guard of _add_to_environment: may a name already present be replaced? ---------------------------------------------
    env_cls = find_def(env_tree, "CodeGenEnvironment")
    add_fn = find_def(env_cls, "_add_to_environment")
    guard, seen_membership = None, False
    for st in body_without_docstring(add_fn):
        if isinstance(st, ast.If) and ast.unparse(st.test) == "item_name in collection":
            seen_membership = True
            for inner in ast.walk(st):
                if isinstance(inner, ast.If) and inner is not st and inner.body and isinstance(inner.body[0], ast.Raise):
                    if guard is not None:
                        raise TranslationError("_add_to_environment raises in more than one place")
                    t = inner.test      # raises when `t` holds: replacement is allowed iff not t
                    guard = allow_expr(t.operand, set(), self_flag=FLAG) if isinstance(t, ast.UnaryOp) and isinstance(t.op, ast.Not) \
                        else ("not", allow_expr(t, set(), self_flag=FLAG))
        elif any(isinstance(n, ast.Raise) for n in ast.walk(st)):
            raise TranslationError(f"_add_to_environment line {st.lineno}: a raise outside the `item_name in collection` branch")
    if guard is None:
        guard = ("const", True)   # no raise (left): a name already present is always replaced
    if not seen_membership and guard != ("const", True):
        raise TranslationError("_add_to_environment: cannot find the `item_name in collection` branch")
    # ---- construction order ----------------------------------------------------------------------------------------------------
    ctor_steps = translate_ctor(env_cls)
    dsdl_steps, dsdl_kw = translate_generator_init(find_def(gen_tree, "DSDLCodeGenerator"), "DSDLCodeGenerator")
    sup_steps, sup_kw = translate_generator_init(find_def(gen_tree, "SupportGenerator"), "SupportGenerator")

    def policy(kw):
        p = kw.get("search_policy", cg_default_policy)
        if p not in ("ResourceSearchPolicy.FIND_FIRST", "ResourceSearchPolicy.FIND_ALL"):
            raise TranslationError(f"search policy {p!r} is not a constant the model knows")
        return p.split(".")[1]

    return {"assignments": assignments, "reads": reads, "builder": builder, "builder_hands_on": handed, "generator_allow": gen_allow, "add_guard": guard,
            "ctor_steps": ctor_steps, "dsdl_steps": dsdl_steps, "support_steps": sup_steps,
            "dsdl_policy": policy(dsdl_kw), "support_policy": policy(sup_kw)}


# ----------------------------------------------------------------------------------------------------------------------
# the finished environments, per target language
# ----------------------------------------------------------------------------------------------------------------------
def collect_environments():
    if str(REPO / "src") not in sys.path:
        sys.path.insert(0, str(REPO / "src"))
    import logging
    logging.disable(logging.INFO)
    import pydsdl
    import nunavut
    from nunavut.jinja import DSDLCodeGenerator
    from nunavut.lang import LanguageContextBuilder
    tmp = pathlib.Path(tempfile.mkdtemp(prefix="nv_envctor_"))
    out = {}
    try:
        (tmp / "vt").mkdir()
        (tmp / "vt" / "E.1.0.dsdl").write_text("@sealed\n")
        types = pydsdl.read_namespace(str(tmp / "vt"), [])
        enumerated = DSDLCodeGenerator._create_all_dsdl_tests()
        marker_code = {getattr(f, "__code__", None) for f in enumerated.values()}
        for lang in LANGUAGES:
            lctx = LanguageContextBuilder(include_experimental_languages=True).set_target_language(lang).create()
            ns = nunavut.build_namespace_tree(types, str(tmp / "vt"), str(tmp / "out"), lctx)
            env = DSDLCodeGenerator(ns)._env
            rows = []
            for name, fn in env.tests.items():
                if getattr(fn, "__code__", None) not in marker_code or getattr(fn, "__closure__", None) is None:
                    continue   # not an instance test
                cl = [c.cell_contents for c in fn.__closure__ if isinstance(c.cell_contents, type)]
                if len(cl) != 1:
                    raise TranslationError(f"{lang}: instance test {name!r}: cannot identify the class it closes over")
                rows.append((name, cl[0].__name__))
            out[lang] = sorted(rows)
    finally:
        shutil.rmtree(tmp, ignore_errors=True)
    return out


STEP_RENDER = {
    "jinjaDefaults": lambda s: ".jinjaDefaults",
    "setAllow": lambda s: f".setAllow {render_expr(s[1])}",
    "userGlobals": lambda s: f".userGlobals {'true' if s[1] else 'false'} {'true' if s[2] else 'false'}",
    "reservedNamespaces": lambda s: ".reservedNamespaces",
    "assignGlobal": lambda s: f".assignGlobal {_lit(s[1])}",
    "langGlobals": lambda s: f".langGlobals {'true' if s[1] else 'false'}",
    "langSupport": lambda s: ".langSupport",
    "nunavutNamespace": lambda s: ".nunavutNamespace",
    "ownMethods": lambda s: ".ownMethods",
    "userFilters": lambda s: ".userFilters",
    "userTests": lambda s: ".userTests",
    "instanceTests": lambda s: ".instanceTests",
    "generatorMethods": lambda s: ".generatorMethods",
}


def render(d) -> str:
    o = []
    o.append("/-")
    o.append("GENERATED by /verif/translate/env_ctor.py from $VERIF_REPO/src (Python ast) and the running environments — do not edit.")
    o.append("Regenerated on every run of `./check C16`; rewritten only when the content changes.")
    o.append("-/")
    o.append("namespace NunavutVerif.Gen.EnvCtor")
    o.append("")
    o.append("/-- What a boolean flag is assigned from, over the inputs it may read. -/")
    o.append("inductive AllowExpr")
    o.append("  | ctorArg                                         -- the argument `allow_filter_test_or_use_query_overwrite`")
    o.append("  | const (b : Bool)")
    o.append("  | or (a b : AllowExpr)")
    o.append("  | and (a b : AllowExpr)")
    o.append("  | not (a : AllowExpr)")
    o.append("  | loaderAttr (name : List Char) (dflt : Bool)     -- `getattr(loader, name, dflt)`")
    o.append("  | unknown (src : List Char)                        -- anything else (source text)")
    o.append("deriving DecidableEq, Repr")
    o.append("")
    o.append("/-- One statement of the construction, in source order. -/")
    o.append("inductive Step")
    o.append("  | jinjaDefaults                                   -- `super().__init__(…)`: Jinja's default filters, tests, globals")
    o.append("  | setAllow (e : AllowExpr)                        -- `self._allow_replacements = e`")
    o.append("  | userGlobals (reservedCheck checked : Bool)      -- the `additional_globals` loop: reserved names raise; `_add_to_environment` or plain assignment")
    o.append("  | reservedNamespaces                              -- `self.globals[ns] = LanguageTemplateNamespace()` for the reserved namespaces")
    o.append("  | assignGlobal (n : List Char)                    -- `self.globals[\"n\"] = …`")
    o.append("  | langGlobals (overwrite : Bool)                  -- target language globals: `update` (true) / `setdefault` (false)")
    o.append("  | langSupport                                     -- filters and tests of every supported language module, through `_add_to_environment`")
    o.append("  | nunavutNamespace                                -- `update_nunavut_globals()`: attributes of the `nunavut` namespace object only")
    o.append("  | ownMethods                                      -- `add_conventional_methods_to_environment(self)`")
    o.append("  | userFilters | userTests                         -- `_add_each_to_environment(additional_….items(), self.…)`")
    o.append("  | instanceTests                                   -- generator: `self._env.add_test(...)` for `_create_all_dsdl_tests()`")
    o.append("  | generatorMethods                                -- generator: `self._env.add_conventional_methods_to_environment(self)`")
    o.append("deriving DecidableEq, Repr")
    o.append("")
    o.append("structure Located where")
    o.append("  file : String")
    o.append("  line : Nat")
    o.append("  func : String")
    o.append("deriving DecidableEq, Repr")
    o.append("")
    o.append(f"/-- EVERY assignment to `{FLAG}` under src/nunavut. -/")
    o.append("def allowAssignments : List (Located × AllowExpr) := [")
    o.append(",\n".join(f"  (⟨{_str(a['file'])}, {a['line']}, {_str(a['func'])}⟩, {render_expr(a['expr'])})" for a in d["assignments"]))
    o.append("]")
    o.append("")
    o.append(f"/-- The functions that READ `{FLAG}`. -/")
    o.append("def allowReaders : List String := " + "[" + ", ".join(_str(x) for x in sorted({r["func"] for r in d["reads"]})) + "]")
    o.append("")
    inputs = []
    for a in d["assignments"]:
        expr_inputs(a["expr"], inputs)
    o.append(f"/-- The inputs the right-hand sides above mention (`loader.<attr>`: an attribute of the loader; `?…`: not understood). -/")
    o.append("def allowInputs : List String := [" + ", ".join(_str(x) for x in sorted(set(inputs))) + "]")
    o.append("")
    o.append("/-- `_add_to_environment`: a name already present may be replaced iff this holds (`.ctorArg` here = the flag `_allow_replacements`);")
    o.append("otherwise RuntimeError. -/")
    o.append(f"def addGuard : AllowExpr := {render_expr(d['add_guard'])}")
    o.append("")
    o.append(f"/-- Assignments to the builder's `{BUILDER_FLAG}` (`.ctorArg` = the setter's parameter). -/")
    o.append("def builderFlagAssignments : List (Located × AllowExpr) := [")
    o.append(",\n".join(f"  (⟨{_str(a['file'])}, {a['line']}, {_str(a['func'])}⟩, {render_expr(a['expr'])})" for a in d["builder"]))
    o.append("]")
    o.append("")
    o.append("/-- What `CodeGenEnvironmentBuilder.create()` passes as the constructor argument (`.ctorArg` = the builder's own flag). -/")
    o.append(f"def builderHandsOn : AllowExpr := {render_expr(d['builder_hands_on'])}")
    o.append("")
    o.append("/-- What `CodeGenerator.__init__` sets on the builder (`.const false` = it never calls the setter). -/")
    o.append(f"def generatorAllow : AllowExpr := {render_expr(d['generator_allow'])}")
    o.append("")
    o.append("/-- `CodeGenEnvironment.__init__`, `_update_language_support` inlined. -/")
    o.append("def ctorSteps : List Step := [")
    o.append(",\n".join("  " + STEP_RENDER[s[0]](s) for s in d["ctor_steps"]))
    o.append("]")
    o.append("")
    o.append("/-- `DSDLCodeGenerator.__init__` after `super().__init__` (the environment exists). -/")
    o.append("def dsdlGeneratorSteps : List Step := [" + ", ".join(STEP_RENDER[s[0]](s) for s in d["dsdl_steps"]) + "]")
    o.append("")
    o.append("/-- `SupportGenerator.__init__` after `super().__init__`. -/")
    o.append("def supportGeneratorSteps : List Step := [" + ", ".join(STEP_RENDER[s[0]](s) for s in d["support_steps"]) + "]")
    o.append("")
    o.append("/-- The search policy the generators hand to `DSDLTemplateLoader` (`true` = FIND_FIRST). -/")
    o.append(f"def dsdlGeneratorFindFirst : Bool := {'true' if d['dsdl_policy'] == 'FIND_FIRST' else 'false'}")
    o.append(f"def supportGeneratorFindFirst : Bool := {'true' if d['support_policy'] == 'FIND_FIRST' else 'false'}")
    o.append("")
    o.append("/-- Per target language: `(test name, class the closure tests against)` of the instance tests in the FINISHED environment of a")
    o.append("real `DSDLCodeGenerator`, sorted. -/")
    o.append("def envInstanceTests : List (List Char × List (List Char × List Char)) := [")
    rows = []
    for lang in LANGUAGES:
        rows.append(f"  ({_lit(lang)}, [\n" + ",\n".join(f"    ({_lit(a)}, {_lit(b)})" for a, b in d["env_tests"][lang]) + "])")
    o.append(",\n".join(rows))
    o.append("]")
    o.append("")
    o.append("end NunavutVerif.Gen.EnvCtor")
    return "\n".join(o) + "\n"


def collect():
    d = collect_source()
    d["env_tests"] = collect_environments()
    return d


def run() -> dict:
    d = collect()
    text = render(d)
    OUT.parent.mkdir(parents=True, exist_ok=True)
    if not OUT.exists() or OUT.read_text() != text:
        OUT.write_text(text)
        d["_rewritten"] = True
    else:
        d["_rewritten"] = False
    return d


if __name__ == "__main__":
    r = run()
    print(f"{OUT}: {len(r['assignments'])} assignment(s) to {FLAG}, {len(r['ctor_steps'])} constructor steps, rewritten={r['_rewritten']}")
