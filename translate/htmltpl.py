"""
C20 translator: the HTML templates of $VERIF_REPO, abstracted to the mini template language of
`lean/NunavutVerif/Model/Html.lean`, regenerated from the working tree on every run.

  python translate/htmltpl.py [--json FILE] [--print]     (run under /venv/bin/python)

What it does
  * builds the REAL html code-generation environment (LanguageContextBuilder -> DSDLCodeGenerator -> its
    CodeGenEnvironment): the real loader search path, the real Jinja extension list, the real `autoescape`
    setting (a bool or the callable made by `select_autoescape`), the real template-resolution filter;
  * the root templates are what `filter_type_to_template` answers for a Namespace and every kind of composite type;
  * parses every reachable template with the BUNDLED Jinja parser (`env.parse`), follows `include` / `from import`;
  * walks the AST in document order with an HTML lexer that keeps its state across `{{ }}` holes
    (data / inside a tag / inside a quoted attribute value / inside a raw-text element / comment) and produces
      - a term  eps | tok(open/close/void tag) | chars | snip | unsafe | seq | alt | star | call macro
      - a table of all expression leaves: (template, line, expression, origin, context, escaped?, why)
      - the table of href= / id= attribute values as lists of literal / expression parts
      - the argument bindings of every macro parameter (for the link prefix);
  * `escaped?` follows the real rule: the autoescape answer for the name of the template that *defines* the
    output (macros are compiled with their defining template), unless the value is Markup (macro call results,
    `|safe`, filters that are probed to return Markup), or an explicit `|e` / `|escape`.

Anything that cannot be classified raises `Untranslatable` (the tie is broken, nothing is skipped silently).
"""
import argparse
import json
import os
import pathlib
import sys
import tempfile

VERIF = pathlib.Path(__file__).resolve().parent.parent
REPO = pathlib.Path(os.environ.get("VERIF_REPO", "/repo")).resolve()
if str(REPO / "src") not in sys.path:
    sys.path.insert(0, str(REPO / "src"))
OUT = VERIF / "lean" / "NunavutVerif" / "Gen" / "HtmlTpl.lean"
OUT_REFS = VERIF / "lean" / "NunavutVerif" / "Gen" / "HtmlRefs.lean"

VOID = {"area", "base", "br", "col", "embed", "hr", "img", "input", "link", "meta", "param", "source", "track", "wbr"}
RAWTEXT = {"script", "style"}
# attributes whose value is a URL (an expression placed there is in URL context)
URL_ATTRS = {"href", "src", "action", "formaction", "poster", "cite", "data", "srcset", "xlink:href", "background", "manifest", "ping"}
# attributes that define an anchor or refer to one (collected into the reference inventory)
REF_ATTRS = {"id", "for", "data-target", "data-bs-target", "data-parent", "data-bs-parent", "aria-controls", "aria-labelledby",
             "aria-describedby", "aria-owns", "aria-activedescendant", "list", "form", "headers", "usemap"} | URL_ATTRS


class Untranslatable(Exception):
    pass


# ----------------------------------------------------------------------------------------------------------------
# the real environment
# ----------------------------------------------------------------------------------------------------------------
PROBE_NS = {
    "probe/S.1.0.dsdl": "# d\nuint8 a\nprobe.sub.D.1.0[<=2] ds\nprobe.sub.U.1.0[2] us\n@sealed\n",
    "probe/sub/D.1.0.dsdl": "uint8 X = 1\nfloat32 g\nvoid3\n@extent 64\n",
    "probe/sub/U.1.0.dsdl": "@union\nuint8 a\ntruncated uint16 b\n@sealed\n",
    "probe/sub/V.1.0.dsdl": "uint8 a\n@sealed\n---\nuint8 r\n@sealed\n",
}


# option variations of the html target under which the escaping decision must not change
VARIANTS = [
    ("default", {}),
    ("ext=.xhtml", {"extension": ".xhtml"}),
    ("ext=.txt", {"extension": ".txt"}),
    ("ext=.HTML", {"extension": ".HTML"}),
    ("ext=.htm", {"extension": ".htm"}),
    ("ext=.php", {"extension": ".php"}),
    ("ext=(empty)", {"extension": ""}),
    ("stem=Overview", {"stem": "Overview"}),
    ("ext=.xhtml,stem=toc", {"extension": ".xhtml", "stem": "toc"}),
    ("config:extension=.shtml", {"config": "nunavut.lang.html:\n  extension: .shtml\n"}),
    ("config:stem=main", {"config": "nunavut.lang.html:\n  namespace_file_stem: main\n"}),
]
PROBE_NAMES = ["Namespace.j2", "type_info.j2", "namespace_info.j2", "type_base.j2", "sidebar.j2", "custom.j2", None]


def language_context(language="html", extension=None, stem=None, config=None, tmp=None):
    from nunavut.lang import LanguageContextBuilder, Language
    b = LanguageContextBuilder(include_experimental_languages=True).set_target_language(language)
    if extension is not None:
        b.set_target_language_extension(extension)
    if stem is not None:
        b.set_target_language_configuration_override(Language.WKCV_NAMESPACE_FILE_STEM, stem)
    if config is not None:
        cf = pathlib.Path(tmp) / ("cfg_%d.yaml" % (abs(hash(config)) % 10**8))
        cf.write_text(config)
        b.add_config_files(cf)
    return b.create()


def real_environment(tmp: pathlib.Path, language="html", **opts):
    """-> (generator, env, namespace, type_map) for a probe namespace, built the way nunavut.generate_types does."""
    from nunavut._generators import create_default_generators
    from nunavut import build_namespace_tree
    from pydsdl import read_namespace
    for rel, text in PROBE_NS.items():
        p = tmp / rel
        p.parent.mkdir(parents=True, exist_ok=True)
        p.write_text(text)
    lctx = language_context(language, tmp=tmp, **opts)
    type_map = read_namespace(str(tmp / "probe"), [])
    ns = build_namespace_tree(type_map, str(tmp / "probe"), str(tmp / "out"), lctx)
    gen, _ = create_default_generators(ns)
    return gen, gen._env, ns, type_map  # pylint: disable=protected-access


def escaping_decisions(tmp: pathlib.Path):
    """The REAL autoescape answer of the environment built for each option variation of the html target (and, as a
    control of the file-name rule, of the c target): rows (language, variant, template name or None, answer)."""
    rows = []
    for vname, opts in VARIANTS:
        try:
            _g, env, _n, _t = real_environment(tmp, "html", **opts)
        except Exception as e:  # an option combination the tree rejects is not a rendering environment
            rows.append(("html", vname + " [rejected: %s]" % type(e).__name__, None, None))
            continue
        for n in PROBE_NAMES:
            rows.append(("html", vname, n, autoescape_of(env, n)))
    _g, env, _n, _t = real_environment(tmp, "c")
    for n in ["a.j2", "page.html", "x.XML", "d.json", "e.htm", "f.txt", None]:
        rows.append(("c", "default", n, autoescape_of(env, n)))
    return rows


def autoescape_of(env, name):
    a = env.autoescape
    return bool(a(name)) if callable(a) else bool(a)


def probe_filter_markup(env, ns, type_map):
    """Which filters return Markup (a value with __html__) on real objects — those are exempt from autoescaping."""
    from nunavut.lang._common import UniqueNameGenerator
    import pydsdl
    res = {}
    comp = [t for t in type_map if isinstance(t, pydsdl.StructureType)][0]
    samples = []
    for t in type_map:
        if isinstance(t, pydsdl.ServiceType):
            continue
        samples.append(t)
        for a in t.attributes:
            samples.append(a)
            samples.append(a.data_type)
    for fname in ("display_type", "tag_id", "url_from_type", "namespace_doc", "extent", "max_bit_length", "make_unique"):
        f = env.filters[fname]
        outs = []
        if fname == "make_unique":
            UniqueNameGenerator.reset()
            outs = [f(None, "a<b"), f(None, "Xy")]
        elif fname == "namespace_doc":
            outs = [f(ns)]
        else:
            for s in samples:
                try:
                    outs.append(f(s))
                except Exception:  # filter not applicable to this object kind
                    pass
        if not outs:
            raise Untranslatable(f"filter {fname}: no probe produced a value")
        kinds = {hasattr(o, "__html__") for o in outs}
        if len(kinds) != 1:
            raise Untranslatable(f"filter {fname}: returns Markup for some inputs only")
        res[fname] = kinds.pop()
    del comp
    return res


# ----------------------------------------------------------------------------------------------------------------
# expression classification
# ----------------------------------------------------------------------------------------------------------------
# string-like origins, ordered by how free the text is (join = max)
RANK = {"const": 0, "number": 1, "ident": 2, "name": 3, "url": 4, "doc": 5}
ATTR_KIND = {
    # attribute of a DSDL object -> kind of the value
    "doc": "doc",
    "full_name": "name", "short_name": "name", "full_namespace": "name", "name": "name", "root_namespace": "name",
    "version": "number", "fixed_port_id": "number", "capacity": "number", "has_fixed_port_id": "number",
    "data_type": "obj", "element_type": "obj", "attributes": "obj", "fields": "obj", "constants": "obj",
    "request_type": "obj", "response_type": "obj", "value": "number",
}
FILTER_KIND = {
    "tag_id": "ident", "url_from_type": "url", "namespace_doc": "doc", "extent": "number", "max_bit_length": "number",
    "length": "number", "count": "number", "natural_sort_type": "obj", "natural_sort_namespace": "obj",
    "make_unique": "ident", "display_type": "markup",
}


class Val:
    """Abstract value: kind in RANK | 'obj' | 'markup' | 'macro' ; markup=True when the runtime value is Markup."""

    def __init__(self, kind, canon, markup=False, pre=False, explicit_e=False):
        self.kind, self.canon, self.markup, self.pre, self.explicit_e = kind, canon, markup, pre, explicit_e

    def key(self):
        return (self.kind, self.canon, self.markup, self.pre, self.explicit_e)


def join_kinds(ks):
    ks = set(ks)
    if ks <= set(RANK):
        return max(ks, key=lambda k: RANK[k])
    if len(ks) == 1:
        return ks.pop()
    if ks <= {"obj", "name"}:  # str(obj) is a name
        return "name"
    raise Untranslatable(f"cannot join value kinds {sorted(ks)}")


def unparse(n):
    from nunavut.jinja.jinja2 import nodes as N
    if isinstance(n, N.Const):
        return json.dumps(n.value) if isinstance(n.value, str) else repr(n.value)
    if isinstance(n, N.Name):
        return n.name
    if isinstance(n, N.Getattr):
        return f"{unparse(n.node)}.{n.attr}"
    if isinstance(n, N.Getitem):
        return f"{unparse(n.node)}[{unparse(n.arg)}]"
    if isinstance(n, N.Filter):
        args = ",".join(unparse(a) for a in n.args)
        return f"{unparse(n.node)}|{n.name}" + (f"({args})" if args else "")
    if isinstance(n, N.Call):
        args = [unparse(a) for a in n.args] + [f"{k.key}={unparse(k.value)}" for k in n.kwargs]
        return f"{unparse(n.node)}({','.join(args)})"
    if isinstance(n, N.CondExpr):
        return f"({unparse(n.expr1)} if {unparse(n.test)} else {unparse(n.expr2) if n.expr2 is not None else 'undefined'})"
    if isinstance(n, N.Test):
        return f"{unparse(n.node)} is {n.name}"
    if isinstance(n, N.Not):
        return f"not {unparse(n.node)}"
    if isinstance(n, N.BinExpr):
        return f"({unparse(n.left)} {n.operator} {unparse(n.right)})"
    if isinstance(n, N.Compare):
        return unparse(n.expr) + "".join(f" {o.op} {unparse(o.expr)}" for o in n.ops)
    if isinstance(n, N.Tuple):
        return "(" + ",".join(unparse(i) for i in n.items) + ")"
    raise Untranslatable(f"cannot print expression node {type(n).__name__} (line {getattr(n, 'lineno', '?')})")


# ----------------------------------------------------------------------------------------------------------------
# HTML lexer with holes
# ----------------------------------------------------------------------------------------------------------------
class HLex:
    """Lexer state: mode in data|tagname|endtag|tag|attrname|afterattr|beforeval|attrdq|attrsq|raw|comment|decl."""

    def __init__(self, where):
        self.mode = "data"
        self.tag = ""        # current tag name (tag modes) or raw-text element name (raw)
        self.attr = ""       # current attribute name
        self.val = None      # parts of the current attribute value: list of ("lit", s) / ("ex", canon)
        self.attrs = None    # attributes of the current tag: list of (name, parts)
        self.rawbuf = ""     # constant text of the raw-text element so far (for the JS-string scan)
        self.holes = None    # leaves seen in the current tag
        self.where = where
        self.closing = False
        self.selfclose = False
        self.quotes = None   # quoting of each attribute of the current tag: "dq" | "sq" | "bare" (no value)
        self.rawall = ""     # whole text of the raw-text element, expression holes written as \u27e6canon\u27e7
        self.rawtpls = set() # templates that contributed text to the current raw-text element

    def snapshot(self):
        return (self.mode, self.tag if self.mode != "data" else "")

    def err(self, msg):
        raise Untranslatable(f"{self.where()}: HTML lexer: {msg}")

    def _finish_tag(self, out):
        name = self.tag.lower()
        if self.closing:
            if self.attrs:
                self.err(f"attributes on end tag </{name}>")
            if name in VOID:
                self.err(f"end tag for void element </{name}>")
            out.append(("close", name))
            self.mode = "data"
        else:
            unsafe = [h for h in self.holes if h["unsafe"]]
            if name in VOID or self.selfclose:
                if self.selfclose and name not in VOID:
                    self.err(f"self-closing non-void <{name}/>")
                out.append(("void", name, self.attrs, self.quotes, self.selfclose))
                self.mode = "data"
            else:
                out.append(("open", name, self.attrs, self.quotes, False))
                if name in RAWTEXT:
                    self.mode, self.rawbuf, self.rawall = "raw", "", ""
                    self.tag = name
                else:
                    self.mode = "data"
            if unsafe:
                out.append(("unsafe", unsafe[0]["id"]))
        if self.mode == "data":
            self.tag = ""
        self.attrs, self.holes, self.closing, self.selfclose, self.quotes = None, None, False, False, None

    def text(self, s, out):
        i, n = 0, len(s)
        while i < n:
            c = s[i]
            m = self.mode
            if m == "data":
                j = s.find("<", i)
                if j < 0:
                    if s[i:].strip():
                        out.append(("text",))
                    if "&" in s[i:]:
                        self._check_amp(s[i:])
                    i = n
                    continue
                if s[i:j].strip():
                    out.append(("text",))
                self._check_amp(s[i:j])
                rest = s[j:]
                if rest.startswith("<!--"):
                    k = rest.find("-->", 4)
                    if k < 0:
                        self.err("comment not closed inside one template-data chunk")
                    out.append(("comment",))
                    i = j + k + 3
                elif rest[:2] == "<!":
                    k = rest.find(">")
                    if k < 0:
                        self.err("declaration not closed inside one template-data chunk")
                    out.append(("decl", rest[:k + 1]))
                    i = j + k + 1
                elif rest[:2] == "</" and len(rest) > 2 and rest[2].isalpha():
                    self.mode, self.tag, self.closing, self.attrs, self.holes, self.quotes = "tagname", "", True, [], [], []
                    i = j + 2
                elif len(rest) > 1 and rest[1].isalpha():
                    self.mode, self.tag, self.closing, self.attrs, self.holes, self.quotes = "tagname", "", False, [], [], []
                    i = j + 1
                else:
                    self.err(f"stray '<' in template text: {rest[:20]!r}")
            elif m == "tagname":
                if c.isalnum() or c in "-_:":
                    self.tag += c
                    i += 1
                else:
                    self.mode = "tag"
            elif m == "tag":
                if c.isspace():
                    i += 1
                elif c == ">":
                    i += 1
                    self._finish_tag(out)
                elif c == "/":
                    if s[i:i + 2] != "/>":
                        self.err("'/' inside a tag")
                    self.selfclose = True
                    i += 1
                elif c in "\"'<=":
                    self.err(f"unexpected {c!r} inside <{self.tag} ...>")
                else:
                    self.mode, self.attr = "attrname", ""
            elif m == "attrname":
                if c.isspace() or c in "/>":
                    self.attrs.append((self.attr.lower(), None))
                    self.quotes.append("bare")
                    self.mode = "tag"
                elif c == "=":
                    self.mode = "beforeval"
                    i += 1
                elif c in "\"'<":
                    self.err(f"unexpected {c!r} in attribute name")
                else:
                    self.attr += c
                    i += 1
            elif m == "beforeval":
                if c == '"':
                    self.mode, self.val = "attrdq", []
                    i += 1
                elif c == "'":
                    self.mode, self.val = "attrsq", []
                    i += 1
                else:
                    self.err(f"unquoted attribute value for {self.attr!r} in <{self.tag}>")
            elif m in ("attrdq", "attrsq"):
                q = '"' if m == "attrdq" else "'"
                j = s.find(q, i)
                if j < 0:
                    self._lit(s[i:])
                    i = n
                else:
                    self._lit(s[i:j])
                    self.attrs.append((self.attr.lower(), self.val))
                    self.quotes.append("dq" if m == "attrdq" else "sq")
                    self.val = None
                    self.mode = "tag"
                    i = j + 1
            elif m == "raw":
                low = s.lower()
                j = low.find("</" + self.tag, i)
                if j < 0:
                    self.rawbuf += s[i:]
                    self.rawall += s[i:]
                    if s[i:].strip():
                        self.rawtpls.add(self.where().rsplit(":", 1)[0])
                    i = n
                else:
                    k = s.find(">", j)
                    if k < 0 or s[j + 2 + len(self.tag):k].strip():
                        self.err(f"malformed </{self.tag}> in template text")
                    self.rawall += s[i:j]
                    if s[i:j].strip():
                        self.rawtpls.add(self.where().rsplit(":", 1)[0])
                    out.append(("rawtext", self.tag, self.rawall, sorted(self.rawtpls)))
                    self.rawbuf, self.rawall, self.rawtpls = "", "", set()
                    out.append(("close", self.tag))
                    self.mode, self.tag = "data", ""
                    i = k + 1
            else:
                self.err(f"internal: mode {m}")

    def _check_amp(self, s):
        import re
        for m in re.finditer(r"&", s):
            mm = re.match(r"&(#[0-9]+|#[xX][0-9a-fA-F]+|[A-Za-z][A-Za-z0-9]*);", s[m.start():])
            if not mm:
                self.err(f"bare '&' in template text: {s[m.start():m.start() + 20]!r}")
            if self.charrefs is not None:
                self.charrefs.append(("data", mm.group(0)))

    charrefs = None   # set by the translator: list collecting (where, text) of every '&' of the constant template text

    def _lit(self, s):
        if not s:
            return
        import re
        for m in re.finditer(r"&[A-Za-z0-9#]*;?", s):
            if self.charrefs is not None:
                self.charrefs.append((f"{self.tag}@{self.attr}", m.group(0) + s[m.end():m.end() + 1]))
        if self.val and self.val[-1][0] == "lit":
            self.val[-1] = ("lit", self.val[-1][1] + s)
        else:
            self.val.append(("lit", s))

    def hole_context(self):
        """Context of an expression placed at the current lexer position -> (ctx, detail)."""
        m = self.mode
        if m == "data":
            return "data", ""
        if m in ("attrdq", "attrsq"):
            lit = "".join(p[1] for p in self.val if p[0] == "lit")
            if self.attr.lower().startswith("on"):
                jsq = js_string_state(lit)
                if jsq is None:
                    self.err(f"expression in event-handler attribute {self.attr!r} outside a JS string literal")
                return "attrJs", f"{self.tag}@{self.attr} in JS {jsq}-string"
            if self.attr.lower() in URL_ATTRS:
                return "attrUrl", f"{self.tag}@{self.attr} after {lit!r}"
            return ("attrDq" if m == "attrdq" else "attrSq"), f"{self.tag}@{self.attr}"
        if m == "raw":
            if self.tag == "script":
                jsq = js_string_state(self.rawbuf)
                if jsq is None:
                    self.err("expression inside <script> outside a JS string literal")
                return "script", f"in JS {jsq}-string"
            return "style", ""
        self.err(f"expression in lexer mode {m!r} (tag <{self.tag}>) cannot be classified")
        return None

    def hole(self, leaf, out):
        m = self.mode
        if m == "data":
            return
        if m in ("attrdq", "attrsq"):
            self.val.append(("ex", leaf["canon"]))
            self.holes.append(leaf)
            return
        if m == "raw":
            self.rawbuf += "x"
            self.rawall += "\u27e6" + leaf["canon"] + "\u27e7"
            if leaf["unsafe"]:
                out.append(("unsafe", leaf["id"]))
            return
        self.err(f"expression in lexer mode {m!r}")


def js_string_state(src):
    """Scan JS source text; return the quote char if the end is inside a '...' or "..." literal, else None."""
    i, n, st = 0, len(src), None
    while i < n:
        c = src[i]
        if st is None:
            if src.startswith("//", i):
                j = src.find("\n", i)
                i = n if j < 0 else j
                continue
            if src.startswith("/*", i):
                j = src.find("*/", i + 2)
                if j < 0:
                    return None
                i = j + 2
                continue
            if c in "\"'":
                st = c
            elif c == "`":
                raise Untranslatable("template literal in inline script: JS context scan not supported")
        else:
            if c == "\\":
                i += 2
                continue
            if c == st:
                st = None
            elif c == "\n":
                st = None
        i += 1
    return st


# ----------------------------------------------------------------------------------------------------------------
# the walk
# ----------------------------------------------------------------------------------------------------------------
class _Sink:
    """Collector handed to the lexer: every '&' of the constant text, tagged with the scope being walked."""

    def __init__(self, tr, tpl):
        self.tr, self.tpl = tr, tpl

    def append(self, item):
        self.tr.charrefs.append({"scope": self.tr.scope, "tpl": self.tr.cur[0], "where": item[0], "text": item[1]})


class Translator:
    def __init__(self, gen, env, ns, type_map, variant_envs=()):
        from nunavut.jinja.jinja2 import nodes
        self.variant_envs = list(variant_envs)
        self.N = nodes
        self.gen, self.env = gen, env
        self.filter_markup = probe_filter_markup(env, ns, type_map)
        self.asts = {}
        self.autoescape = {}
        self.leaves = []
        self.macros = {}        # (template, name) -> dict(node, params, defaults, tpl)
        self.macro_ids = {}     # (template, name) -> index
        self.macro_terms = {}
        self.param_vals = {}    # (macrokey, param) -> list of Val alternatives (fixpoint)
        self.bindings = {}      # (macrokey, param) -> set of canon strings
        self.hrefs, self.ids = [], []
        # the reference inventory and the facts about the constant markup (round 2)
        self.refs = []          # every id / reference / URL / event-handler attribute: scope, tag, attr, guards, parts
        self.tagfacts = []      # every tag of the constant template text: scope, kind, name, [(attribute, quoting)]
        self.charrefs = []      # every '&' of the constant template text: (scope, where, text)
        self.rawtexts = []      # every raw-text element: (scope, tag, text with holes)
        self.decls = []         # every <!…> declaration: (scope, text)
        self.scope = "?"
        self.changed = False
        self.uncalled = []
        self.guards = []        # tests of the enclosing if-branches (canonical text; "else" for an else branch)
        self.cur = ("?", 0)

    # -- loading ---------------------------------------------------------------------------------------------------
    def load(self, name):
        if name not in self.asts:
            src, _fn, _ = self.env.loader.get_source(self.env, name)
            self.asts[name] = self.env.parse(src, name)
            # the escaping decision must hold under every option variation of the html target
            self.autoescape[name] = all(autoescape_of(e, name) for e in [self.env] + self.variant_envs)
            for m in self.asts[name].find_all(self.N.Macro):
                key = (name, m.name)
                self.macros[key] = m
                self.macro_ids.setdefault(key, len(self.macro_ids))
        return self.asts[name]

    def where(self):
        return f"{self.cur[0]}:{self.cur[1]}"

    # -- expressions -----------------------------------------------------------------------------------------------
    def classify(self, e, sc):
        """-> list of Val alternatives."""
        N = self.N
        self.cur = (self.cur[0], getattr(e, "lineno", self.cur[1]))
        if isinstance(e, N.Const):
            if isinstance(e.value, str):
                return [Val("const", unparse(e))]
            return [Val("number", unparse(e))]
        if isinstance(e, N.Name):
            if e.name in sc["vars"]:
                return sc["vars"][e.name]
            if e.name in sc["macros"]:
                return [Val("macroref", e.name)]
            raise Untranslatable(f"{self.where()}: free name {e.name!r}")
        if isinstance(e, N.CondExpr):
            alts = self.classify(e.expr1, sc) + (self.classify(e.expr2, sc) if e.expr2 is not None else [])
            return self.dedup(alts)
        if isinstance(e, N.Getattr):
            base = self.classify(e.node, sc)
            if any(b.kind != "obj" for b in base):
                raise Untranslatable(f"{self.where()}: attribute {e.attr!r} of a non-object value {unparse(e.node)}")
            if e.attr not in ATTR_KIND:
                raise Untranslatable(f"{self.where()}: unknown DSDL attribute .{e.attr}")
            return [Val(ATTR_KIND[e.attr], unparse(e))]
        if isinstance(e, N.Getitem):
            base = self.classify(e.node, sc)
            k = join_kinds(b.kind for b in base)
            if k not in ("number", "obj"):
                raise Untranslatable(f"{self.where()}: subscript of {k}")
            return [Val(k, unparse(e))]
        if isinstance(e, N.Filter):
            if e.name in ("e", "escape"):
                return [Val(b.kind, b.canon, b.markup, b.pre, True) for b in self.classify(e.node, sc)]
            if e.name == "safe":
                return [Val(b.kind, b.canon + "|safe", True, b.pre, b.explicit_e) for b in self.classify(e.node, sc)]
            if e.name not in FILTER_KIND:
                raise Untranslatable(f"{self.where()}: unknown filter |{e.name}")
            base = self.classify(e.node, sc)
            kind = FILTER_KIND[e.name]
            canon = "|".join([base[0].canon if len(base) == 1 else "(" + " / ".join(b.canon for b in base) + ")", e.name])
            markup = self.filter_markup.get(e.name, False)
            if e.name == "make_unique":
                # html.escape()s its argument, appends a decimal counter
                return [Val(join_kinds([b.kind for b in base] + ["ident"]), canon, markup, True)]
            return [Val(kind, canon, markup)]
        if isinstance(e, N.Call):
            f = e.node
            if isinstance(f, N.Name) and f.name in sc["macros"]:
                return [Val("macro", f.name, True)]
            if isinstance(f, N.Getattr):
                base = self.classify(f.node, sc)
                bk = join_kinds(b.kind for b in base)
                if f.attr == "replace" and bk in RANK and all(isinstance(a, N.Const) and isinstance(a.value, str) for a in e.args):
                    if any(ch in a.value for a in e.args for ch in "<>&\"'"):
                        raise Untranslatable(f"{self.where()}: .replace() with markup characters")
                    return [Val(bk, unparse(e))]
                if f.attr == "count" and bk in RANK:
                    return [Val("number", unparse(e))]
                if f.attr in ("get_nested_types", "get_nested_namespaces") and bk == "obj":
                    return [Val("obj", unparse(e))]
            raise Untranslatable(f"{self.where()}: call {unparse(e)}")
        if isinstance(e, (N.Div, N.Mod, N.FloorDiv, N.Sub, N.Add, N.Mul)):
            l, r = self.classify(e.left, sc), self.classify(e.right, sc)
            lk, rk = join_kinds(b.kind for b in l), join_kinds(b.kind for b in r)
            if lk == "number" and rk == "number":
                return [Val("number", unparse(e))]
            if isinstance(e, N.Mul) and lk == "const" and rk == "number":
                return [Val("const", unparse(e))]   # a constant string repeated
            raise Untranslatable(f"{self.where()}: arithmetic on {lk}, {rk}: {unparse(e)}")
        if isinstance(e, (N.Test, N.Not, N.And, N.Or, N.Compare)):
            return [Val("number", unparse(e))]
        raise Untranslatable(f"{self.where()}: expression node {type(e).__name__}: cannot classify")

    @staticmethod
    def dedup(alts):
        seen, out = set(), []
        for a in alts:
            if a.key() not in seen:
                seen.add(a.key())
                out.append(a)
        return out

    # -- statements ------------------------------------------------------------------------------------------------
    def new_leaf(self, e, alts, lex, tpl):
        ctx, detail = lex.hole_context()
        ae = self.autoescape[tpl]
        kinds = [a.kind for a in alts]
        if "macroref" in kinds or "obj" in kinds and len(set(kinds)) > 1:
            raise Untranslatable(f"{self.where()}: output of {kinds}")
        if kinds == ["macro"]:
            origin = "macro"
        elif set(kinds) == {"markup"}:
            origin = "markup"
        elif "markup" in kinds or "macro" in kinds:
            raise Untranslatable(f"{self.where()}: output mixes markup and text alternatives")
        else:
            origin = join_kinds("name" if k == "obj" else k for k in kinds)
        hows = []
        for a in alts:
            if a.explicit_e and not a.markup:
                hows.append("explicit-e")
            elif a.markup:
                hows.append("markup-preescaped" if a.pre else "markup")
            elif ae:
                hows.append("autoescape")
            elif a.pre:
                hows.append("preescaped-str")
            else:
                hows.append("none")
        escaped = all(h in ("explicit-e", "autoescape", "markup-preescaped", "preescaped-str") for h in hows)
        # a filter-made snippet stays markup only if nothing escapes it
        snippet = origin == "markup" and all(h in ("markup", "none") for h in hows)
        if origin == "markup" and not snippet and not escaped:
            raise Untranslatable(f"{self.where()}: markup value escaped on some paths only")
        dsdl = origin in ("number", "ident", "name", "url", "doc")
        leaf = {
            "id": len(self.leaves), "tpl": tpl, "line": getattr(e, "lineno", 0), "expr": unparse(e),
            "canon": alts[0].canon if len(alts) == 1 else "(" + " / ".join(a.canon for a in alts) + ")",
            "origin": origin, "ctx": ctx, "detail": detail, "escaped": bool(escaped), "how": "/".join(sorted(set(hows))),
            "autoescape": ae, "snippet": snippet,
            "unsafe": bool(dsdl and not escaped),
        }
        if origin == "markup" and ctx != "data":
            raise Untranslatable(f"{self.where()}: markup-producing filter output in context {ctx}")
        if origin == "macro" and ctx != "data":
            raise Untranslatable(f"{self.where()}: macro call in context {ctx}")
        self.leaves.append(leaf)
        return leaf

    def walk(self, body, sc, lex, tpl):
        """-> list of term items (python tuples); sc is mutated by `set`."""
        N = self.N
        items = []
        for node in body:
            self.cur = (tpl, getattr(node, "lineno", 0))
            if isinstance(node, N.Output):
                for part in node.nodes:
                    self.cur = (tpl, getattr(part, "lineno", self.cur[1]))
                    if isinstance(part, N.TemplateData):
                        toks = []
                        lex.text(part.data, toks)
                        items += self.tok_items(toks, tpl)
                    else:
                        alts = self.classify(part, sc)
                        leaf = self.new_leaf(part, alts, lex, tpl)
                        toks = []
                        lex.hole(leaf, toks)
                        items += self.tok_items(toks, tpl)
                        if leaf["ctx"] == "data":
                            if leaf["origin"] == "macro":
                                items.append(self.call_item(part, sc, tpl))
                            elif leaf["snippet"]:
                                items.append(("snip", leaf["id"]))
                            elif leaf["unsafe"]:
                                items.append(("unsafe", leaf["id"]))
                            else:
                                items.append(("chars", leaf["id"]))
            elif isinstance(node, N.If):
                s0 = lex.snapshot()
                self.need_boundary(lex, "if")
                branches = []
                scs = []
                chain = [(node.test, node.body)] + [(x.test, x.body) for x in node.elif_] + [(None, node.else_)]
                for test, b in chain:
                    if test is not None:
                        self.classify(test, sc)
                    sc_b = self.fork(sc)
                    self.guards.append(unparse(test) if test is not None else "else")
                    branches.append(self.walk(b, sc_b, lex, tpl))
                    self.guards.pop()
                    scs.append(sc_b)
                    if lex.snapshot() != s0:
                        raise Untranslatable(f"{self.where()}: an if-branch changes the HTML lexer state {s0} -> {lex.snapshot()}")
                self.merge(sc, scs)
                items.append(("alt", branches))
            elif isinstance(node, N.For):
                s0 = lex.snapshot()
                self.need_boundary(lex, "for")
                it = self.classify(node.iter, sc)
                if join_kinds(v.kind for v in it) != "obj":
                    raise Untranslatable(f"{self.where()}: loop over a non-object collection")
                if node.else_ or node.test is not None or node.recursive:
                    raise Untranslatable(f"{self.where()}: for-else / filtered / recursive loop")
                sc_b = self.fork(sc)
                targets = [node.target] if isinstance(node.target, N.Name) else list(node.target.items)
                for t in targets:
                    if not isinstance(t, N.Name):
                        raise Untranslatable(f"{self.where()}: loop target")
                    sc_b["vars"][t.name] = [Val("obj", t.name)]
                # two passes so that a `set` at the end of the body is seen at its beginning
                extra = (self.refs, self.tagfacts, self.charrefs, self.rawtexts, self.decls)
                mark = (len(self.leaves), len(self.hrefs), len(self.ids)) + tuple(len(x) for x in extra)
                self.walk(node.body, sc_b, lex, tpl)
                del self.leaves[mark[0]:], self.hrefs[mark[1]:], self.ids[mark[2]:]
                for x, k in zip(extra, mark[3:]):
                    del x[k:]
                body_items = self.walk(node.body, sc_b, lex, tpl)
                if lex.snapshot() != s0:
                    raise Untranslatable(f"{self.where()}: a loop body changes the HTML lexer state")
                items.append(("star", body_items))
            elif isinstance(node, N.Assign):
                if not isinstance(node.target, N.Name):
                    raise Untranslatable(f"{self.where()}: tuple assignment")
                sc["vars"][node.target.name] = self.classify(node.node, sc)
            elif isinstance(node, N.Include):
                if not isinstance(node.template, N.Const) or node.ignore_missing:
                    raise Untranslatable(f"{self.where()}: dynamic include")
                name = node.template.value
                ast = self.load(name)
                # includes see the context of the including template (with_context is the default)
                sc_i = self.fork(sc) if node.with_context else self.root_scope(name)
                self.import_macros(ast, name, sc_i)
                items.append(("seq", self.walk(ast.body, sc_i, lex, name)))
                self.cur = (tpl, getattr(node, "lineno", 0))
            elif isinstance(node, N.FromImport):
                self.do_import(node, sc, tpl)
            elif isinstance(node, N.Macro):
                sc["macros"][node.name] = (tpl, node.name)
            else:
                raise Untranslatable(f"{self.where()}: statement {type(node).__name__} is not supported by the HTML abstraction")
        return items

    def need_boundary(self, lex, what):
        if lex.mode not in ("data", "raw"):
            raise Untranslatable(f"{self.where()}: {what} block starts inside a tag (lexer mode {lex.mode})")

    @staticmethod
    def fork(sc):
        return {"vars": dict(sc["vars"]), "macros": dict(sc["macros"]), "params": set(sc.get("params", ()))}

    def merge(self, sc, scs):
        names = set()
        for s in scs:
            names |= set(s["vars"])
        for nme in names:
            alts = []
            for s in scs:
                if nme in s["vars"]:
                    alts += s["vars"][nme]
            if nme in sc["vars"] or all(nme in s["vars"] for s in scs):
                sc["vars"][nme] = self.dedup(alts)

    def root_scope(self, tpl):
        del tpl
        return {"vars": {"T": [Val("obj", "T")]}, "macros": {}}

    def import_macros(self, ast, name, sc):
        for m in ast.body:
            if isinstance(m, self.N.Macro):
                sc["macros"][m.name] = (name, m.name)

    def do_import(self, node, sc, tpl):
        if not isinstance(node.template, self.N.Const):
            raise Untranslatable(f"{self.where()}: dynamic import")
        name = node.template.value
        self.load(name)
        for n in node.names:
            src, alias = (n, n) if isinstance(n, str) else n
            if (name, src) not in self.macros:
                raise Untranslatable(f"{self.where()}: {src!r} is not a macro of {name}")
            sc["macros"][alias] = (name, src)
        if node.with_context:
            raise Untranslatable(f"{self.where()}: import with context")
        del tpl

    def call_item(self, call, sc, tpl):
        key = sc["macros"][call.node.name]
        m = self.macros[key]
        params = [a.name for a in m.args]
        ndef = len(m.defaults)
        given = {}
        if call.dyn_args is not None or call.dyn_kwargs is not None:
            raise Untranslatable(f"{self.where()}: *args in macro call")
        if len(call.args) > len(params):
            raise Untranslatable(f"{self.where()}: too many macro arguments")
        for p, a in zip(params, call.args):
            given[p] = a
        for kw in call.kwargs:
            if kw.key not in params or kw.key in given:
                raise Untranslatable(f"{self.where()}: bad keyword argument {kw.key}")
            given[kw.key] = kw.value
        for i, p in enumerate(params):
            if p in given:
                alts = self.classify(given[p], sc)
                canon = given[p]
                cs = "param:" + canon.name if isinstance(canon, self.N.Name) and self.is_param(canon.name, sc) else unparse(canon)
            else:
                j = i - (len(params) - ndef)
                if j < 0:
                    raise Untranslatable(f"{self.where()}: missing macro argument {p}")
                alts = self.classify(m.defaults[j], sc)
                cs = "default:" + unparse(m.defaults[j])
            self.bindings.setdefault((key, p), set()).add(f"{tpl}: {cs}")
            cur = self.param_vals.setdefault((key, p), [])
            new = self.dedup(cur + [Val(a.kind, p if a.kind != "obj" else p, a.markup, a.pre, a.explicit_e) for a in alts])
            if len(new) != len(cur):
                self.param_vals[(key, p)] = new
                self.changed = True
        return ("call", self.macro_ids[key])

    @staticmethod
    def is_param(name, sc):
        return name in sc.get("params", ())

    def tok_items(self, toks, tpl):
        out = []
        for t in toks:
            if t[0] in ("open", "void"):
                self.tagfacts.append({"scope": self.scope, "tpl": tpl, "kind": "selfclose" if t[4] else t[0], "name": t[1],
                                      "attrs": [(an, q) for (an, _), q in zip(t[2] or [], t[3] or [])]})
                for an, parts in t[2] or []:
                    if parts is None:
                        continue
                    if an in REF_ATTRS or an.startswith("on") or (an == "name" and t[1] != "meta"):
                        self.refs.append({"scope": self.scope, "tpl": tpl, "tag": t[1], "attr": an, "guards": list(self.guards),
                                          "parts": [list(x) for x in parts]})
                    if an == "href":
                        self.hrefs.append({"tpl": tpl, "line": self.cur[1], "tag": t[1], "parts": parts, "guards": list(self.guards)})
                    if an == "id":
                        self.ids.append({"tpl": tpl, "line": self.cur[1], "tag": t[1], "parts": parts})
                out.append((t[0], t[1]))
            elif t[0] == "close":
                self.tagfacts.append({"scope": self.scope, "tpl": tpl, "kind": "close", "name": t[1], "attrs": []})
                out.append(("close", t[1]))
            elif t[0] == "rawtext":
                self.rawtexts.append({"scope": self.scope, "tpl": "+".join(t[3]) or tpl, "tag": t[1], "text": t[2], "guards": list(self.guards)})
            elif t[0] == "decl":
                self.decls.append({"scope": self.scope, "tpl": tpl, "text": t[1]})
            elif t[0] == "unsafe":
                out.append(("unsafe", t[1]))
            # text / comment / decl contribute no tag events
        return out

    # -- top level ---------------------------------------------------------------------------------------------------
    def macro_body(self, key):
        tpl, name = key
        m = self.macros[key]
        sc = self.root_scope(tpl)
        sc["vars"].pop("T")  # imported without context: no template variables, only globals
        self.import_macros(self.asts[tpl], tpl, sc)
        for node in self.asts[tpl].body:
            if isinstance(node, self.N.FromImport):
                self.do_import(node, sc, tpl)
        sc["params"] = set(a.name for a in m.args)
        for a in m.args:
            sc["vars"][a.name] = self.param_vals.get((key, a.name)) or [Val("const", a.name)]
        lex = HLex(self.where)
        self.scope = f"macro:{name}"
        lex.charrefs = _Sink(self, tpl)
        items = self.walk(m.body, sc, lex, tpl)
        if lex.mode != "data":
            raise Untranslatable(f"{tpl}: macro {name} ends inside a tag (lexer mode {lex.mode})")
        return items

    def run(self, roots):
        result = None
        for _round in range(8):
            self.changed = False
            self.leaves, self.hrefs, self.ids = [], [], []
            self.refs, self.tagfacts, self.charrefs, self.rawtexts, self.decls = [], [], [], [], []
            self.bindings = {}
            root_terms = {}
            for r in roots:
                ast = self.load(r)
                sc = self.root_scope(r)
                self.import_macros(ast, r, sc)
                lex = HLex(self.where)
                self.scope = f"root:{r}"
                lex.charrefs = _Sink(self, r)
                root_terms[r] = self.walk(ast.body, sc, lex, r)
                if lex.mode != "data":
                    raise Untranslatable(f"{r}: template ends inside a tag (lexer mode {lex.mode})")
            # every macro whose parameters have been bound by some call site seen so far; a macro that is never
            # called contributes nothing to any page and is left out (it is reported in `uncalled`)
            macro_terms = {}
            self.uncalled = []
            for k in sorted(self.macro_ids, key=self.macro_ids.get):
                if all((k, a.name) in self.param_vals for a in self.macros[k].args):
                    macro_terms[k] = self.macro_body(k)
                else:
                    self.uncalled.append(k)
            result = (root_terms, macro_terms)
            if not self.changed:
                break
            # call sites inside macro bodies may have bound further macros: go round again
        else:
            raise Untranslatable("macro parameter classification did not reach a fixpoint")
        return result


# ----------------------------------------------------------------------------------------------------------------
# output
# ----------------------------------------------------------------------------------------------------------------
def lean_str(s):
    out = []
    for ch in s:
        if ch == "\\":
            out.append("\\\\")
        elif ch == '"':
            out.append('\\"')
        elif ch == "\n":
            out.append("\\n")
        elif ch == "\t":
            out.append("\\t")
        elif ord(ch) < 32 or ord(ch) == 127:
            out.append("\\u%04x" % ord(ch))
        else:
            out.append(ch)
    return '"' + "".join(out) + '"'


def term_to_lean(items, tags, ind):
    """list of items -> Lean expression of type Tm (a `sq [...]`)."""
    pad = " " * ind
    parts = []
    for it in items:
        k = it[0]
        if k == "open":
            parts.append(f"o {tags[it[1]]}")
        elif k == "close":
            parts.append(f"c {tags[it[1]]}")
        elif k == "void":
            parts.append(f"v {tags[it[1]]}")
        elif k == "chars":
            parts.append(f"tx {it[1]}")
        elif k == "snip":
            parts.append(f"sn {it[1]}")
        elif k == "unsafe":
            parts.append(f"un {it[1]}")
        elif k == "call":
            parts.append(f".call {it[1]}")
        elif k == "seq":
            parts.append(term_to_lean(it[1], tags, ind + 2))
        elif k == "star":
            parts.append(".star (" + term_to_lean(it[1], tags, ind + 2) + ")")
        elif k == "alt":
            parts.append("al [" + (",\n" + pad + "    ").join(term_to_lean(b, tags, ind + 4) for b in it[1]) + "]")
        else:
            raise Untranslatable(f"internal: item {k}")
    # wrap lines
    lines, cur = [], ""
    for p in parts:
        if "\n" in p or len(cur) + len(p) > 100:
            if cur:
                lines.append(cur)
            cur = p
        else:
            cur = (cur + ", " + p) if cur else p
    if cur:
        lines.append(cur)
    return "sq [" + (",\n" + pad + "  ").join(lines) + "]"


def collect_tags(items, acc):
    for it in items:
        if it[0] in ("open", "close", "void"):
            if it[1] not in acc:
                acc[it[1]] = len(acc)
        elif it[0] in ("seq", "star"):
            collect_tags(it[1], acc)
        elif it[0] == "alt":
            for b in it[1]:
                collect_tags(b, acc)


def to_json_term(items):
    out = []
    for it in items:
        if it[0] in ("seq", "star"):
            out.append([it[0], to_json_term(it[1])])
        elif it[0] == "alt":
            out.append(["alt", [to_json_term(b) for b in it[1]]])
        else:
            out.append(list(it))
    return out


def translate():
    with tempfile.TemporaryDirectory(prefix="nv_htmltpl_") as d:
        gen, env, ns, type_map = real_environment(pathlib.Path(d))
        import pydsdl
        roots = []
        objs = [ns] + [t for t in type_map]
        for o in objs:
            r = gen.filter_type_to_template(o)
            if r not in roots:
                roots.append(r)
        kinds = {type(o).__name__: gen.filter_type_to_template(o) for o in objs}
        need = {"Namespace", "StructureType", "UnionType", "DelimitedType", "ServiceType"}
        if not need <= set(kinds):
            raise Untranslatable(f"probe namespace does not cover all kinds: {sorted(kinds)}")
        del pydsdl
        variant_envs = []
        for _vn, opts in VARIANTS[1:]:
            try:
                variant_envs.append(real_environment(pathlib.Path(d), "html", **opts)[1])
            except Exception:
                pass
        decisions = escaping_decisions(pathlib.Path(d))
        tr = Translator(gen, env, ns, type_map, variant_envs)
        root_terms, macro_terms = tr.run(sorted(roots))
        model = {
            "repo": str(REPO),
            "autoescape": dict(sorted(tr.autoescape.items())),
            "escaping_decisions": [list(r) for r in decisions],
            "kind_to_template": dict(sorted(kinds.items())),
            "filter_returns_markup": tr.filter_markup,
            "leaves": tr.leaves,
            "hrefs": tr.hrefs,
            "ids": tr.ids,
            "bindings": {f"{k[0][1]}.{k[1]}": sorted(v) for k, v in sorted(tr.bindings.items())},
            "inventory": inventory(tr, sorted(root_terms)),
            "macros": [{"id": i, "tpl": k[0], "name": k[1], "called": k in macro_terms, "term": to_json_term(macro_terms.get(k, []))}
                       for k, i in sorted(tr.macro_ids.items(), key=lambda kv: kv[1])],
            "roots": [{"name": r, "term": to_json_term(root_terms[r])} for r in sorted(root_terms)],
        }
        tags = {}
        for r in sorted(root_terms):
            collect_tags(root_terms[r], tags)
        for k in sorted(macro_terms, key=tr.macro_ids.get):
            collect_tags(macro_terms[k], tags)
        for k in tr.macro_ids:
            macro_terms.setdefault(k, [])   # never called: contributes to no page
        model["tags"] = [t for t, _ in sorted(tags.items(), key=lambda kv: kv[1])]
        return model, root_terms, macro_terms, tr, tags


# ----------------------------------------------------------------------------------------------------------------
# round 2: the reference inventory and the facts about the constant markup
# ----------------------------------------------------------------------------------------------------------------
HOLE_RE = None


def split_holes(text):
    """'ab\u27e6x\u27e7c' -> [("lit","ab"),("ex","x"),("lit","c")]"""
    import re
    out = []
    for k, piece in enumerate(re.split("\u27e6(.*?)\u27e7", text)):
        if k % 2:
            out.append(["ex", piece])
        elif piece:
            out.append(["lit", piece])
    return out


def js_lookups(text):
    """Every DOM lookup by id / selector in a script: (function, quote, argument parts).  A lookup whose argument is not a
    literal (a variable, `window.location.hash`) is reported with quote '' and the argument expression as one literal."""
    import re
    out = []
    for m in re.finditer(r"\b(getElementById|querySelectorAll|querySelector)\s*\(", text):
        i = m.end()
        while i < len(text) and text[i].isspace():
            i += 1
        q = text[i] if i < len(text) else ""
        if q in "\"'`":
            j = i + 1
            while j < len(text) and text[j] != q:
                if text[j] == "\u27e6":     # an expression hole is opaque
                    j = text.index("\u27e7", j)
                j += 2 if text[j] == "\\" else 1
            if j >= len(text):
                raise Untranslatable("script: unterminated string literal in a DOM lookup")
            out.append([m.group(1), q, split_holes(text[i + 1:j])])
        else:
            depth, j = 0, i
            while j < len(text) and not (text[j] == ")" and depth == 0):
                depth += text[j] == "("
                depth -= text[j] == ")"
                j += 1
            out.append([m.group(1), "", [["lit", text[i:j].strip()]]])
    return out


def css_id_selectors(text):
    """ids used in selectors of a style sheet (preludes of rule sets; declarations and at-rule preludes are skipped)."""
    import re
    out, i, n = [], 0, len(text)
    text = re.sub(r"/\*.*?\*/", " ", text, flags=re.S)
    n = len(text)
    stack = []          # "at" (at-rule block: contains rule sets) | "decl" (declaration block)
    start = 0
    while i < n:
        c = text[i]
        if c == "{":
            prelude = text[start:i].strip()
            if stack and stack[-1] == "decl":
                raise Untranslatable("style: nested block inside a declaration block")
            if prelude.startswith("@"):
                stack.append("at" if re.match(r"@(media|supports|layer|container|document)\b", prelude) else "decl")
            else:
                out += re.findall(r"#(-?[A-Za-z_][A-Za-z0-9_-]*)", prelude)
                stack.append("decl")
            start = i + 1
        elif c == "}":
            if not stack:
                raise Untranslatable("style: unbalanced '}'")
            stack.pop()
            start = i + 1
        elif c == ";" and (not stack or stack[-1] == "at"):
            start = i + 1
        i += 1
    if stack:
        raise Untranslatable("style: unbalanced '{'")
    return out


def inventory(tr, roots):
    import hashlib
    import re
    inv = {"refs": tr.refs, "tagfacts": tr.tagfacts, "charrefs": tr.charrefs, "decls": tr.decls}
    raws, lookups, css = [], [], []
    for r in tr.rawtexts:
        asset = "assets/" in r["tpl"]
        if asset and "+" in r["tpl"]:
            raise Untranslatable(f"raw-text element mixes a bundled asset with template text: {r['tpl']}")
        txt = r["text"]
        raws.append({"scope": r["scope"], "tpl": r["tpl"], "tag": r["tag"], "length": len(txt), "holes": txt.count("\u27e6"),
                     "comment_open": "<!--" in txt, "sha": hashlib.sha256(txt.encode()).hexdigest()[:16], "asset": asset,
                     "guards": r["guards"]})
        if asset:
            continue
        if r["tag"] == "script":
            for f, q, parts in js_lookups(txt):
                lookups.append({"scope": r["scope"], "tpl": r["tpl"], "func": f, "quote": q, "parts": parts})
        else:
            for ident in css_id_selectors(txt):
                css.append({"scope": r["scope"], "tpl": r["tpl"], "id": ident})
    inv["rawtexts"], inv["js_lookups"], inv["css_ids"] = raws, lookups, css
    funcs = []
    for r in tr.rawtexts:
        if "assets/" not in r["tpl"] and r["tag"] == "script":
            for m in re.finditer(r"\bfunction\s+([A-Za-z_$][\w$]*)\s*\(([^)]*)\)", r["text"]):
                funcs.append({"scope": r["scope"], "tpl": r["tpl"], "name": m.group(1), "params": " ".join(m.group(2).split())})
    inv["js_functions"] = funcs
    heads = []
    for r in roots:
        sc = f"root:{r}"
        tf = [t for t in tr.tagfacts if t["scope"] == sc]
        dc = [d for d in tr.decls if d["scope"] == sc]
        names = [t["name"] for t in tf if t["kind"] != "close"]
        charset = any(t["name"] == "meta" and any(a == "charset" for a, _ in t["attrs"]) for t in tf)
        heads.append({"root": r, "empty": not tf and not dc,
                      "doctype": bool(dc) and re.fullmatch(r"<!doctype\s+html\s*>", dc[0]["text"], re.I) is not None and len(dc) == 1,
                      "first_tags": names[:3], "title": "title" in names, "charset": charset})
    inv["heads"] = heads
    return inv


def render_refs_lean(model):
    """Gen/HtmlRefs.lean: the reference inventory and the facts about the constant markup."""
    inv = model["inventory"]
    b = lambda x: "true" if x else "false"
    sl = lambda xs: "[" + ", ".join(lean_str(x) for x in xs) + "]"
    L = []
    L.append("import NunavutVerif.Model.HtmlPage")
    L.append("/-!")
    L.append("GENERATED by translate/htmltpl.py from the HTML templates of the tree under check — do not edit.")
    L.append("The reference inventory (every attribute that defines an anchor, refers to one, holds a URL or an event handler;")
    L.append("every DOM lookup of the templates' own scripts; every id selector of their style sheets) and the facts about the")
    L.append("constant markup (every tag with its attributes and their quoting, every `&`, every raw-text element, every page head).")
    L.append("-/")
    L.append("namespace NunavutVerif.Gen.HtmlRefs")
    L.append("open NunavutVerif.Html")
    L.append("")
    L.append("def refs : List RefRow := [")
    L.append(",\n".join(f"  ⟨{lean_str(r['scope'])}, {lean_str(r['tag'])}, {lean_str(r['attr'])}, {sl(r['guards'])}, {parts_to_lean(r['parts'])}⟩"
                        for r in inv["refs"]) + "]")
    L.append("")
    L.append("def jsLookups : List JsLookup := [")
    L.append(",\n".join(f"  ⟨{lean_str(r['tpl'])}, {lean_str(r['func'])}, {lean_str(r['quote'])}, {parts_to_lean(r['parts'])}⟩"
                        for r in inv["js_lookups"]) + "]")
    L.append("")
    L.append("/-- functions declared in the templates' own scripts: (template, name, parameter list) -/")
    L.append("def jsFunctions : List (String × String × String) := [")
    L.append(",\n".join(f"  ({lean_str(r['tpl'])}, {lean_str(r['name'])}, {lean_str(r['params'])})" for r in inv["js_functions"]) + "]")
    L.append("")
    L.append("/-- ids used in selectors of the templates' own style sheets: (scope, id) -/")
    L.append("def cssIds : List (String × String) := [" + ", ".join(f"({lean_str(r['scope'])}, {lean_str(r['id'])})" for r in inv["css_ids"]) + "]")
    L.append("")
    L.append("def tagFacts : List TagFact := [")
    L.append(",\n".join(f"  ⟨{lean_str(t['scope'])}, {lean_str(t['kind'])}, {lean_str(t['name'])}, [" +
                        ", ".join(f"({lean_str(a)}, {lean_str(q)})" for a, q in t["attrs"]) + "]⟩" for t in inv["tagfacts"]) + "]")
    L.append("")
    L.append("/-- every `&` of the constant template text: (where: `data` or `tag@attribute`, text) -/")
    L.append("def charRefs : List (String × String) := [" + ", ".join(f"({lean_str(r['where'])}, {lean_str(r['text'])})" for r in inv["charrefs"]) + "]")
    L.append("")
    L.append("def rawTexts : List RawText := [")
    L.append(",\n".join(f"  ⟨{lean_str(r['scope'])}, {lean_str(r['tpl'])}, {lean_str(r['tag'])}, {r['length']}, {r['holes']}, {b(r['comment_open'])}, {b(r['asset'])}⟩"
                        for r in inv["rawtexts"]) + "]")
    L.append("")
    L.append("def pageHeads : List PageHead := [")
    L.append(",\n".join(f"  ⟨{lean_str(h['root'])}, {b(h['empty'])}, {b(h['doctype'])}, {sl(h['first_tags'])}, {b(h['title'])}, {b(h['charset'])}⟩"
                        for h in inv["heads"]) + "]")
    L.append("")
    L.append("end NunavutVerif.Gen.HtmlRefs")
    return "\n".join(L) + "\n"


def write_if_changed(path, text):
    path.parent.mkdir(parents=True, exist_ok=True)
    if not path.exists() or path.read_text() != text:
        path.write_text(text)
        return True
    return False


def parts_to_lean(parts):
    return "[" + ", ".join((".lit " if k == "lit" else ".ex ") + lean_str(s) for k, s in parts) + "]"


def render_lean(model, root_terms, macro_terms, tr, tags):
    L = []
    L.append("import NunavutVerif.Model.Html")
    L.append("/-!")
    L.append("GENERATED by translate/htmltpl.py from the HTML templates of the tree under check — do not edit.")
    L.append("Every `{{ }}` of every reachable template is one row of `leaves`; the terms are the templates with their")
    L.append("text tokenised into tag events.  `tx n` / `sn n` / `un n` refer to leaf number n.")
    L.append("-/")
    L.append("namespace NunavutVerif.Gen.HtmlTpl")
    L.append("open NunavutVerif.Html")
    L.append("open NunavutVerif.Html.Tm (o c v tx sn un sq al)")
    L.append("")
    L.append("/-- tag names; a tag event carries the index into this list -/")
    L.append("def tagNames : List String := [" + ", ".join(lean_str(t) for t in model["tags"]) + "]")
    L.append("")
    L.append("/-- answer of the environment's real `autoescape` setting for each loaded template name -/")
    L.append("def autoescapeTable : List (String × Bool) := [" + ", ".join(
        f"({lean_str(k)}, {'true' if v else 'false'})" for k, v in model["autoescape"].items()) + "]")
    L.append("")
    L.append("/-- the environment's real autoescape answer under option variations: (target language, variation, template name, answer) -/")
    L.append("def escapingDecisions : List (String × String × Option String × Bool) := [")
    L.append(",\n".join(f"  ({lean_str(r[0])}, {lean_str(r[1])}, {'none' if r[2] is None else 'some ' + lean_str(r[2])}, "
                        f"{'true' if r[3] else 'false'})" for r in model["escaping_decisions"] if r[3] is not None) + "]")
    L.append("")
    L.append("def filterReturnsMarkup : List (String × Bool) := [" + ", ".join(
        f"({lean_str(k)}, {'true' if v else 'false'})" for k, v in sorted(model["filter_returns_markup"].items())) + "]")
    L.append("")
    L.append("def leaves : List Leaf := [")
    rows = []
    for lf in model["leaves"]:
        rows.append(f"  ⟨{lean_str(lf['tpl'])}, {lf['line']}, {lean_str(lf['expr'])}, .{lf['origin']}, .{lf['ctx']}, "
                    f"{'true' if lf['escaped'] else 'false'}, {'true' if lf['snippet'] else 'false'}, {lean_str(lf['how'])}⟩")
    L.append(",\n".join(rows) + "]")
    L.append("")
    L.append("def macroNames : List String := [" + ", ".join(lean_str(f"{m['tpl']}:{m['name']}") for m in model["macros"]) + "]")
    L.append("")
    for k in sorted(macro_terms, key=tr.macro_ids.get):
        L.append(f"def macro{tr.macro_ids[k]} : Tm :=  -- {k[0]}: {k[1]}")
        L.append("  " + term_to_lean(macro_terms[k], tags, 2))
        L.append("")
    L.append("def macros : List Tm := [" + ", ".join(f"macro{i}" for i in range(len(macro_terms))) + "]")
    L.append("")
    for i, r in enumerate(sorted(root_terms)):
        L.append(f"def root{i} : Tm :=  -- {r}")
        L.append("  " + term_to_lean(root_terms[r], tags, 2))
        L.append("")
    L.append("def roots : List (String × Tm) := [" + ", ".join(
        f"({lean_str(r)}, root{i})" for i, r in enumerate(sorted(root_terms))) + "]")
    L.append("")
    L.append("/-- every `href=` attribute value in the templates: (where, tests of the enclosing if-branches, literal / expression parts) -/")
    L.append("def hrefs : List (String × List String × List HPart) := [")
    L.append(",\n".join(f"  ({lean_str(h['tpl'] + ':' + h['tag'])}, [" + ", ".join(lean_str(g) for g in h["guards"]) +
                        f"], {parts_to_lean(h['parts'])})" for h in model["hrefs"]) + "]")
    L.append("")
    L.append("/-- every `id=` attribute value in the templates -/")
    L.append("def ids : List (String × List HPart) := [")
    L.append(",\n".join(f"  ({lean_str(h['tpl'] + ':' + h['tag'])}, {parts_to_lean(h['parts'])})" for h in model["ids"]) + "]")
    L.append("")
    L.append("/-- what is passed for each macro parameter, at every call site (`param:x` = the caller's own parameter x) -/")
    L.append("def bindings : List (String × List String) := [")
    L.append(",\n".join(f"  ({lean_str(k)}, [" + ", ".join(lean_str(x) for x in v) + "])" for k, v in model["bindings"].items()) + "]")
    L.append("")
    L.append("end NunavutVerif.Gen.HtmlTpl")
    return "\n".join(L) + "\n"


def main():
    ap = argparse.ArgumentParser()
    ap.add_argument("--json", default=None)
    ap.add_argument("--print", action="store_true")
    ap.add_argument("--no-write", action="store_true")
    a = ap.parse_args()
    model, root_terms, macro_terms, tr, tags = translate()
    text = render_lean(model, root_terms, macro_terms, tr, tags)
    if a.json:
        pathlib.Path(a.json).write_text(json.dumps(model, indent=1))
    if a.print:
        sys.stdout.write(text)
    if not a.no_write:
        for path, txt in ((OUT, text), (OUT_REFS, render_refs_lean(model))):
            print(f"htmltpl: wrote {path}" if write_if_changed(path, txt) else f"htmltpl: {path.name} unchanged")


if __name__ == "__main__":
    main()
