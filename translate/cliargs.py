"""
Translator for the command-line layer of C08 / C12: regenerate `lean/NunavutVerif/Gen/CliArgs.lean` from the tree under check.

Sources ($VERIF_REPO):
  * the real parser object `nunavut.cli._make_parser()`: every action in `_actions` order — option strings, dest, action class,
    nargs, default, choices — plus the parser-wide settings the hand model of `argparse` relies on (prefix characters,
    abbreviations, no argument files, no mutually exclusive groups, nothing required, exactly one positional with nargs '?');
  * src/nunavut/cli/__init__.py by AST: the `type=` callables (`extension_type`, `lambda value: int(value, 0)`, `int`,
    `pathlib.Path`) must have exactly the shape the model transcribes; `_NunavutArgumentParser._post_process_args` must be a
    sequence of `if args.<flag> and args.<opt> == "<value>": self.error(...)` rules;
  * src/nunavut/cli/runners.py by AST: the `if/elif` chain of `ArgparseRunner.run`, every call the three run methods make on the
    two generators (guards and keyword arguments, each of them `self._args.<dest>`, `not self._args.<dest>` or a constant),
    and the rule list of `_build_post_processor_list_from_args`.

Output: data only.  Anything the tables cannot express raises `CannotTranslate` (tie broken) — nothing is skipped silently.
Writes the file only when its content changed.
"""
import argparse
import ast
import importlib
import pathlib
import sys

VERIF = pathlib.Path(__file__).resolve().parent.parent
OUT = VERIF / "lean" / "NunavutVerif" / "Gen" / "CliArgs.lean"


class CannotTranslate(Exception):
    pass


def _lit(s: str) -> str:
    if not isinstance(s, str) or any(ord(c) < 0x20 or ord(c) > 0x7e or c in '"\\' for c in s):
        raise CannotTranslate(f"string {s!r} has characters outside the expressible set")
    return '"' + s + '"'


def _lst(xs, f=_lit) -> str:
    return "[" + ", ".join(f(x) for x in xs) + "]"


# ---------------------------------------------------------------------------------------------------------------
# the parser object
# ---------------------------------------------------------------------------------------------------------------
def _val(v) -> str:
    if v is None:
        return ".none"
    if isinstance(v, bool):
        return f".bool {'true' if v else 'false'}"
    if isinstance(v, int):
        return f".sc (.int ({v}))"
    if isinstance(v, str):
        return f".sc (.str {_lit(v)})"
    raise CannotTranslate(f"default {v!r} is not None / bool / int / str")


_EXPECTED_EXT = ast.dump(ast.parse(
    "def extension_type(raw_arg: str) -> str:\n"
    "    if len(raw_arg) > 0 and not raw_arg.startswith('.'):\n"
    "        return '.' + raw_arg\n"
    "    else:\n"
    "        return raw_arg\n").body[0])
_EXPECTED_INT0 = ast.dump(ast.parse("lambda value: int(value, 0)").body[0].value)


def _type_kinds(cli_src: str):
    """option string -> type kind, from the `type=` keyword of every `add_argument` call inside `_make_parser`."""
    tree = ast.parse(cli_src)
    mk = [n for n in tree.body if isinstance(n, ast.FunctionDef) and n.name == "_make_parser"]
    if len(mk) != 1:
        raise CannotTranslate("cli/__init__.py: _make_parser not found")
    local_funcs = {n.name: n for n in ast.walk(mk[0]) if isinstance(n, ast.FunctionDef) and n is not mk[0]}
    kinds = {}
    for call in ast.walk(mk[0]):
        if not (isinstance(call, ast.Call) and isinstance(call.func, ast.Attribute) and call.func.attr == "add_argument"):
            continue
        names = []
        for a in call.args:
            if not (isinstance(a, ast.Constant) and isinstance(a.value, str)):
                raise CannotTranslate("add_argument with a non-literal option string")
            names.append(a.value)
        t = [k.value for k in call.keywords if k.arg == "type"]
        if any(k.arg is None for k in call.keywords):
            raise CannotTranslate(f"add_argument{names}: **kwargs")
        if not t:
            kind = "str"
        else:
            t = t[0]
            if isinstance(t, ast.Name) and t.id == "int":
                kind = "intDec"
            elif isinstance(t, ast.Attribute) and isinstance(t.value, ast.Name) and (t.value.id, t.attr) == ("pathlib", "Path"):
                kind = "path"
            elif isinstance(t, ast.Name) and t.id == "extension_type":
                f = local_funcs.get("extension_type")
                if f is None or ast.dump(f) != _EXPECTED_EXT:
                    raise CannotTranslate("extension_type no longer has the transcribed shape")
                kind = "ext"
            elif isinstance(t, ast.Lambda):
                if ast.dump(t) != _EXPECTED_INT0:
                    raise CannotTranslate(f"add_argument{names}: type lambda is not `lambda value: int(value, 0)`")
                kind = "intAuto"
            else:
                raise CannotTranslate(f"add_argument{names}: type {ast.dump(t)} not expressible")
        for n in names:
            kinds[n] = kind
    return kinds


def _actions(cli_mod, cli_src):
    p = cli_mod._make_parser()
    if type(p).__name__ != "_NunavutArgumentParser" or not isinstance(p, argparse.ArgumentParser):
        raise CannotTranslate(f"parser class is {type(p)}")
    for cls in type(p).__mro__:
        if cls is argparse.ArgumentParser:
            break
        extra = set(vars(cls)) - {"__module__", "__doc__", "__qualname__", "parse_known_args", "_post_process_args",
                                  "__firstlineno__", "__static_attributes__"}
        if extra:
            raise CannotTranslate(f"{cls.__name__} overrides {sorted(extra)}")
    settings = dict(prefix_chars=p.prefix_chars, fromfile_prefix_chars=p.fromfile_prefix_chars, allow_abbrev=p.allow_abbrev,
                    exit_on_error=p.exit_on_error, mutex=list(p._mutually_exclusive_groups), defaults=dict(p._defaults),
                    argument_default=p.argument_default, conflict_handler=p.conflict_handler,
                    negopts=list(p._has_negative_number_optionals), subparsers=p._subparsers)
    expected = dict(prefix_chars="-", fromfile_prefix_chars=None, allow_abbrev=True, exit_on_error=True, mutex=[], defaults={},
                    argument_default=None, conflict_handler="error", negopts=[], subparsers=None)
    if settings != expected:
        raise CannotTranslate(f"parser settings {settings} differ from the modelled ones {expected}")
    kinds = _type_kinds(cli_src)
    rows, positionals, seen_dests, seen_flags = [], 0, set(), set()
    for a in p._actions:
        cname = None
        for cls in type(a).__mro__:
            if cls.__module__ == "argparse" and cls.__name__ in ("_StoreAction", "_StoreTrueAction", "_AppendAction", "_CountAction",
                                                                 "_HelpAction", "_VersionAction"):
                cname = cls.__name__
                break
        if cname is None:
            raise CannotTranslate(f"action class {type(a).__name__} of {a.option_strings or a.dest} is not modelled")
        kind = {"_StoreAction": "store", "_StoreTrueAction": "storeTrue", "_AppendAction": "append", "_CountAction": "count",
                "_HelpAction": "help", "_VersionAction": "version"}[cname]
        if type(a).__name__ != cname:
            # a subclass: only its __call__ may differ, and only for the version action (which exits)
            if kind != "version" or set(vars(type(a))) - {"__module__", "__doc__", "__call__", "__qualname__", "__firstlineno__",
                                                           "__static_attributes__"}:
                raise CannotTranslate(f"action subclass {type(a).__name__} not modelled")
        if a.required:
            raise CannotTranslate(f"{a.dest}: required arguments are not modelled")
        if kind in ("storeTrue", "count", "help", "version"):
            if a.nargs != 0:
                raise CannotTranslate(f"{a.dest}: nargs {a.nargs!r}")
            nargs = "zero"
        else:
            if a.nargs not in (None, "?", "*"):
                raise CannotTranslate(f"{a.dest}: nargs {a.nargs!r} not modelled")
            nargs = {None: "one", "?": "optional", "*": "zeroOrMore"}[a.nargs]
        if kind == "storeTrue" and (a.const is not True or a.default is not False):
            raise CannotTranslate(f"{a.dest}: store_true with const {a.const!r} default {a.default!r}")
        if kind in ("store", "append") and a.const is not None:
            raise CannotTranslate(f"{a.dest}: const {a.const!r}")
        if kind == "count" and a.default is not None:
            raise CannotTranslate(f"{a.dest}: count with default {a.default!r}")
        if kind == "append" and (a.default is not None or nargs != "one"):
            raise CannotTranslate(f"{a.dest}: append with default {a.default!r} / nargs {a.nargs!r}")
        if not a.option_strings:
            positionals += 1
            if kind != "store" or nargs != "optional":
                raise CannotTranslate(f"positional {a.dest}: only one `store` positional with nargs='?' is modelled")
            tk = "str"
            if a.type is not None:
                raise CannotTranslate(f"positional {a.dest}: type")
        else:
            if nargs == "optional":
                raise CannotTranslate(f"{a.dest}: optional with nargs='?'")
            tks = {kinds.get(o) for o in a.option_strings}
            if kind in ("store", "append"):
                if len(tks) != 1 or None in tks:
                    raise CannotTranslate(f"{a.option_strings}: no unique add_argument call found in the source")
                tk = tks.pop()
                real = {"str": None, "intDec": int, "path": pathlib.Path}.get(tk, "fn")
                if (real == "fn") != (callable(a.type) and getattr(a.type, "__module__", "") == cli_mod.__name__) and real != a.type:
                    raise CannotTranslate(f"{a.option_strings}: type {a.type!r} does not match the source ({tk})")
                if real != "fn" and a.type is not real:
                    raise CannotTranslate(f"{a.option_strings}: type {a.type!r} does not match the source ({tk})")
            else:
                tk = "str"
                if a.type is not None:
                    raise CannotTranslate(f"{a.dest}: type on a flag")
        for o in a.option_strings:
            if o in seen_flags or len(o) < 2 or o[0] != "-" or "=" in o or " " in o or o == "--":
                raise CannotTranslate(f"option string {o!r}")
            seen_flags.add(o)
        suppressed = a.default is argparse.SUPPRESS or a.dest is argparse.SUPPRESS
        if suppressed and kind not in ("help", "version"):
            raise CannotTranslate(f"{a.dest}: SUPPRESS on a value action")
        dest = "" if suppressed else a.dest
        if dest:
            if dest in seen_dests:
                raise CannotTranslate(f"dest {dest} is shared by two actions")
            seen_dests.add(dest)
        choices = []
        if a.choices is not None:
            choices = list(a.choices)
            if not choices or not all(isinstance(c, str) for c in choices) or tk != "str":
                raise CannotTranslate(f"{a.dest}: choices {a.choices!r}")
        if isinstance(a.default, str) and not suppressed and tk != "str":
            raise CannotTranslate(f"{a.dest}: string default with a converting type")
        rows.append(dict(flags=list(a.option_strings), dest=dest, kind=kind, nargs=nargs, type=tk,
                         dflt=".none" if suppressed else _val(a.default), choices=choices))
    if positionals != 1:
        raise CannotTranslate(f"{positionals} positionals")
    return rows


# ---------------------------------------------------------------------------------------------------------------
# _post_process_args
# ---------------------------------------------------------------------------------------------------------------
def _args_attr(node, base="args"):
    """`args.<dest>` -> dest"""
    if isinstance(node, ast.Attribute) and isinstance(node.value, ast.Name) and node.value.id == base:
        return node.attr
    return None


def _rejections(cli_src):
    tree = ast.parse(cli_src)
    cls = [n for n in tree.body if isinstance(n, ast.ClassDef) and n.name == "_NunavutArgumentParser"]
    if len(cls) != 1:
        raise CannotTranslate("_NunavutArgumentParser not found")
    fns = {n.name: n for n in cls[0].body if isinstance(n, ast.FunctionDef)}
    if set(fns) != {"parse_known_args", "_post_process_args"}:
        raise CannotTranslate(f"_NunavutArgumentParser defines {sorted(fns)}")
    expected_pka = ast.dump(ast.parse(
        "def parse_known_args(self, args=None, namespace=None):\n"
        "    parsed_args, argv = super().parse_known_args(args, namespace)\n"
        "    self._post_process_args(parsed_args)\n"
        "    return (parsed_args, argv)\n").body[0])
    got = fns["parse_known_args"]
    got_cmp = ast.FunctionDef(name=got.name, args=got.args, body=got.body, decorator_list=got.decorator_list, returns=None,
                              type_comment=None, type_params=[])
    if ast.dump(got_cmp) != expected_pka:
        raise CannotTranslate("parse_known_args override no longer has the transcribed shape")
    rules = []
    body = fns["_post_process_args"].body
    for i, st in enumerate(body):
        if i == 0 and isinstance(st, ast.Expr) and isinstance(st.value, ast.Constant) and isinstance(st.value.value, str):
            continue  # docstring
        ok = (isinstance(st, ast.If) and not st.orelse and isinstance(st.test, ast.BoolOp) and isinstance(st.test.op, ast.And)
              and len(st.test.values) == 2)
        if ok:
            flag = _args_attr(st.test.values[0])
            cmp_ = st.test.values[1]
            ok = (flag is not None and isinstance(cmp_, ast.Compare) and len(cmp_.ops) == 1 and isinstance(cmp_.ops[0], ast.Eq)
                  and _args_attr(cmp_.left) is not None and isinstance(cmp_.comparators[0], ast.Constant)
                  and isinstance(cmp_.comparators[0].value, str))
        if ok:
            ok = (len(st.body) == 1 and isinstance(st.body[0], ast.Expr) and isinstance(st.body[0].value, ast.Call)
                  and isinstance(st.body[0].value.func, ast.Attribute) and st.body[0].value.func.attr == "error"
                  and isinstance(st.body[0].value.func.value, ast.Name) and st.body[0].value.func.value.id == "self")
        if not ok:
            raise CannotTranslate(f"_post_process_args: statement {i} is not `if args.<flag> and args.<opt> == '<v>': self.error(..)`")
        rules.append((flag, _args_attr(cmp_.left), cmp_.comparators[0].value))
    return rules


# ---------------------------------------------------------------------------------------------------------------
# runners.py
# ---------------------------------------------------------------------------------------------------------------
def _self_args(node):
    """`self._args.<dest>` -> dest"""
    if (isinstance(node, ast.Attribute) and isinstance(node.value, ast.Attribute) and node.value.attr == "_args"
            and isinstance(node.value.value, ast.Name) and node.value.value.id == "self"):
        return node.attr
    return None


def _self_call(node):
    """`self.<a>.<f>(...)` -> (a, f, call) ; `self.<f>(...)` -> (None, f, call)"""
    if isinstance(node, ast.Call) and isinstance(node.func, ast.Attribute):
        v = node.func.value
        if isinstance(v, ast.Name) and v.id == "self":
            return None, node.func.attr, node
        if isinstance(v, ast.Attribute) and isinstance(v.value, ast.Name) and v.value.id == "self":
            return v.attr, node.func.attr, node
    return None


def _expr(node):
    d = _self_args(node)
    if d is not None:
        return f".arg {_lit(d)}"
    if isinstance(node, ast.UnaryOp) and isinstance(node.op, ast.Not) and _self_args(node.operand) is not None:
        return f".notArg {_lit(_self_args(node.operand))}"
    if isinstance(node, ast.Constant) and isinstance(node.value, bool):
        return f".const {'true' if node.value else 'false'}"
    raise CannotTranslate(f"keyword value {ast.dump(node)} is not self._args.<dest> / not self._args.<dest> / a bool constant")


def _guard(test):
    c = _self_call(test)
    if c is not None and c[0] is None and c[1] == "_should_generate_support" and not c[2].args and not c[2].keywords:
        return [".shouldGenerateSupport"], [".notShouldGenerateSupport"]
    if (isinstance(test, ast.Compare) and len(test.ops) == 1 and isinstance(test.ops[0], ast.NotEq)
            and _self_args(test.left) == "generate_support" and isinstance(test.comparators[0], ast.Constant)
            and test.comparators[0].value == "only"):
        return [".notOnly"], [".only"]
    if (isinstance(test, ast.Attribute) and test.attr == "generate_namespace_types" and isinstance(test.value, ast.Attribute)
            and test.value.attr == "_generator" and isinstance(test.value.value, ast.Name) and test.value.value.id == "self"):
        return [".genNsTypes"], [".notGenNsTypes"]
    raise CannotTranslate(f"guard {ast.dump(test)} not expressible")


def _leaf_call(node):
    """The generator / namespace call a statement makes: (target, fn, kwargs)."""
    if isinstance(node, ast.ListComp):
        # [x for x, _ in self._root_namespace.get_all_types()]
        if len(node.generators) != 1 or node.generators[0].ifs:
            raise CannotTranslate("list comprehension shape")
        node = node.generators[0].iter
    c = _self_call(node)
    if c is None:
        raise CannotTranslate(f"call {ast.dump(node)[:200]} is not self.<object>.<method>(...) / self.<method>(...)")
    target, fn, call = c
    target = target or "self"       # a helper of the runner itself, e.g. self._lookup_dsdl_files()
    if call.args:
        raise CannotTranslate(f"{target}.{fn}: positional arguments")
    kw = []
    for k in call.keywords:
        if k.arg is None:
            raise CannotTranslate(f"{target}.{fn}: **kwargs")
        kw.append((k.arg, _expr(k.value)))
    return target, fn, kw


def _walk_method(fn_node, method, guards, out):
    for i, st in enumerate(fn_node):
        if isinstance(st, ast.Expr) and isinstance(st.value, ast.Constant):
            continue  # docstring
        if isinstance(st, ast.If):
            g, ng = _guard(st.test)
            _walk_method(st.body, method, guards + g, out)
            if st.orelse:
                _walk_method(st.orelse, method, guards + ng, out)
            continue
        if isinstance(st, ast.Expr):
            c = _self_call(st.value)
            if c is not None and c[0] is None and c[1] == "_stdout_lister":
                if len(c[2].args) != 2 or c[2].keywords:
                    raise CannotTranslate(f"{method}: _stdout_lister call shape")
                target, fn, kw = _leaf_call(c[2].args[0])
                out.append(dict(method=method, target=target, fn=fn, guards=guards, kwargs=kw, printed=True))
                continue
            if c is not None and c[0] is not None:
                target, fn, kw = _leaf_call(st.value)
                out.append(dict(method=method, target=target, fn=fn, guards=guards, kwargs=kw, printed=False))
                continue
        raise CannotTranslate(f"{method}: statement {ast.dump(st)[:200]} not expressible")


def _runner(runners_src):
    tree = ast.parse(runners_src)
    cls = [n for n in tree.body if isinstance(n, ast.ClassDef) and n.name == "ArgparseRunner"]
    if len(cls) != 1:
        raise CannotTranslate("ArgparseRunner not found")
    fns = {n.name: n for n in cls[0].body if isinstance(n, ast.FunctionDef)}
    # run(): if self._args.X: self.M() elif ... else: self.E()
    chain, node = [], None
    body = [s for s in fns["run"].body if not (isinstance(s, ast.Expr) and isinstance(s.value, ast.Constant))]
    if len(body) != 1 or not isinstance(body[0], ast.If):
        raise CannotTranslate("ArgparseRunner.run is not a single if/elif chain")
    node = body[0]

    def only_call(stmts):
        if len(stmts) == 1 and isinstance(stmts[0], ast.Expr):
            c = _self_call(stmts[0].value)
            if c is not None and c[0] is None and not c[2].args and not c[2].keywords:
                return c[1]
        raise CannotTranslate("ArgparseRunner.run: a branch is not a single `self.<method>()`")
    while True:
        d = _self_args(node.test)
        if d is None:
            raise CannotTranslate("ArgparseRunner.run: a test is not `self._args.<dest>`")
        chain.append((d, only_call(node.body)))
        if len(node.orelse) == 1 and isinstance(node.orelse[0], ast.If):
            node = node.orelse[0]
            continue
        run_else = only_call(node.orelse)
        break
    calls = []
    for m in ("_list_outputs_only", "_list_inputs_only", "_generate"):
        if m not in fns:
            raise CannotTranslate(f"ArgparseRunner.{m} not found")
        _walk_method(fns[m].body, m, [], calls)
    # _should_generate_support must have the transcribed shape
    expected_sgs = ast.dump(ast.parse(
        "def _should_generate_support(self) -> bool:\n"
        "    if self._args.generate_support == 'as-needed':\n"
        "        return self._args.omit_serialization_support is None or not self._args.omit_serialization_support\n"
        "    return bool(self._args.generate_support in ('always', 'only'))\n").body[0])
    if ast.dump(fns["_should_generate_support"]) != expected_sgs:
        raise CannotTranslate("_should_generate_support no longer has the transcribed shape")
    # _build_post_processor_list_from_args
    rules = []
    body = [s for s in fns["_build_post_processor_list_from_args"].body
            if not (isinstance(s, ast.Expr) and isinstance(s.value, ast.Constant))]
    if not (isinstance(body[0], ast.AnnAssign) and isinstance(body[0].target, ast.Name) and isinstance(body[0].value, ast.List)
            and not body[0].value.elts):
        raise CannotTranslate("_build_post_processor_list_from_args: first statement is not `post_processors = []`")
    lst = body[0].target.id
    if not (isinstance(body[-1], ast.Return) and isinstance(body[-1].value, ast.Name) and body[-1].value.id == lst):
        raise CannotTranslate("_build_post_processor_list_from_args: does not end in `return post_processors`")

    def ctor(node):
        if not (isinstance(node, ast.Expr) and isinstance(node.value, ast.Call) and isinstance(node.value.func, ast.Attribute)
                and node.value.func.attr == "append" and isinstance(node.value.func.value, ast.Name)
                and node.value.func.value.id == lst and len(node.value.args) == 1):
            raise CannotTranslate("_build_post_processor_list_from_args: statement is not `post_processors.append(...)`")
        c = node.value.args[0]
        if isinstance(c, ast.Call) and isinstance(c.func, ast.Name) and not c.keywords:
            a = [_self_args(x) for x in c.args]
            if c.func.id == "TrimTrailingWhitespace" and not a:
                return ".trim"
            if c.func.id == "LimitEmptyLines" and len(a) == 1 and a[0]:
                return f".limitEmptyLines {_lit(a[0])}"
            if c.func.id == "SetFileMode" and len(a) == 1 and a[0]:
                return f".setFileMode {_lit(a[0])}"
        sc = _self_call(c)
        if sc is not None and sc[0] is None and sc[1] == "_build_ext_program_postprocessor" and len(c.args) == 1 and _self_args(c.args[0]):
            return f".extProgram {_lit(_self_args(c.args[0]))} {_lit(ext_args_dest)}"
        raise CannotTranslate(f"post-processor constructor {ast.dump(c)[:200]} not expressible")

    # _build_ext_program_postprocessor: [program] + (args.<dest> or [])
    expected_ext = ast.dump(ast.parse(
        "def _build_ext_program_postprocessor(self, program: str) -> FilePostProcessor:\n"
        "    subprocess_args = [program]\n"
        "    if hasattr(self._args, 'pp_run_program_arg') and self._args.pp_run_program_arg is not None:\n"
        "        for program_arg in self._args.pp_run_program_arg:\n"
        "            subprocess_args.append(program_arg)\n"
        "    return ExternalProgramEditInPlace(subprocess_args)\n").body[0])
    if ast.dump(fns["_build_ext_program_postprocessor"]) != expected_ext:
        raise CannotTranslate("_build_ext_program_postprocessor no longer has the transcribed shape")
    ext_args_dest = "pp_run_program_arg"

    def cond(test):
        d = _self_args(test)
        if d is not None:
            return f".truthy {_lit(d)}"
        if isinstance(test, ast.BoolOp) and isinstance(test.op, ast.And) and len(test.values) == 2:
            h, n = test.values
            if (isinstance(h, ast.Call) and isinstance(h.func, ast.Name) and h.func.id == "hasattr" and len(h.args) == 2
                    and isinstance(h.args[0], ast.Attribute) and h.args[0].attr == "_args" and isinstance(h.args[1], ast.Constant)
                    and isinstance(n, ast.Compare) and len(n.ops) == 1 and isinstance(n.ops[0], ast.IsNot)
                    and isinstance(n.comparators[0], ast.Constant) and n.comparators[0].value is None
                    and _self_args(n.left) == h.args[1].value):
                return f".notNone {_lit(h.args[1].value)}"
        raise CannotTranslate(f"post-processor condition {ast.dump(test)[:200]} not expressible")
    for st in body[1:-1]:
        if isinstance(st, ast.If):
            if st.orelse or len(st.body) != 1:
                raise CannotTranslate("_build_post_processor_list_from_args: if with else / several statements")
            rules.append((cond(st.test), ctor(st.body[0])))
        else:
            rules.append((".always", ctor(st)))
    return chain, run_else, calls, rules


# ---------------------------------------------------------------------------------------------------------------
HEADER = '''/-! GENERATED by translate/cliargs.py from the tree under check (the real `argparse` parser object of
`nunavut.cli._make_parser()`, `_post_process_args`, and `ArgparseRunner` in cli/runners.py by AST) — do not edit. -/
namespace NunavutVerif.Gen.CliArgs

/-- A converted command-line value. -/
inductive Scalar
  | int (i : Int)
  | str (s : String)
  deriving DecidableEq, Repr

/-- What an attribute of the parsed `argparse.Namespace` can hold. -/
inductive Val
  | none
  | bool (b : Bool)
  | sc (s : Scalar)
  | list (l : List Scalar)
  deriving DecidableEq, Repr

inductive ActKind | store | storeTrue | append | count | help | version
  deriving DecidableEq, Repr

/-- `nargs`: `zero` for flags, `one` = `None`, `optional` = `'?'`, `zeroOrMore` = `'*'`. -/
inductive Nargs | zero | one | optional | zeroOrMore
  deriving DecidableEq, Repr

/-- `type=`: none | `extension_type` | `lambda value: int(value, 0)` | `int` | `pathlib.Path` -/
inductive TypeKind | str | ext | intAuto | intDec | path
  deriving DecidableEq, Repr

/-- One `argparse` action.  `flags = []`: the positional.  `dest = ""`: `SUPPRESS` (help / version).
`choices = []`: unrestricted. -/
structure OptSpec where
  flags : List String
  dest : String
  kind : ActKind
  nargs : Nargs
  type : TypeKind
  dflt : Val
  choices : List String
  deriving DecidableEq, Repr

/-- `if args.<flagDest> and args.<strDest> == "<value>": self.error(...)` in `_post_process_args` -/
structure Rejection where
  flagDest : String
  strDest : String
  value : String
  deriving DecidableEq, Repr

/-- A keyword argument value in a call on a generator. -/
inductive Expr
  | arg (dest : String)       -- `self._args.<dest>`
  | notArg (dest : String)    -- `not self._args.<dest>`
  | const (b : Bool)
  deriving DecidableEq, Repr

inductive Guard
  | shouldGenerateSupport | notShouldGenerateSupport   -- `if self._should_generate_support():` / its else branch
  | notOnly | only                                     -- `if self._args.generate_support != "only":`
  | genNsTypes | notGenNsTypes                         -- `if self._generator.generate_namespace_types:`
  deriving DecidableEq, Repr

/-- One call a run method makes: `self.<target>.<fn>(**kwargs)` under the enclosing `if`s; `printed`: the result is
handed to `_stdout_lister`. -/
structure CallSpec where
  method : String
  target : String
  fn : String
  guards : List Guard
  kwargs : List (String × Expr)
  printed : Bool
  deriving DecidableEq, Repr

inductive PPCond
  | always
  | truthy (dest : String)     -- `if self._args.<dest>:`
  | notNone (dest : String)    -- `if hasattr(self._args, "<dest>") and self._args.<dest> is not None:`
  deriving DecidableEq, Repr

inductive PPCtor
  | trim                                         -- `TrimTrailingWhitespace()`
  | limitEmptyLines (dest : String)              -- `LimitEmptyLines(self._args.<dest>)`
  | extProgram (dest : String) (argsDest : String)  -- `ExternalProgramEditInPlace([<dest>] + (<argsDest> or []))`
  | setFileMode (dest : String)                  -- `SetFileMode(self._args.<dest>)`
  deriving DecidableEq, Repr

/-- One statement of `_build_post_processor_list_from_args`: `[if cond:] post_processors.append(ctor)`. -/
structure PPRule where
  cond : PPCond
  ctor : PPCtor
  deriving DecidableEq, Repr
'''


def render(rows, rejections, chain, run_else, calls, rules, env_vars) -> str:
    out = [HEADER]
    out.append("/-- `parser._actions`, in order. -/")
    out.append("def actions : List OptSpec := [")
    for i, r in enumerate(rows):
        out.append(f"  {{ flags := {_lst(r['flags'])}, dest := {_lit(r['dest'])}, kind := .{r['kind']}, nargs := .{r['nargs']}, "
                   f"type := .{r['type']},\n    dflt := {r['dflt']}, choices := {_lst(r['choices'])} }}" + ("," if i + 1 < len(rows) else ""))
    out.append("]\n")
    out.append("def rejections : List Rejection := ["
               + ", ".join(f"⟨{_lit(a)}, {_lit(b)}, {_lit(c)}⟩" for a, b, c in rejections) + "]\n")
    out.append("/-- The `if`/`elif` chain of `ArgparseRunner.run`: (tested dest, method called). -/")
    out.append("def runChain : List (String × String) := [" + ", ".join(f"({_lit(d)}, {_lit(m)})" for d, m in chain) + "]")
    out.append(f"def runElse : String := {_lit(run_else)}\n")
    out.append("/-- Every call of `_list_outputs_only`, `_list_inputs_only`, `_generate` on a generator or the namespace, in source order. -/")
    out.append("def calls : List CallSpec := [")
    for i, c in enumerate(calls):
        kw = "[" + ", ".join(f"({_lit(k)}, {v})" for k, v in c["kwargs"]) + "]"
        out.append(f"  {{ method := {_lit(c['method'])}, target := {_lit(c['target'])}, fn := {_lit(c['fn'])}, "
                   f"guards := [{', '.join(c['guards'])}],\n    kwargs := {kw}, printed := {'true' if c['printed'] else 'false'} }}"
                   + ("," if i + 1 < len(calls) else ""))
    out.append("]\n")
    out.append("/-- `_build_post_processor_list_from_args`, statement by statement. -/")
    out.append("def ppRules : List PPRule := [" + ", ".join(f"⟨{c}, {k}⟩" for c, k in rules) + "]\n")
    out.append("/-- The environment variables whose entries `main` appends (sorted) to `--lookup-dir`: the runner uses that one list\n"
               "both for the DSDL front end and for listing the lookup definitions. -/")
    out.append("def envIncludeVars : List String := " + _lst(env_vars) + "\n")
    out.append("end NunavutVerif.Gen.CliArgs\n")
    return "\n".join(out)


def _env_includes(cli_src, runners_src):
    """Where lookup directories come from: `main` must hand `args.lookup_dir` plus the sorted entries of the environment
    variables it reads through `_extra_includes_from_env("<NAME>")` to `ArgparseRunner` as `extra_includes`, and the runner must
    use that one list (`self._extra_includes`) both for the DSDL front end and for the listing of lookup definitions."""
    tree = ast.parse(cli_src)
    main = [n for n in tree.body if isinstance(n, ast.FunctionDef) and n.name == "main"]
    if len(main) != 1:
        raise CannotTranslate("cli/__init__.py: main not found")
    names, env_vars = [], {}
    for node in ast.walk(main[0]):
        if isinstance(node, ast.Assign) and len(node.targets) == 1 and isinstance(node.targets[0], ast.Name) and isinstance(node.value, ast.Call) \
                and isinstance(node.value.func, ast.Name) and node.value.func.id == "_extra_includes_from_env":
            a = node.value.args
            if len(a) != 1 or not (isinstance(a[0], ast.Constant) and isinstance(a[0].value, str)):
                raise CannotTranslate("_extra_includes_from_env with a non-literal variable name")
            env_vars[node.targets[0].id] = a[0].value
    added = []
    for node in ast.walk(main[0]):
        if isinstance(node, ast.AugAssign) and isinstance(node.op, ast.Add) and isinstance(node.target, ast.Name) and node.target.id == "extra_includes":
            v = node.value
            if isinstance(v, ast.Call) and isinstance(v.func, ast.Name) and v.func.id == "sorted" and len(v.args) == 1 \
                    and isinstance(v.args[0], ast.Name) and v.args[0].id in env_vars:
                added.append(env_vars[v.args[0].id])
            else:
                raise CannotTranslate("main: extra_includes += … is not `sorted(<result of _extra_includes_from_env>)`")
    runner_calls = [n for n in ast.walk(main[0]) if isinstance(n, ast.Call) and isinstance(n.func, ast.Name) and n.func.id == "ArgparseRunner"]
    ok = (len(runner_calls) == 1 and len(runner_calls[0].args) == 3 and isinstance(runner_calls[0].args[2], ast.Name)
          and runner_calls[0].args[2].id == "extra_includes" and sorted(added) == sorted(env_vars.values()))
    if not ok:
        raise CannotTranslate("main no longer hands args.lookup_dir + the environment's lookup directories to ArgparseRunner as extra_includes")
    # the runner: one list for the front end and for the listing
    rt = ast.parse(runners_src)
    cls = [n for n in rt.body if isinstance(n, ast.ClassDef) and n.name == "ArgparseRunner"][0]
    fns = {n.name: n for n in cls.body if isinstance(n, ast.FunctionDef)}

    def is_self_extra(node):
        return (isinstance(node, ast.Attribute) and node.attr == "_extra_includes" and isinstance(node.value, ast.Name) and node.value.id == "self")
    reads = [n for n in ast.walk(fns["__init__"]) if isinstance(n, ast.Call) and isinstance(n.func, ast.Name) and n.func.id == "read_dsdl_namespace"]
    if len(reads) != 1 or len(reads[0].args) < 2 or not is_self_extra(reads[0].args[1]):
        raise CannotTranslate("ArgparseRunner.__init__: read_dsdl_namespace is not called with self._extra_includes as lookup directories")
    if "_lookup_dsdl_files" in fns:
        loops = [n for n in ast.walk(fns["_lookup_dsdl_files"]) if isinstance(n, ast.For)]
        if not loops or not is_self_extra(loops[0].iter):
            raise CannotTranslate("_lookup_dsdl_files does not walk self._extra_includes (the list the DSDL front end gets)")
    assigns = [n for n in ast.walk(fns["__init__"]) if isinstance(n, ast.Assign) and len(n.targets) == 1 and is_self_extra(n.targets[0])]
    if len(assigns) != 1 or not (isinstance(assigns[0].value, ast.Name) and assigns[0].value.id == "extra_includes"):
        raise CannotTranslate("ArgparseRunner.__init__: self._extra_includes is not the extra_includes argument")
    return sorted(env_vars.values())


def collect(repo: pathlib.Path):
    src = repo / "src"
    if str(src) not in sys.path:
        sys.path.insert(0, str(src))
    cli_mod = importlib.import_module("nunavut.cli")
    cli_file = pathlib.Path(cli_mod.__file__)
    if src.resolve() not in cli_file.resolve().parents:
        raise CannotTranslate(f"nunavut.cli was imported from {cli_file}, not from {src}")
    cli_src = cli_file.read_text(encoding="utf-8")
    runners_src = (cli_file.parent / "runners.py").read_text(encoding="utf-8")
    rows = _actions(cli_mod, cli_src)
    rej = _rejections(cli_src)
    dests = {r["dest"] for r in rows if r["dest"]}
    for a, b, _ in rej:
        if a not in dests or b not in dests:
            raise CannotTranslate(f"_post_process_args reads args.{a} / args.{b}: no such dest")
    chain, run_else, calls, rules = _runner(runners_src)
    for d, _ in chain:
        if d not in dests:
            raise CannotTranslate(f"run() reads self._args.{d}: no such dest")
    env_vars = _env_includes(cli_src, runners_src)
    return rows, rej, chain, run_else, calls, rules, env_vars


def main(repo: pathlib.Path, dest: pathlib.Path = OUT) -> dict:
    rows, rej, chain, run_else, calls, rules, env_vars = collect(repo)
    text = render(rows, rej, chain, run_else, calls, rules, env_vars)
    dest.parent.mkdir(parents=True, exist_ok=True)
    changed = (not dest.exists()) or dest.read_text() != text
    if changed:
        dest.write_text(text)
    return {"changed": changed, "actions": len(rows), "rejections": rej, "chain": chain, "else": run_else,
            "calls": [(c["method"], c["target"], c["fn"]) for c in calls], "ppRules": rules, "envIncludeVars": env_vars}


if __name__ == "__main__":
    import os
    r = main(pathlib.Path(os.environ.get("VERIF_REPO", "/repo")))
    print("changed" if r["changed"] else "unchanged", r["actions"], "actions;", r["rejections"], r["chain"], r["else"], len(r["calls"]), "calls;", r["ppRules"])
