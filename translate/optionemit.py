"""
C17 translator, emission side: the table of *emission sites* of the language-option guard, read from the Jinja AST of
the four anchored templates and of every template they import / include / extend, plus the built-in language
configuration (`properties.yaml` `options:` / `defaults:`) the option values start from -- regenerated from the tree
under check on every run into `lean/NunavutVerif/Gen/OptionEmit.lean` (and returned as a dict to the harness).

An emission site is an output statement that prints `<expr> | [ln.c.]to_static_assertion_value`.  For each one:
  file, loop iterable, loop variables,
  guards (outermost first): open C preprocessor conditionals at the site (the header's own include guard is recognised),
        then every enclosing Jinja construct that decides whether / how often / when the statement is rendered: `if` /
        `elif` / `else` tests, loop filters, outer loops, `continue` / `break` in the loop, `{% set %}` blocks, macros,
        call / filter blocks, `{% block %}`s, and "lives in a template reached by import / include" -- the only ones the
        model interprets are `not nunavut.support.omit` (if-test or loop filter) and the include guard;
  name expression, value expression, statement form (`#define N V` / `constexpr T N = V;` / `static_assert( qN op V, …`).
Constructs the translator does not know are carried into the table *by name* (Guard.other / NameExpr.other / …): the
kernel-checked table theorem then fails and the harness reports the named construct.  What cannot even be walked
(dynamic template names, unreadable files) raises TranslateError.
"""
import os
import pathlib
import re
import sys

VERIF = pathlib.Path(__file__).resolve().parent.parent
REPO = pathlib.Path(os.environ.get("VERIF_REPO", "/repo")).resolve()
OUT = VERIF / "lean" / "NunavutVerif" / "Gen" / "OptionEmit.lean"
LANGS = ("c", "cpp")
ENTRY = {
    ("c", "support"): "lang/c/support/serialization.j2",
    ("c", "type"): "lang/c/templates/base.j2",
    ("cpp", "support"): "lang/cpp/support/serialization.j2",
    ("cpp", "type"): "lang/cpp/templates/base.j2",
}
VALUE_FILTERS = ("to_static_assertion_value", "ln.c.to_static_assertion_value")


class TranslateError(Exception):
    pass


def _ensure_path():
    p = str(REPO / "src")
    if p not in sys.path:
        sys.path.insert(0, p)


def _jinja():
    _ensure_path()
    from nunavut.jinja.environment import CodeGenEnvironmentBuilder
    from nunavut.jinja import jinja2
    from nunavut.jinja.jinja2 import nodes
    env = jinja2.Environment(extensions=CodeGenEnvironmentBuilder.DEFAULT_JINJA_EXTENSIONS)
    return env, nodes


# ---------------------------------------------------------------------------------------------------------------------
# expression source (normalised)
# ---------------------------------------------------------------------------------------------------------------------
def src(n, N):
    """Normalised source text of an expression node."""
    if n is None:
        return ""
    if isinstance(n, N.Name):
        return n.name
    if isinstance(n, N.Const):
        return repr(n.value)
    if isinstance(n, N.TemplateData):
        return repr(n.data)
    if isinstance(n, N.Getattr):
        return f"{src(n.node, N)}.{n.attr}"
    if isinstance(n, N.Getitem):
        return f"{src(n.node, N)}[{src(n.arg, N)}]"
    if isinstance(n, (N.Call, N.Filter, N.Test)):
        args = [src(a, N) for a in n.args] + [f"{k.key}={src(k.value, N)}" for k in n.kwargs]
        if n.dyn_args is not None:
            args.append("*" + src(n.dyn_args, N))
        if n.dyn_kwargs is not None:
            args.append("**" + src(n.dyn_kwargs, N))
        a = ", ".join(args)
        if isinstance(n, N.Call):
            return f"{src(n.node, N)}({a})"
        if isinstance(n, N.Filter):
            return f"{src(n.node, N)} | {n.name}" + (f"({a})" if a else "")
        return f"{src(n.node, N)} is {n.name}" + (f"({a})" if a else "")
    if isinstance(n, N.Not):
        return f"not {src(n.node, N)}"
    if isinstance(n, N.And):
        return f"({src(n.left, N)} and {src(n.right, N)})"
    if isinstance(n, N.Or):
        return f"({src(n.left, N)} or {src(n.right, N)})"
    if isinstance(n, N.Compare):
        return src(n.expr, N) + "".join(f" {o.op} {src(o.expr, N)}" for o in n.ops)
    if isinstance(n, N.CondExpr):
        return f"({src(n.expr1, N)} if {src(n.test, N)} else {src(n.expr2, N)})"
    if isinstance(n, (N.Tuple, N.List)):
        return ", ".join(src(i, N) for i in n.items)
    if isinstance(n, N.BinExpr):
        return f"({src(n.left, N)} {n.operator} {src(n.right, N)})"
    if isinstance(n, N.UnaryExpr):
        return f"{n.operator}{src(n.node, N)}"
    if isinstance(n, N.Concat):
        return " ~ ".join(src(i, N) for i in n.nodes)
    return type(n).__name__ + "(" + ", ".join(src(c, N) for c in n.iter_child_nodes()) + ")"


def is_not_omit(t, N):
    return isinstance(t, N.Not) and src(t.node, N) == "nunavut.support.omit"


def has_value_filter(n, N):
    return any(f.name in VALUE_FILTERS for f in n.find_all(N.Filter)) or \
        (isinstance(n, N.Filter) and n.name in VALUE_FILTERS)


# ---------------------------------------------------------------------------------------------------------------------
# walking
# ---------------------------------------------------------------------------------------------------------------------
PASS_THROUGH = ("Scope", "OverlayScope", "With", "ScopedEvalContextModifier", "EvalContextModifier")


class Walker:
    def __init__(self, env, N, entry_rel):
        self.env, self.N = env, N
        self.entry = entry_rel
        self.dir = (REPO / "src/nunavut" / entry_rel).parent
        self.sites = []
        self.visited = set()

    def parse(self, name):
        p = self.dir / name
        if not p.is_file():
            raise TranslateError(f"{self.entry}: template {name!r} referenced but not found next to it")
        return self.env.parse(p.read_text())

    def walk_file(self, name, guards):
        if name in self.visited:
            return
        self.visited.add(name)
        tree = self.parse(name)
        self.texts = getattr(self, "texts", {})
        self.walk_body(tree.body, guards, name, tree, None)

    def follow(self, node, kind, guards):
        N = self.N
        t = node.template
        names = []
        if isinstance(t, N.Const) and isinstance(t.value, str):
            names = [t.value]
        elif isinstance(t, (N.Tuple, N.List)) and all(isinstance(i, N.Const) and isinstance(i.value, str) for i in t.items):
            names = [i.value for i in t.items]
        else:
            raise TranslateError(f"{self.entry}: {kind} with a template name that is not a string literal: {src(t, N)}")
        for nm in names:
            saved_dir = self.dir
            self.walk_file(nm, guards + [("other", kind, nm)])
            self.dir = saved_dir

    def walk_body(self, stmts, guards, fname, tree, loop):
        """loop: None or dict(iter, vars, node) of the innermost enclosing For."""
        N = self.N
        for s in stmts:
            tn = type(s).__name__
            if isinstance(s, N.Output):
                self.check_output(s, guards, fname, tree, loop)
            elif isinstance(s, N.For):
                g = list(guards)
                if loop is not None:
                    g.append(("other", "outer-loop", f"for {loop['vars']} in {loop['iter']}"))
                if s.test is not None:
                    g.append(("notOmit",) if is_not_omit(s.test, N) else ("other", "loop-filter", src(s.test, N)))
                if s.recursive:
                    g.append(("other", "recursive-loop", ""))
                for j in s.find_all((N.Continue, N.Break)):
                    g.append(("other", "loop-jump", type(j).__name__.lower()))
                inner = {"iter": src(s.iter, N), "vars": src(s.target, N), "node": s}
                self.walk_body(s.body, g, fname, tree, inner)
                self.walk_body(s.else_, g + [("other", "for-else", inner["iter"])], fname, tree, loop)
            elif isinstance(s, N.If):
                def gi(kind, t):
                    return ("notOmit",) if (kind == "jinja-if" and is_not_omit(t, N)) else ("other", kind, src(t, N))
                self.walk_body(s.body, guards + [gi("jinja-if", s.test)], fname, tree, loop)
                neg = [("other", "jinja-else-of", src(s.test, N))]
                for e in s.elif_:
                    self.walk_body(e.body, guards + neg + [("other", "jinja-elif", src(e.test, N))], fname, tree, loop)
                    neg = neg + [("other", "jinja-else-of", src(e.test, N))]
                self.walk_body(s.else_, guards + neg, fname, tree, loop)
            elif isinstance(s, N.Macro):
                self.walk_body(s.body, guards + [("other", "macro", s.name)], fname, tree, None)
            elif isinstance(s, N.CallBlock):
                self.walk_body(s.body, guards + [("other", "call-block", src(s.call, N))], fname, tree, loop)
            elif isinstance(s, N.FilterBlock):
                self.walk_body(s.body, guards + [("other", "filter-block", src(s.filter, N))], fname, tree, loop)
            elif isinstance(s, N.AssignBlock):
                self.walk_body(s.body, guards + [("other", "set-block", src(s.target, N))], fname, tree, loop)
            elif isinstance(s, N.Block):
                self.walk_body(s.body, guards + [("other", "block", s.name)], fname, tree, loop)
            elif isinstance(s, N.Extends):
                self.follow(s, "extends", guards)
            elif isinstance(s, N.Include):
                self.follow(s, "included-from", guards)
            elif isinstance(s, (N.Import, N.FromImport)):
                self.follow(s, "imported-from", guards)
            elif tn in PASS_THROUGH:
                self.walk_body(getattr(s, "body", []), guards, fname, tree, loop)
            elif isinstance(s, (N.Assign, N.ExprStmt, N.Continue, N.Break)):
                if has_value_filter(s, N):
                    # the encoded value is computed here and printed elsewhere: the site is not a plain output statement
                    self.sites.append({"file": fname, "loopOver": loop["iter"] if loop else "", "loopVars": loop["vars"] if loop else "",
                                       "guards": guards + [("other", "computed-in", tn + ": " + src(s, N)[:120])],
                                       "nameExpr": ("other", ""), "valueExpr": ("other", src(s, N)[:160]), "form": ("other", tn)})
            else:
                body = getattr(s, "body", None)
                if isinstance(body, list):
                    self.walk_body(body, guards + [("other", "statement", tn)], fname, tree, loop)
                elif has_value_filter(s, N):
                    raise TranslateError(f"{fname}: `to_static_assertion_value` used inside an unknown statement {tn}")

    # -----------------------------------------------------------------------------------------------------------------
    def text_before(self, tree, out_node, upto_index):
        """All literal template text of the file that precedes child `upto_index` of `out_node`, in document order."""
        N = self.N
        chunks = []

        def rec(n):
            if n is out_node:
                for c in n.nodes[:upto_index]:
                    chunks.append(c.data if isinstance(c, N.TemplateData) else "⟨" + src(c, N) + "⟩")
                return True
            if isinstance(n, N.Output):
                for c in n.nodes:
                    chunks.append(c.data if isinstance(c, N.TemplateData) else "⟨" + src(c, N) + "⟩")
                return False
            if isinstance(n, (N.AssignBlock, N.Macro)) and not any(x is out_node for x in n.find_all(N.Output)):
                return False     # captured text: not part of the header at this position
            for c in n.iter_child_nodes():
                if rec(c):
                    return True
            return False
        if not rec(tree):
            raise TranslateError("internal: site not found in its own tree")
        return "".join(chunks)

    def cpp_guards(self, text):
        """Open preprocessor conditionals after `text` (outermost first)."""
        stack = []
        lines = text.split("\n")
        first_conditional_seen = False
        for i, ln in enumerate(lines[:-1]):     # the last (partial) line is the site's own line
            m = re.match(r"\s*#\s*(ifndef|ifdef|if|elif|else|endif)\b\s*(.*?)\s*$", ln)
            if not m:
                continue
            d, rest = m.group(1), m.group(2)
            rest = re.sub(r"\s*(//.*|/\*.*\*/)\s*$", "", rest)
            if d in ("ifndef", "ifdef", "if"):
                is_guard = False
                if d == "ifndef" and not first_conditional_seen:
                    nxt = next((x for x in lines[i + 1:] if x.strip()), "")
                    mm = re.match(r"\s*#\s*define\s+(.*?)\s*$", nxt)
                    is_guard = bool(mm) and mm.group(1) == rest
                first_conditional_seen = True
                stack.append(("includeGuard",) if is_guard else ("other", "cpp-conditional", f"#{d} {rest}".strip()))
            elif d in ("elif", "else"):
                if stack:
                    top = stack.pop()
                    was = top[2] if top[0] == "other" else "#ifndef <include guard>"
                    stack.append(("other", "cpp-conditional", f"#{d} {rest}".strip() + f" (of {was})"))
            elif d == "endif":
                if stack:
                    stack.pop()
        return stack

    def is_name_expr(self, c):
        """`key | id` or `"…{}".format(key) | ln.c.macrofy`: the expression that spells an option's name in generated code."""
        N = self.N
        if not isinstance(c, N.Filter) or c.name not in ("id", "ln.c.macrofy", "macrofy"):
            return False
        return any(isinstance(x, N.Name) and x.name == "key" for x in c.find_all(N.Name))

    def check_output(self, out, guards, fname, tree, loop):
        N = self.N
        has_site = any(not isinstance(c, N.TemplateData) and has_value_filter(c, N) for c in out.nodes)
        if not has_site and loop is not None and loop["iter"] == "options.items()":
            # a statement of the options loop that spells an option's name without its encoded value (e.g. a definition of
            # another type, an `#undef`): part of what the guard compiles to, outside the model
            for i, c in enumerate(out.nodes):
                if not isinstance(c, N.TemplateData) and self.is_name_expr(c):
                    before = "".join(x.data for x in out.nodes[:i] if isinstance(x, N.TemplateData)).split("\n")[-1] if i else ""
                    k = i + 1
                    after = ""
                    while k < len(out.nodes) and isinstance(out.nodes[k], N.TemplateData):
                        after += out.nodes[k].data
                        k += 1
                    self.sites.append({"file": fname, "loopOver": loop["iter"], "loopVars": loop["vars"],
                                       "guards": self.cpp_guards(self.text_before(tree, out, i)) + list(guards),
                                       "nameExpr": ("other", src(c, N)), "valueExpr": ("other", "<none>"),
                                       "form": ("other", f"{before}⟨N⟩{after.split(chr(10))[0]}")})
            return
        for i, c in enumerate(out.nodes):
            if isinstance(c, N.TemplateData) or not has_value_filter(c, N):
                continue
            # value expression
            if isinstance(c, N.Filter) and c.name in VALUE_FILTERS and isinstance(c.node, N.Name) and c.node.name == "value" \
                    and not c.args and not c.kwargs and c.dyn_args is None and c.dyn_kwargs is None:
                vexpr = ("encOfValue",)
            else:
                vexpr = ("other", src(c, N))
            # name expression: the nearest preceding expression of the same output statement on the same line
            j = i - 1
            between = ""
            while j >= 0 and isinstance(out.nodes[j], N.TemplateData):
                between = out.nodes[j].data + between
                j -= 1
            if j >= 0 and "\n" not in between:
                ne = out.nodes[j]
                if isinstance(ne, N.Filter) and ne.name == "id" and isinstance(ne.node, N.Name) and ne.node.name == "key" and not ne.args:
                    nexpr = ("idOfKey",)
                elif isinstance(ne, N.Filter) and ne.name == "ln.c.macrofy" and not ne.args and isinstance(ne.node, N.Call) \
                        and isinstance(ne.node.node, N.Getattr) and ne.node.node.attr == "format" \
                        and isinstance(ne.node.node.node, N.Const) and isinstance(ne.node.node.node.value, str) \
                        and ne.node.node.node.value.endswith("{}") and ne.node.node.node.value.count("{") == 1 \
                        and len(ne.node.args) == 1 and isinstance(ne.node.args[0], N.Name) and ne.node.args[0].name == "key" \
                        and not ne.node.kwargs:
                    nexpr = ("macrofyPrefixed", ne.node.node.node.value[:-2])
                else:
                    nexpr = ("other", src(ne, N))
                before = ""
                k = j - 1
                while k >= 0 and isinstance(out.nodes[k], N.TemplateData):
                    before = out.nodes[k].data + before
                    k -= 1
                before_line = before.split("\n")[-1]
            else:
                nexpr = ("other", "")
                before_line = between.split("\n")[-1]
                between = ""
            after = ""
            k = i + 1
            while k < len(out.nodes) and isinstance(out.nodes[k], N.TemplateData):
                after += out.nodes[k].data
                k += 1
            after_head = after.split("\n")[0] if after else ""
            skeleton = f"{before_line}⟨N⟩{between}⟨V⟩{after_head}"
            form = ("other", skeleton)
            m_def = re.fullmatch(r"#\s*define\s+", before_line)
            m_cx = re.fullmatch(r"\s*(?:static\s+|inline\s+)*constexpr\s+([\w:]+(?:\s+[\w:]+)*)\s+", before_line)
            m_sa = re.fullmatch(r"\s*static_assert\(\s*([\w:]*)", before_line)
            if nexpr[0] != "other" or nexpr[1]:
                if m_def and re.fullmatch(r"[ \t]+", between) and after.startswith("\n"):
                    form = ("define", ("macro",))
                elif m_cx and re.fullmatch(r"\s*=\s*", between) and re.match(r"\s*;", after_head):
                    ty = m_cx.group(1)
                    form = ("define", ("constexprVar", ("uint32",) if ty == "std::uint32_t" else ("other", ty)))
                elif m_sa and re.fullmatch(r"\s*(\S+)\s*", between) and re.match(r"\s*,", after_head):
                    op = between.strip()
                    form = ("staticAssert", m_sa.group(1), ("eq",) if op == "==" else ("other", op))
            pre = self.cpp_guards(self.text_before(tree, out, i))
            self.sites.append({"file": fname, "loopOver": loop["iter"] if loop else "", "loopVars": loop["vars"] if loop else "",
                               "guards": pre + list(guards), "nameExpr": nexpr, "valueExpr": vexpr, "form": form})


def find_sites():
    """[{lang, side, file, loopOver, loopVars, guards, nameExpr, valueExpr, form}] over the four entry templates."""
    env, N = _jinja()
    out = []
    for (lang, side), rel in ENTRY.items():
        w = Walker(env, N, rel)
        w.walk_file(pathlib.Path(rel).name, [])
        for s in w.sites:
            d = dict(s, lang=lang, side=side)
            d["file"] = str(pathlib.Path(rel).parent / s["file"])
            out.append(d)
    return out


EXPECTED_GUARDS = {"support": [("includeGuard",)], "type": [("includeGuard",), ("notOmit",)]}


def unexpected(sites):
    """Human-readable list of what in the table differs from the shape the model assumes (for the harness report)."""
    bad = []
    for (lang, side), rel in ENTRY.items():
        ss = [s for s in sites if s["lang"] == lang and s["side"] == side]
        if len(ss) != 1:
            bad.append({"header": f"{lang}/{side}", "problem": f"{len(ss)} emission sites (expected exactly 1)",
                        "sites": [{"file": s["file"], "guards": [list(g) for g in s["guards"]]} for s in ss]})
        for s in ss:
            gs = [tuple(g) for g in s["guards"]]
            extra = [list(g) for g in gs if g not in EXPECTED_GUARDS[side]]
            missing = [list(g) for g in EXPECTED_GUARDS[side] if g not in gs]
            item = {}
            if extra:
                item["unexpected_guards"] = extra
            if missing:
                item["missing_guards"] = missing
            if s["loopOver"] != "options.items()" or s["loopVars"] != "key, value":
                item["loop"] = f"for {s['loopVars']} in {s['loopOver']}"
            if s["nameExpr"][0] == "other":
                item["name_expression"] = s["nameExpr"][1]
            if s["valueExpr"][0] == "other":
                item["value_expression"] = s["valueExpr"][1]
            f = s["form"]
            want = {("c", "support"): ("define", ("macro",)), ("cpp", "support"): ("define", ("constexprVar", ("uint32",))),
                    ("c", "type"): ("staticAssert", "", ("eq",)),
                    ("cpp", "type"): ("staticAssert", "nunavut::support::options::", ("eq",))}[(lang, side)]
            if f != want:
                item["statement_form"] = repr(f)
            if item:
                bad.append(dict({"header": f"{lang}/{side}", "file": s["file"]}, **item))
    return bad


# ---------------------------------------------------------------------------------------------------------------------
# built-in configuration
# ---------------------------------------------------------------------------------------------------------------------
def file_config():
    _ensure_path()
    import yaml
    props = yaml.safe_load((REPO / "src/nunavut/lang/properties.yaml").read_text())
    cfg = {}
    for lang in LANGS:
        sect = props.get("nunavut.lang." + lang)
        if sect is None or not isinstance(sect.get("options"), dict):
            raise TranslateError(f"properties.yaml: no options for {lang}")
        presets = sect.get("defaults") or {}
        if not isinstance(presets, dict) or not all(isinstance(k, str) and isinstance(v, dict) for k, v in presets.items()):
            raise TranslateError(f"properties.yaml: `defaults:` of {lang} is not a mapping of mappings")
        cfg[lang] = {"options": dict(sect["options"]), "presets": {k: dict(v) for k, v in presets.items()}}
    return cfg


# ---------------------------------------------------------------------------------------------------------------------
# Lean emission
# ---------------------------------------------------------------------------------------------------------------------
def lean_str(s):
    from translate.optiondomain import lean_str as ls
    return ls(s)


def lean_val(v):
    if isinstance(v, bool):
        return ".bool true" if v else ".bool false"
    if isinstance(v, int):
        return f".int ({v})"
    if isinstance(v, str):
        return f".str {lean_str(v)}"
    return ".other"


def lean_guard(g):
    if g[0] in ("notOmit", "includeGuard"):
        return "." + g[0]
    return f".other {lean_str(g[1])} {lean_str(g[2])}"


def lean_form(f):
    if f[0] == "define":
        df = f[1]
        if df[0] == "macro":
            return ".define .macro"
        ty = df[1]
        return ".define (.constexprVar %s)" % (".uint32" if ty[0] == "uint32" else f"(.other {lean_str(ty[1])})")
    if f[0] == "staticAssert":
        op = f[2]
        return ".staticAssert %s %s" % (lean_str(f[1]), ".eq" if op[0] == "eq" else f"(.other {lean_str(op[1])})")
    return f".other {lean_str(f[1])}"


def lean_set(o):
    return "[" + ", ".join(f"({lean_str(k)}, {lean_val(v)})" for k, v in o.items()) + "]"


def emit(sites, cfg):
    L = ["import NunavutVerif.Model.OptionFlow",
         "/-!",
         "GENERATED by /verif/translate/optionemit.py -- do not edit; rewritten on every run of `./check C17`.",
         "Emission sites of the language-option guard as found in the Jinja AST of the C / C++ support and type templates",
         "(and of every template they import / include / extend), with the guards they are rendered / compiled under,",
         "and the built-in language configuration (`properties.yaml`) option values start from.",
         "-/",
         "namespace NunavutVerif.Options.Gen",
         "open NunavutVerif.Options",
         "",
         "def emitSites : List EmitSite := ["]
    rows = []
    for s in sites:
        ne = s["nameExpr"]
        nes = {"idOfKey": ".idOfKey", "macrofyPrefixed": None, "other": None}[ne[0]]
        if ne[0] == "macrofyPrefixed":
            nes = f".macrofyPrefixed {lean_str(ne[1])}"
        elif ne[0] == "other":
            nes = f".other {lean_str(ne[1])}"
        ve = ".encOfValue" if s["valueExpr"][0] == "encOfValue" else f".other {lean_str(s['valueExpr'][1])}"
        rows.append("  { lang := .%s, side := .%s, file := %s,\n    loopOver := %s, loopVars := %s,\n    guards := [%s],\n"
                    "    nameExpr := %s, valueExpr := %s,\n    form := %s }" % (
                        s["lang"], s["side"], lean_str(s["file"]), lean_str(s["loopOver"]), lean_str(s["loopVars"]),
                        ", ".join(lean_guard(g) for g in s["guards"]), nes, ve, lean_form(s["form"])))
    L.append(",\n".join(rows) + "]")
    L.append("")
    for lang in LANGS:
        nm = "fileConfigC" if lang == "c" else "fileConfigCpp"
        L.append(f"def {nm} : LangConfig :=")
        L.append(f"  {{ options := {lean_set(cfg[lang]['options'])},")
        L.append("    presets := [" + ",\n      ".join(f"({lean_str(k)}, {lean_set(v)})" for k, v in cfg[lang]["presets"].items()) + "] }")
        L.append("")
    L.append("def fileConfig : Lang → LangConfig\n  | .c => fileConfigC\n  | .cpp => fileConfigCpp")
    L.append("")
    L.append("end NunavutVerif.Options.Gen")
    return "\n".join(L) + "\n"


def generate(write=True):
    sites = find_sites()
    cfg = file_config()
    text = emit(sites, cfg)
    if write:
        OUT.parent.mkdir(parents=True, exist_ok=True)
        if not OUT.exists() or OUT.read_text() != text:
            OUT.write_text(text)
    return {"sites": sites, "config": cfg, "unexpected": unexpected(sites)}


if __name__ == "__main__":
    import json
    sys.path.insert(0, str(VERIF))
    d = generate(write="--dry" not in sys.argv)
    for s in d["sites"]:
        print(json.dumps({k: s[k] for k in ("lang", "side", "file", "loopOver", "guards", "nameExpr", "valueExpr", "form")}))
    print(json.dumps(d["unexpected"], indent=1))
