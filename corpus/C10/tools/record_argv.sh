#!/bin/sh
# The same recording program behind a name that does not end in ".py" (ExternalProgramEditInPlace then runs it directly).
exec /venv/bin/python "$(dirname "$0")/record_argv.py" --via "$0" "$@"
