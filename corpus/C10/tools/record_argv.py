#!/usr/bin/env python3
"""
Recording in-place 'formatter' for the C10 tie (file post-processors).

usage: record_argv.py [--log LOG] [--all] [--stamp-name] [--fail-on PATH]... [--via LAUNCHER] FILE [FILE...]

Appends one JSON line {"argv": <the complete command line this process was started with>, "mode": <permission bits of the
last argument>} to LOG, then appends the marker line "/* pp <decimal permission bits> */" to the last argument (default)
or to every non-option argument that is an existing file (--all); with --stamp-name the marker also states the base name of
the file as the program was given it (what an include-guard fixer or a banner script would use).  Exit status 3 iff the last argument is a --fail-on path.
Not idempotent on purpose: a second invocation on the same file is visible in its bytes.
"""
import json
import os
import stat
import sys


def main() -> int:
    args = sys.argv[1:]
    log, edit_all, fail_on, via, files, stamp = None, False, [], None, [], False
    i = 0
    while i < len(args):
        a = args[i]
        if a == "--log" and i + 1 < len(args):
            log = args[i + 1]; i += 2
        elif a == "--fail-on" and i + 1 < len(args):
            fail_on.append(args[i + 1]); i += 2
        elif a == "--via" and i + 1 < len(args):
            via = args[i + 1]; i += 2
        elif a == "--all":
            edit_all = True; i += 1
        elif a == "--stamp-name":
            stamp = True; i += 1
        else:
            files.append(a); i += 1
    # the command line as the parent passed it to exec (the launcher script puts `--via <its own name>` first)
    if via is not None and args[:1] == ["--via"]:
        argv = [via] + args[2:]
    else:
        argv = list(getattr(sys, "orig_argv", [sys.executable] + sys.argv))
    last = args[-1] if args else None
    mode = None
    if last is not None and os.path.isfile(last):
        mode = stat.S_IMODE(os.stat(last).st_mode)
    if log:
        try:
            with open(log, "a", encoding="utf-8") as f:
                f.write(json.dumps({"argv": argv, "mode": mode}) + "\n")
        except OSError:
            pass    # a replay may name a log directory that is gone; the edit below is what matters then
    targets = files if edit_all else ([last] if last is not None else [])
    for name in targets:
        if os.path.isfile(name):
            m = stat.S_IMODE(os.stat(name).st_mode)
            with open(name, "a", encoding="utf-8", newline="") as f:
                f.write(("/* pp %d %s */\n" % (m, os.path.basename(name))) if stamp else ("/* pp %d */\n" % m))
    return 3 if last in fail_on else 0


if __name__ == "__main__":
    sys.exit(main())
