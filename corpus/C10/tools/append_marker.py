#!/usr/bin/env python3
"""A non-idempotent in-place 'formatter' for --pp-run-program: appends one marker line to EVERY file named on its command line."""
import sys
for name in sys.argv[1:]:
    try:
        with open(name, "a", encoding="utf-8") as f:
            f.write("/* post-processed */\n")
    except OSError:
        pass
