"""
A small, self-contained writer of DSDL namespaces for the C11 check (namespace shapes, not field types):
random namespace trees with gaps (empty intermediate namespaces), several versions of one type, names that are
keywords / reserved identifiers of the target languages, nested composite references inside a root and
cross-root references through lookup directories, a few service types, optionally stropping collisions
(`register` next to `_register`, `in` next to `in_`).

Mostly valid by construction; the PyDSDL front end is the judge (the caller counts rejections).
All randomness comes from the `rng` handed in.
"""
import pathlib

# accepted by PyDSDL as namespace component and as short name (probed once against pydsdl 1.x; a name the
# front end starts to reject only costs a rejected universe, which is counted)
PLAIN = ["a", "b", "c9", "sub", "deep", "x_1", "Foo", "Bar", "node", "Type_2", "Foo_1", "Foo_1_2", "A", "zX0041", "v"]
KEYWORDS = [
    # C / C++
    "register", "if", "class", "namespace", "new", "delete", "nullptr", "typename", "double", "alignas", "_Bool",
    "NULL", "union", "static", "volatile", "inline", "restrict", "this", "try", "catch", "operator", "private",
    "public", "signed", "unsigned", "long", "short", "char", "while", "for", "do", "else", "switch", "case",
    "default", "break", "continue", "return", "goto", "sizeof", "typedef", "extern", "xor", "std", "errno", "EOF",
    # reserved patterns (C: ^PRI[a-zX], ^SIG_?[A-Z], ^E[A-Z0-9], ^FE_[A-Z] ...; C++: ^_[A-Z], leading digits n/a)
    "PRIx", "SIGA", "E1", "EX", "FE_X", "LC_A", "TIME_A", "ATOMIC_X", "INT_MAX", "UINT8_C", "memory_order_x",
    "thrd_x", "_Upper", "__foo", "bar__", "_x", "x_", "_0",
    # Python
    "def", "import", "None", "assert", "lambda", "in", "is", "pass", "yield", "global", "with", "from", "as",
    "except", "raise", "nonlocal", "async", "await", "print", "exec", "object", "id", "list", "dict", "str",
    "bytes", "abs", "min", "max",
]
# pairs that one of the languages folds onto one identifier (the documented one-way stropping)
COLLIDING = [("register", "_register"), ("in", "in_"), ("class", "_class"), ("class", "class_"), ("if", "_if"),
             ("def", "def_"), ("PRIx", "_PRIx")]
VERSIONS = [(0, 1), (1, 0), (1, 1), (1, 2), (2, 0), (1, 10), (10, 1), (11, 0), (0, 255), (255, 0), (3, 21), (32, 1)]
ROOTS = ["vendor", "uavcan_x", "reg", "zubax", "register", "class", "in", "a", "Root", "_r", "def", "namespace", "x_"]


def _pick_name(rng, used_lower, p_keyword):
    for _ in range(50):
        pool = KEYWORDS if rng.random() < p_keyword else PLAIN
        n = rng.choice(pool)
        if n.lower() not in used_lower:
            return n
    i = 0
    while f"n{i}" in used_lower:
        i += 1
    return f"n{i}"


def make_universe(rng, base: pathlib.Path, n_roots=None, max_ns=7, max_depth=6, p_keyword=0.45, p_collide=0.0,
                  p_empty_root=0.03):
    """
    Writes 1..3 root namespaces below `base` (each in its own parent directory) and returns
    [{"name", "dir", "lookup": [dirs of the roots written before], "written": [(comps, short, major, minor)]}].
    Root j may reference types of the roots written before it.
    """
    base = pathlib.Path(base)
    n_roots = n_roots or rng.choice([1, 1, 2, 2, 3])
    root_names = []
    while len(root_names) < n_roots:
        r = rng.choice(ROOTS)
        if r.lower() not in [x.lower() for x in root_names]:
            root_names.append(r)
    roots = []
    known = []  # (full dotted reference, root index) of every type written so far
    for ri, rname in enumerate(root_names):
        rdir = base / f"roots{ri}" / rname
        rdir.mkdir(parents=True)
        # ---- namespace tree: a dict from comps tuple to the set of lower-cased child names in use
        used = {(rname,): set()}
        nss = [(rname,)]
        n_ns = rng.randint(1, max_ns)
        while len(nss) < n_ns:
            # bias towards the most recently created namespace so that deep chains appear
            parent = nss[-1] if rng.random() < 0.5 else rng.choice(nss)
            if len(parent) >= max_depth:
                parent = rng.choice(nss)
                if len(parent) >= max_depth:
                    continue
            if rng.random() < p_collide:
                pair = rng.choice(COLLIDING)
                names = [n for n in pair if n.lower() not in used[parent]]
                if len(names) < 2:
                    continue
            else:
                names = [_pick_name(rng, used[parent], p_keyword)]
            for n in names:
                child = parent + (n,)
                used[parent].add(n.lower())
                used[child] = set()
                nss.append(child)
        children = {k: [c for c in nss if c[:-1] == k] for k in nss}
        leaves = [k for k in nss if not children[k]]
        empty_root = rng.random() < p_empty_root
        holders = [] if empty_root else [k for k in nss if k in leaves or rng.random() < 0.45]
        written = []
        for k in holders:
            d = rdir.joinpath(*k[1:])
            d.mkdir(parents=True, exist_ok=True)
            for _ in range(rng.choice([1, 1, 2, 3])):
                if rng.random() < p_collide:
                    pair = rng.choice(COLLIDING)
                    shorts = [n for n in pair if n.lower() not in used[k]]
                else:
                    shorts = [_pick_name(rng, used[k], p_keyword)]
                for short in shorts:
                    used[k].add(short.lower())
                    vers = rng.sample(VERSIONS, rng.choice([1, 1, 2, 3]))
                    # one body for all versions of a name (keeps minor versions bit-compatible)
                    lines = ["uint8 x0"]
                    for fi in range(rng.choice([0, 0, 1, 2])):
                        if known:
                            ref, _ = rng.choice(known)
                            lines.append(f"{ref} f{fi}" if rng.random() < 0.7 else f"{ref}[<=2] f{fi}")
                    lines.append("@sealed")
                    is_service = rng.random() < 0.12
                    if is_service:
                        lines += ["---", "uint8 y0", "@sealed"]
                    body = "\n".join(lines) + "\n"
                    new = []
                    for (ma, mi) in vers:
                        (d / f"{short}.{ma}.{mi}.dsdl").write_text(body)
                        written.append((k, short, ma, mi))
                        new.append((".".join(k + (short,)) + f".{ma}.{mi}", ri))
                    if not is_service:  # a service cannot be a field type
                        known += new
        roots.append({"name": rname, "dir": str(rdir), "lookup": [r["dir"] for r in roots], "written": written})
    return roots
