"""
C05 — exported size bounds and type metadata are correct for every type.

Proof: lean/NunavutVerif/Properties/C05.lean (length bounds of the spec layer; C literal model).  Tie: (a) the constants
the generated code exports — extent, serialization buffer size, fixed port-ID, full name and version, array capacities,
union option count, every DSDL constant (floats as bit patterns) — read by a compiled probe (C, C++) / by introspection
(Python) and compared with the values computed from the PyDSDL model and with the Lean driver's `bounds`;
(b) serialization into output buffers of 0..max+1 bytes surrounded by guard bytes: smaller than the advertised size =>
buffer-too-small, otherwise the bytes of the model; never a write outside the buffer or beyond the reported size.
Failing-input search: the same comparisons against the PyDSDL model / codec_ref.py.
"""
import fractions
import math
import struct

import pydsdl

from . import codec_engine as E
from . import codec_ref as R
from . import dsdlgen as G
from . import c05_literals


def const_expected(c):
    """(kind, value) of a DSDL constant from the PyDSDL model: ('int', n) | ('bool', 0/1) | ('float', Fraction, bits)."""
    v = c.value.native_value
    t = c.data_type
    if isinstance(t, pydsdl.BooleanType):
        return ("bool", int(bool(v)))
    if isinstance(v, str):
        v = ord(v)
    if isinstance(t, pydsdl.FloatType):
        return ("float", fractions.Fraction(v), t.bit_length)
    q = fractions.Fraction(v)
    assert q.denominator == 1
    return ("int", int(q), isinstance(t, pydsdl.SignedIntegerType))


def ulp_of(q, bits):
    """One unit in the last place of the declared binary format at |q| (subnormal spacing below the normal range)."""
    mant, emin = {16: (10, -14), 32: (23, -126), 64: (52, -1022)}[bits]
    a = abs(q)
    if a == 0:
        e = emin
    else:
        e = a.numerator.bit_length() - a.denominator.bit_length()
        if fractions.Fraction(2) ** e > a:
            e -= 1
        e = max(e, emin)
    return fractions.Fraction(2) ** (e - mant)


def float_ok(q, bits, got):
    """|got - exact| <= 1 ulp of the declared type (got: Python float, finite)."""
    if got != got or math.isinf(got):
        return False
    return abs(fractions.Fraction(got) - q) <= ulp_of(q, bits)


def parse_probe(line):
    if not line.startswith("ok"):
        return None
    d = {}
    for tok in line[2:].split():
        k, _, v = tok.partition("=")
        d[k] = v
    return d


def check_constants_compiled(t, gt, d, bad):
    for c in gt.inner.constants:
        got = d.get("const." + c.name)
        exp = const_expected(c)
        if got is None:
            bad(gt, t, "constant-missing", c.name, str(exp), "absent")
            continue
        parts = got.split(":")
        cls, size, val = parts[0], int(parts[1]), parts[2]
        if exp[0] == "float":
            if cls not in "fd":
                bad(gt, t, "constant-type", c.name, f"floating type for {c.data_type}", got)
                continue
            x = struct.unpack("<f", struct.pack("<I", int(val, 16)))[0] if cls == "f" else struct.unpack("<d", struct.pack("<Q", int(val, 16)))[0]
            if exp[2] == 64 and cls != "d":
                bad(gt, t, "constant-type", c.name, "double for float64", got)
            elif not float_ok(exp[1], exp[2], x):
                bad(gt, t, "constant-float-value", c.name, f"{exp[1]} within 1 ulp of float{exp[2]}", f"{got} = {x!r}")
        else:
            want = exp[1]
            if cls not in "sub" or size > 8:
                bad(gt, t, "constant-type", c.name, f"{want} in an integer type of at most 64 bits", got)
            elif int(val) != want:
                bad(gt, t, "constant-int-value", c.name, str(want), got)
            elif exp[0] == "int" and t.lang == "cpp" and ((cls == "s") != exp[2]):
                bad(gt, t, "constant-signedness", c.name, "signed" if exp[2] else "unsigned", got)


def make_bad(tally, ns, prefix="", extra=None):
    def bad(gt, t, kind, item, want, got):
        rp = {"type": f"{gt.full_name}.{gt.version[0]}.{gt.version[1]}", "item": item, "target": t.name, "options": t.options,
              "expected": want, "got": got}
        rp.update(extra or {})
        tally.fail({"kind": prefix + kind, "lang": t.lang, "sig": "-"},
                   f"{t.name}: exported {item} of {gt.full_name} is {got}, the DSDL definition says {want}" + (" (" + prefix.strip(":") + ")" if prefix else ""),
                   lambda: dict(rp, files=E.deps_texts(ns, gt)))
    return bad


def pydsdl_bounds(ns):
    return {gt.index: (gt.inner.bit_length_set.min, gt.inner.bit_length_set.max, gt.model.extent) for gt in ns.types}


REGEN_V1 = {
    "vns/regen/Inner.1.0.dsdl": "uint8 a\n@sealed\n",
    "vns/regen/InnerD.1.0.dsdl": "uint8 a\n@extent 64\n",
    "vns/regen/Outer.1.0.dsdl": "vns.regen.Inner.1.0 i\nuint8[<=2] x\nvns.regen.Inner.1.0[<=3] arr\n@sealed\n",
    "vns/regen/OuterD.1.0.dsdl": "uint8 K = 7\nvns.regen.Outer.1.0 o\nvns.regen.InnerD.1.0 d\nvns.regen.Inner.1.0[2] two\n@extent 2048\n",
    "vns/regen/OuterU.1.0.dsdl": "@union\nuint8 x\nvns.regen.Inner.1.0 i\nvns.regen.Outer.1.0 o\n@sealed\n",
    "vns/regen/77.Svc.1.0.dsdl": "vns.regen.Inner.1.0 q\n@sealed\n---\nvns.regen.Outer.1.0[<=2] r\n@sealed\n",
    "vns/regen/Unrelated.1.0.dsdl": "uint16 v\n@sealed\n",
}
REGEN_EDIT = {"vns/regen/Inner.1.0.dsdl": "uint8 a\nuint32 b\nuint16 K = 513\n@sealed\n"}     # only the NESTED sealed type changes size


def regeneration_stream(ctx, tally, drv):
    """
    Generate a namespace, edit only a nested type (its size changes), regenerate into the SAME output directory and
    compare with a generation into a fresh directory: every generated file, every exported constant and the
    serialization of maximum-length values (the sizes of all types that nest the edited one must follow).
    """
    import shutil
    import types as _types
    from . import codec_targets as T
    base = ctx.scratch / "regen"
    shutil.rmtree(base, ignore_errors=True)
    src = base / "dsdl"
    G.write_texts(src, REGEN_V1)
    ns1 = G.load(src / "vns")
    numpy_dir = T.ensure_numpy()

    def plan(ns, where):
        return [T.CTarget(ns, base / where / "c", "any", False), T.CppTarget(ns, base / where / "cpp17", "c++17", parts=1),
                T.PyTarget(ns, base / where / "py", numpy_dir)]
    old = plan(ns1, "same")
    for t in old:
        if not (t.build() if isinstance(t, T.PyTarget) else t.generate()):
            raise RuntimeError(f"regeneration stream: first generation failed for {t.name}: {t.build_log[-500:]}")
    for rel, text in REGEN_EDIT.items():
        (src / rel).write_text(text)
    ns2 = G.load(src / "vns")
    fresh = plan(ns2, "fresh")
    extra = {"regeneration": {"first": REGEN_V1, "edit": REGEN_EDIT}}
    for t in old:
        t.ns = ns2
    ok_old = [t.build() for t in old]
    ok_new = [t.build() for t in fresh]
    for t, a, b in zip(old, ok_old, ok_new):
        ctx.case(("regen", t.name), True)
        if not b:
            raise RuntimeError(f"regeneration stream: fresh generation failed for {t.name}: {fresh[old.index(t)].build_log[-800:]}")
        if not a:
            tally.fail({"kind": "regen:build", "lang": t.lang, "sig": "-"},
                       f"{t.name}: the tree regenerated over an existing output no longer builds (a fresh generation does)",
                       lambda t=t: dict(extra, target=t.name, log=t.build_log[-1500:]))
    # (1) file trees
    for t, f in zip(old, fresh):
        ga, gb = t.outdir / "gen", f.outdir / "gen"
        for p in sorted(gb.rglob("*")):
            if not p.is_file():
                continue
            q = ga / p.relative_to(gb)
            ctx.count("regen:files-compared")
            if not q.exists() or q.read_bytes() != p.read_bytes():
                tally.fail({"kind": "regen:stale-file", "lang": t.lang, "sig": "-"},
                           f"{t.name}: {p.relative_to(gb)} regenerated over an existing output differs from a fresh generation "
                           "after editing only a nested type",
                           lambda t=t, p=p, gb=gb: dict(extra, target=t.name, file=str(p.relative_to(gb))))
    # (2) exported constants and (3) maximum-length serialization of the regenerated tree against the edited definitions
    live = [t for t, a in zip(old, ok_old) if a]
    check_exports(ctx, ns2, live, pydsdl_bounds(ns2), make_bad(tally, ns2, "regen:", extra))
    reqs = []
    for gt in ns2.types:
        mx = (gt.inner.bit_length_set.max + 7) // 8
        for v in [G.zero_value(gt.expr), E.maximal_value(ctx.rng, gt.expr), E.maximal_value(ctx.rng, gt.expr)]:
            reqs.append(E.Req(gt, "ser", v, origin="regeneration"))
            reqs.append(E.Req(gt, "serbuf", (v, mx), origin="regeneration"))
            reqs.append(E.Req(gt, "rt", v, origin="regeneration"))
    E.run_requests(ctx, _types.SimpleNamespace(ns=ns2, targets=live), drv, "regeneration", reqs, tally, targets=live)
    for t in old + fresh:
        t.close()


# The history below runs inside ONE interpreter (a build daemon, an IDE plug-in, a test harness that calls the library):
# generate, edit definitions under the same root (a constant, an array capacity, an @extent, the size of a nested type),
# generate again into the same and into fresh directories — through nunavut.generate_types() and through
# nunavut.cli.main() called twice.  `once` = the same calls in a fresh interpreter that only ever saw the edited tree.
REGEN_EDIT_INPROC = dict(REGEN_EDIT, **{
    "vns/regen/Outer.1.0.dsdl": "vns.regen.Inner.1.0 i\nuint8[<=5] x\nvns.regen.Inner.1.0[<=3] arr\n@sealed\n",                                   # capacity 2 -> 5
    "vns/regen/OuterD.1.0.dsdl": "uint8 K = 9\nfloat32 S = 1 / 8\nvns.regen.Outer.1.0 o\nvns.regen.InnerD.1.0 d\nvns.regen.Inner.1.0[2] two\n@extent 4096\n",  # constant, @extent
})

INPROC_SCRIPT = r"""
import json, pathlib, sys
mode, root, base, edit_file = sys.argv[1:5]
import nunavut
import nunavut.cli
root, base = pathlib.Path(root), pathlib.Path(base)
LANGS = [("c", {}, []), ("cpp", {"std": "c++17"}, ["--language-standard", "c++17"]), ("py", {}, [])]


def api(tag):
    for lang, opts, _ in LANGS:
        nunavut.generate_types(lang, root, base / tag / ("api_" + lang), omit_serialization_support=False,
                               allow_unregulated_fixed_port_id=True, language_options=opts, include_experimental_languages=True)


def cli(tag):
    for lang, _, flags in LANGS:
        sys.argv = ["nnvg", "--experimental-languages", "--allow-unregulated-fixed-port-id", "--target-language", lang,
                    "--outdir", str(base / tag / ("cli_" + lang))] + flags + [str(root)]
        rc = nunavut.cli.main()
        if rc not in (0, None):
            raise SystemExit("nunavut.cli.main() returned %r" % (rc,))


if mode == "history":
    api("same"); cli("same")
    for rel, text in json.load(open(edit_file)).items():
        (root.parent / rel).write_text(text)
    api("same"); cli("same"); api("fresh"); cli("fresh")
else:
    api("once"); cli("once")
print("done")
"""


def inprocess_history_stream(ctx, tally):
    """C05 over a history inside one process: every file generated after the edit (same directory / fresh directory,
    library call / CLI entry point called twice) must be the file a fresh interpreter generates from the edited
    definitions, and the constants exported by the C and Python trees must be those of the edited definitions."""
    import json
    import os
    import shutil
    import subprocess
    from . import codec_targets as T
    from . import common
    base = ctx.scratch / "regen_inproc"
    shutil.rmtree(base, ignore_errors=True)
    src = base / "dsdl"
    G.write_texts(src, REGEN_V1)
    (base / "edit.json").write_text(json.dumps(REGEN_EDIT_INPROC))
    (base / "history.py").write_text(INPROC_SCRIPT)
    env = dict(os.environ, PYTHONPATH=str(common.REPO / "src"), PYTHONDONTWRITEBYTECODE="1")
    extra = {"regeneration_inprocess": {"first": REGEN_V1, "edit": REGEN_EDIT_INPROC,
                                        "history": "one interpreter: generate_types() and nunavut.cli.main() for c, cpp (c++17), py; edit; both again into the "
                                                   "same and into fresh directories; compared with the same calls in a fresh interpreter"}}
    for mode in ("history", "once"):
        try:
            p = subprocess.run([common.PY, str(base / "history.py"), mode, str(src / "vns"), str(base / "out"), str(base / "edit.json")],
                               capture_output=True, text=True, env=env, timeout=600, cwd=str(base))
            ok, log = p.returncode == 0 and p.stdout.strip().endswith("done"), (p.stdout + p.stderr)[-1500:]
        except subprocess.TimeoutExpired:
            ok, log = False, "timed out"
        if not ok:
            if mode == "once":
                raise RuntimeError("in-process history stream: generation in a fresh interpreter failed: " + log)
            tally.fail({"kind": "regen-inprocess:generation-failed", "lang": "-", "sig": "-"},
                       "generating twice in one process (definitions edited in between) fails although a fresh process generates the edited tree",
                       lambda log=log: dict(extra, log=log))
            return
    out = base / "out"
    for api in ("api", "cli"):
        for lang in ("c", "cpp", "py"):
            ref = out / "once" / f"{api}_{lang}"
            for where in ("same", "fresh"):
                got = out / where / f"{api}_{lang}"
                ctx.case(("regen-inprocess", api, lang, where), True)
                for f in sorted(ref.rglob("*")):
                    if not f.is_file():
                        continue
                    g = got / f.relative_to(ref)
                    ctx.count("regen-inprocess:files-compared")
                    if not g.exists() or g.read_bytes() != f.read_bytes():
                        entry = "nunavut.generate_types()" if api == "api" else "nunavut.cli.main()"
                        tally.fail({"kind": "regen-inprocess:stale-file", "lang": lang, "sig": api},
                                   f"{lang}: {f.relative_to(ref)} generated by a second {entry} in the same process after the definitions were edited "
                                   f"({'same' if where == 'same' else 'fresh'} output directory) is not what a fresh process generates from the edited definitions",
                                   lambda lang=lang, f=f, ref=ref, where=where, entry=entry: dict(extra, target=lang, entry_point=entry, directory=where,
                                                                                               file=str(f.relative_to(ref))))
    # the property's own predicate on the history's output: exported constants against the edited definitions
    ns2 = G.load(src / "vns")
    numpy_dir = T.ensure_numpy()
    live = []
    for api in ("api", "cli"):
        c = T.CTarget(ns2, base / "probe" / f"{api}_c", "any", False, tag=f"c/in-process-history/{api}")
        c.outdir.mkdir(parents=True, exist_ok=True)
        shutil.copytree(out / "fresh" / f"{api}_c", c.outdir / "gen", dirs_exist_ok=True)
        (c.outdir / "shim.c").write_text(T.c_shim_source(ns2))
        py = T.PyTarget(ns2, base / "probe" / f"{api}_py", numpy_dir)
        py.name = f"py/in-process-history/{api}"
        py.outdir.mkdir(parents=True, exist_ok=True)
        shutil.copytree(out / "same" / f"{api}_py", py.outdir / "gen", dirs_exist_ok=True)
        (py.outdir / "types.json").write_text(json.dumps([T.py_type_desc(gt) for gt in ns2.types]))
        if c.compile():
            live.append(c)
        else:
            tally.fail({"kind": "regen-inprocess:build", "lang": "c", "sig": api},
                       "the C tree generated by the second in-process generation does not compile against the edited definitions",
                       lambda c=c: dict(extra, target=c.name, log=c.build_log[-1500:]))
        live.append(py)
    try:
        check_exports(ctx, ns2, live, pydsdl_bounds(ns2), make_bad(tally, ns2, "regen-inprocess:", extra))
    finally:
        for t in live:
            t.close()


def override_capacity_guard_stream(ctx, sess, tally):
    """--enable-override-variable-array-capacity lets the user pre-define <T>_<field>_ARRAY_CAPACITY_.  The advertised
    _SERIALIZATION_BUFFER_SIZE_BYTES_ / _EXTENT_BYTES_ stay those of the DSDL definition, so they are only bounds if a capacity
    ABOVE the DSDL one can never be built.  Oracle, for EVERY variable-length array position of every type: the header with
    that array's macro = DSDL capacity + 1 must not compile — alone, with all other arrays of the type overridden too
    (equal / reduced capacities, so that this one is not the first overridden array), and with
    <T>_DISABLE_SERIALIZATION_BUFFER_CHECK_ pre-defined; control: all arrays overridden to the DSDL capacity (and to a reduced
    one) must compile, so that a rejection is the guard's and not an accident."""
    import concurrent.futures
    import subprocess
    from . import codec_targets as T
    targets = [t for t in list(sess.targets) + list(sess.compile_only)
               if isinstance(t, T.CTarget) and "--enable-override-variable-array-capacity" in t.extra_nnvg]
    if not targets:
        return
    cands = []
    for gt in sess.ns.types:
        arrs = [f for f in gt.inner.fields if isinstance(f.data_type, pydsdl.VariableLengthArrayType)]
        if arrs:
            cands.append((gt, arrs))
    cands.sort(key=lambda c: (-min(len(c[1]), 3), c[0].index))        # types with several overridable arrays first
    if ctx.quick:
        cands = cands[:30]
    jobs = []
    for t in targets:
        for gt, arrs in cands:
            n = T.c_name(gt.model)
            hdr = T._header_path(gt.model, ".h")
            mac = lambda f: f"{n}_{f.name}_ARRAY_CAPACITY_"
            equal = {mac(f): f.data_type.capacity for f in arrs}
            reduced = {mac(f): max(1, f.data_type.capacity - 1) for f in arrs}
            jobs.append((t, gt, hdr, "control:all-equal", None, dict(equal), True))
            jobs.append((t, gt, hdr, "control:all-reduced", None, dict(reduced), True))
            for j, f in enumerate(arrs):
                over = f.data_type.capacity + 1
                jobs.append((t, gt, hdr, "only-this-one", f, {mac(f): over}, False))
                jobs.append((t, gt, hdr, "others-equal", f, dict(equal, **{mac(f): over}), False))
                jobs.append((t, gt, hdr, "others-reduced", f, dict(reduced, **{mac(f): over}), False))
                jobs.append((t, gt, hdr, "check-disabled-by-user", f, dict({mac(f): over}, **{f"{n}_DISABLE_SERIALIZATION_BUFFER_CHECK_": None}), False))

    def run(job):
        t, gt, hdr, variant, f, defs, must_compile = job
        flags = [f"-D{k}" + ("" if v is None else f"={v}U") for k, v in defs.items()]
        cmd = [t.cc, "-std=c11", "-fsyntax-only", "-I", str(t.outdir / "gen")] + flags + ["-x", "c", "-"]
        try:
            p = subprocess.run(cmd, input=f'#include "{hdr}"\n', capture_output=True, text=True, timeout=120)
            return p.returncode == 0, flags, p.stderr[-600:]
        except subprocess.TimeoutExpired:
            return None, flags, "compiler timed out"
    with concurrent.futures.ThreadPoolExecutor(max_workers=T.NCPU) as ex:
        results = list(ex.map(run, jobs))
    for (t, gt, hdr, variant, f, defs, must_compile), (ok, flags, log) in zip(jobs, results):
        ctx.case((gt.tstr, t.name, "capacity-guard", variant, f.name if f else "-"), True)
        ctx.count("capacity-guard:" + ("control" if must_compile else "above-dsdl-capacity"))
        if ok is None or ok == must_compile:
            continue
        if must_compile:
            tally.fail({"kind": "capacity-guard:control-does-not-compile", "lang": "c", "sig": variant},
                       f"{t.name}: {hdr} does not compile with every overridable capacity of {gt.full_name} set to a legal value ({variant})",
                       lambda t=t, gt=gt, hdr=hdr, flags=flags, log=log: {"type": f"{gt.full_name}.{gt.version[0]}.{gt.version[1]}", "target": t.name, "options": t.options,
                                                                        "header": hdr, "compiler_flags": flags, "log": log, "capacity_guard": True,
                                                                        "files": E.deps_texts(sess.ns, gt)})
        else:
            pos = [x.name for x in gt.inner.fields if isinstance(x.data_type, pydsdl.VariableLengthArrayType)].index(f.name)
            tally.fail({"kind": "capacity-guard:accepted-above-dsdl-capacity", "lang": "c", "sig": "first-array" if pos == 0 else "later-array"},
                       f"{t.name}: {hdr} compiles with {T.c_name(gt.model)}_{f.name}_ARRAY_CAPACITY_ = {f.data_type.capacity + 1} although the DSDL capacity is "
                       f"{f.data_type.capacity} ({variant}; overridable array #{pos} of the type): the advertised buffer size / extent are no bounds any more",
                       lambda t=t, gt=gt, hdr=hdr, flags=flags, f=f, variant=variant: {
                           "type": f"{gt.full_name}.{gt.version[0]}.{gt.version[1]}", "target": t.name, "options": t.options, "header": hdr, "field": f.name,
                           "dsdl_capacity": f.data_type.capacity, "variant": variant, "compiler_flags": flags, "expected": "#error", "got": "compiles",
                           "capacity_guard": True, "files": E.deps_texts(sess.ns, gt)})


def replay_capacity_guard(ctx, rp):
    import json

    def plan(ns, base, tier):
        return [t for t in E.target_plan(ns, base, "thorough") if t.name == rp["target"]]
    sess = E.Session(0, "quick", 0, 0, texts=rp["files"], plan=plan)
    try:
        tally = E.Tally(ctx)
        override_capacity_guard_stream(ctx, sess, tally)
        for f in ctx.failures:
            print(json.dumps({"key": f["key"], "what": f["what"]}))
        return 1 if ctx.failures else 0
    finally:
        sess.cleanup()


def check_exports(ctx, ns, targets, model_bounds, bad):
    """Every constant the generated code of `targets` exports, against the PyDSDL model of `ns`."""
    for t in targets:
        if t.lang == "py":
            probes = t.probe()
            for gt, d in zip(ns.types, probes):
                lo, hi, ext = model_bounds[gt.index]
                ctx.case((gt.tstr, t.name, "probe"), bool(gt.inner.fields))
                if d["extent_bytes"] != ext // 8:
                    bad(gt, t, "extent", "_EXTENT_BYTES_", ext // 8, d["extent_bytes"])
                if d["fixed_port_id"] != gt.fixed_port_id:
                    bad(gt, t, "port-id", "_FIXED_PORT_ID_", gt.fixed_port_id, d["fixed_port_id"])
                if d["model_full_name"] != gt.full_name or tuple(d["model_version"]) != gt.version:
                    bad(gt, t, "name", "_MODEL_ name/version", f"{gt.full_name} {gt.version}", f"{d['model_full_name']} {d['model_version']}")
                for c in gt.inner.constants:
                    exp = const_expected(c)
                    got = d["constants"].get(c.name)
                    ctx.count("constants-compared")
                    if got is None:
                        bad(gt, t, "constant-missing", c.name, str(exp), "absent")
                    elif exp[0] == "float":
                        x = G.bits2f(int(got[1], 16)) if got[0] == "f" else (float(int(got[1])) if got[0] == "i" else math.nan)
                        if not float_ok(exp[1], exp[2], x):
                            bad(gt, t, "constant-float-value", c.name, f"{exp[1]} within 1 ulp of float{exp[2]}", f"{got} = {x!r}")
                    elif got[0] not in "ib" or int(got[1]) != exp[1]:
                        bad(gt, t, "constant-int-value", c.name, str(exp[1]), str(got))
            continue
        probes = [parse_probe(a) for a in t.probe()]
        for gt, d in zip(ns.types, probes):
            lo, hi, ext = model_bounds[gt.index]
            ctx.case((gt.tstr, t.name, "probe"), bool(gt.inner.fields))
            if d is None:
                bad(gt, t, "probe", "probe", "an answer", "none")
                continue
            want = {"extent_bytes": ext // 8, "buffer_bytes": (hi + 7) // 8, "has_fixed_port_id": int(gt.fixed_port_id is not None)}
            if gt.fixed_port_id is not None:
                want["fixed_port_id"] = gt.fixed_port_id
            if isinstance(gt.inner, pydsdl.UnionType):
                want["union_option_count"] = len(gt.inner.fields)
            if t.lang == "c":
                want["full_name"] = gt.full_name
                want["full_name_and_version"] = f"{gt.full_name}.{gt.version[0]}.{gt.version[1]}"
                for f in gt.inner.fields:
                    if isinstance(f.data_type, pydsdl.ArrayType):
                        want["cap." + f.name] = f.data_type.capacity
                        want["var." + f.name] = int(isinstance(f.data_type, pydsdl.VariableLengthArrayType))
            for k, w in want.items():
                ctx.count("metadata-items-compared")
                if str(d.get(k)) != str(w):
                    bad(gt, t, "metadata:" + k.split(".")[0], k, w, d.get(k))
            if "fixed_port_id" in d and gt.fixed_port_id is None:
                bad(gt, t, "metadata:fixed_port_id", "fixed_port_id", "absent", d["fixed_port_id"])
            if int(d.get("buffer_bytes", 0)) > int(d.get("extent_bytes", 0)):
                bad(gt, t, "buffer-above-extent", "buffer_bytes", f"<= extent {d.get('extent_bytes')}", d.get("buffer_bytes"))
            ctx.count("constants-compared", len(gt.inner.constants))
            check_constants_compiled(t, gt, d, bad)



def run(ctx):
    c05_literals.prepare(ctx)
    drv, sess, tally = E.common_setup(ctx, "C05")
    c05_literals.run(ctx, E._DRIVERS.get(id(ctx)) or {})
    ctx.rule = ("per type: every exported constant of every target vs the PyDSDL model and the Lean `bounds`; serbuf of the zero value, a "
                "maximal-length value and random values into buffers of every size 0..max+1 (sampled sizes when max > 48 bytes); up to K "
                "variable-length arrays per type in turn over capacity (+1, roundup8(capacity), +1) into buffers of exactly the advertised "
                "size and +1 on every C / C++ option set incl. --enable-override-variable-array-capacity; capacity guard of the override option: "
                "per type (quick: 30 types, those with several arrays first) and per variable-length array position the header is compiled with "
                "that capacity macro = DSDL capacity + 1 (alone / other arrays overridden equal / reduced / buffer check disabled by the user): "
                "must be rejected; controls all-equal and all-reduced must compile; non-trivial = "
                "type has at least one field; distinct by (type, target, item) / (type, value, capacity)")
    ns = sess.ns

    bad = make_bad(tally, ns)

    # ---- bounds: PyDSDL model vs Lean driver vs reference --------------------------------------------------------
    model_bounds = {}
    for gt in ns.types:
        bls = gt.inner.bit_length_set
        model_bounds[gt.index] = (bls.min, bls.max, gt.model.extent)
    if drv is not None:
        ans = drv.ask([f"bounds {gt.tstr}" for gt in ns.types])
        for gt, a in zip(ns.types, ans):
            ctx.traces += 1
            got = E.parse_answer("bounds", gt.expr, a)
            if got != ("bounds",) + model_bounds[gt.index]:
                ctx.disagree("bounds", gt.tstr, a, "pydsdl: %d %d %d" % model_bounds[gt.index])
    for gt in ns.types:
        if R.bounds(gt.expr) != model_bounds[gt.index]:
            ctx.disagree("reference-bounds", gt.tstr, str(R.bounds(gt.expr)), "pydsdl: %d %d %d" % model_bounds[gt.index])

    # ---- exported constants ---------------------------------------------------------------------------------------
    check_exports(ctx, ns, sess.targets, model_bounds, bad)

    # ---- regeneration over an existing output tree -------------------------------------------------------------------
    override_capacity_guard_stream(ctx, sess, tally)
    regeneration_stream(ctx, tally, drv)
    inprocess_history_stream(ctx, tally)

    # ---- serialization into buffers of every size ------------------------------------------------------------------
    rng = ctx.rng
    reqs = E.corpus_requests(sess, "C05")
    nvals = 3 if ctx.quick else 8
    for gt in ns.types:
        mx = (model_bounds[gt.index][1] + 7) // 8
        vals = [G.zero_value(gt.expr), E.maximal_value(rng, gt.expr), E.maximal_value(rng, gt.expr)] + [G.gen_value(rng, gt.expr, nan_payloads=True) for _ in range(nvals)]
        if mx <= 48:
            caps = list(range(0, mx + 2))
        else:
            caps = sorted(set([0, 1, 2, 7, 8, mx - 9, mx - 2, mx - 1, mx, mx + 1, mx + 8] + [rng.randint(0, mx) for _ in range(8)]))
        for vi, v in enumerate(vals):
            for cap in (caps if vi < 3 or mx <= 16 else rng.sample(caps, min(len(caps), 8))):
                reqs.append(E.Req(gt, "serbuf", (v, cap)))
        # the advertised buffer size is only sufficient because a value cannot exceed the DSDL capacities: one array at a
        # time over its capacity (by one, up to the next multiple of 8 = the size of bit-packed storage, one beyond) into a
        # buffer of EXACTLY the advertised size and one byte more, guard bytes around: must be refused, nothing written outside
        for v in E.overlong_values(rng, gt, 4 if ctx.quick else 10):
            reqs.append(E.Req(gt, "serbuf", (v, mx), origin="overlong"))
            reqs.append(E.Req(gt, "serbuf", (v, mx + 1), origin="overlong"))
    native = [t for t in sess.targets if t.lang != "py"]
    E.run_requests(ctx, sess, drv, "serbuf", reqs, tally, targets=native)
    # Python owns its buffer (Serializer.new(_EXTENT_BYTES_)): the advertised size must suffice for ANY value, in
    # particular for values of maximum length (every array at capacity, widest option) and their nested forks.
    py = [t for t in sess.targets if t.lang == "py"]
    if py:
        preqs = []
        for gt in ns.types:
            vals = [G.zero_value(gt.expr)] + [E.maximal_value(rng, gt.expr) for _ in range(3 if ctx.quick else 6)] \
                + [G.gen_value(rng, gt.expr, oob=False) for _ in range(nvals)]
            preqs += [E.Req(gt, "ser", v) for v in vals]
        E.run_requests(ctx, sess, drv, "ser-own-buffer", preqs, tally, targets=py)
        E.record_spellings(ctx, sess)
    ctx.sample({"type": reqs[-1].gt.tstr[:200], "request": reqs[-1].target_line()[:200]})


def replay(ctx, path):
    import json
    r = json.loads(open(path).read())
    rp = r.get("replay") or {}
    if rp.get("capacity_guard"):
        return replay_capacity_guard(ctx, rp)
    if "regeneration_inprocess" in rp:
        tally = E.Tally(ctx)
        inprocess_history_stream(ctx, tally)
        for f in ctx.failures:
            print(json.dumps({"key": f["key"], "what": f["what"]}))
        ctx.cleanup()
        return 1 if ctx.failures else 0
    if "regeneration" in rp or rp.get("origin") == "regeneration":
        # the failing input is a history (generate, edit a nested type, regenerate in place): run it again
        tally = E.Tally(ctx)
        regeneration_stream(ctx, tally, None)
        for f in ctx.failures:
            print(json.dumps({"key": f["key"], "what": f["what"]}))
        ctx.cleanup()
        return 1 if ctx.failures else 0
    if "item" not in rp:
        return E.replay(ctx, path)
    # an exported constant: rebuild the one target and probe again

    def plan(ns, base, tier):
        return [t for t in E.target_plan(ns, base, "thorough") if t.name == rp["target"]]
    sess = E.Session(0, "quick", 0, 0, texts=rp["files"], plan=plan)
    try:
        gt = sess.by_name[rp["type"]]
        t = sess.targets[0]
        line = t.probe()[gt.index]
        print(json.dumps({"target": t.name, "probe": line if isinstance(line, str) else line, "item": rp["item"], "expected": rp["expected"], "was": rp["got"]}))
        if isinstance(line, str):
            d = parse_probe(line) or {}
            got = d.get("const." + rp["item"], d.get(rp["item"]))
        else:
            got = line.get(rp["item"], line.get("constants", {}).get(rp["item"]))
        return 1 if str(got) == str(rp["got"]).split(" = ")[0] else 0
    finally:
        sess.cleanup()
