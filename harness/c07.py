"""
C07 — reproducible output: a pure function of inputs, options and tool version.

Proof: lean/NunavutVerif/Properties/C07.lean (noninterference of the mini template language by structural induction;
`decide` over the dataflow tables generated from the templates and filter sources of the tree under check).
Tie: translate/tplflows.py (regenerated on every run) + paired real runs of the real CLI code in fresh interpreters
that differ in exactly one ambient factor (clock, PYTHONHASHSEED, cwd, absolute location of inputs and outputs,
nothing), compared per relative path by sha256.  The model (compiled `tpl` driver over the generated tables) predicts
for every (language, file kind, factor) whether the bytes can depend on the factor; a differing file where the model
says "cannot" is a disagreement; every differing file is at the same time a failing input of the property.
"""
import json
import os
import pathlib
import re
import shutil

from . import common
from . import paired_runs as pr
from . import filepp
from .common import enc, dec

LANGS = ["c", "cpp", "py", "html"]
PROC_CLASSES = ["siblings", "psUniqueName", "psMemo", "psTemplateCache", "psModelCache", "psCompileFold", "psSharedMutable"]
FACTOR_CLASSES = {"process": ["random", "platform"], "input-mtime": ["time"], "clock": ["time"], "hashseed": ["hashOrder"], "cwd": ["absPath"],
                  "environment": ["platform"],
                  "location": ["absPath"], "process-history": PROC_CLASSES}
CFG = common.VERIF / "corpus" / "C07" / "config"
TOOL = common.VERIF / "corpus" / "C10" / "tools" / "append_marker.py"
# the recording program: logs every command line it is started with next to the output directory (@OUT.pplog), appends a marker
# that states the base name of the file it was given (a deterministic tool that uses the name: guard fixer, banner) to every
# file named on its command line
REC = common.VERIF / "corpus" / "C10" / "tools" / "record_argv.py"
PPRUN_ARGS = ["--log", "@OUT.pplog", "--all", "--stamp-name"]
PPRUN = ("pp-run-program", ["--pp-run-program", REC] + [f"--pp-run-program-arg={a}" for a in PPRUN_ARGS])
AMBIENT = common.VERIF / "corpus" / "C07" / "ambient"
COPIED = ("copied-builtin-templates", ["--templates", "@LOC/my_templates"])     # the usual starting point of customised templates
OPTSETS = {
    "c": [("default", []), ("cfg-option-lists", ["--configuration", CFG / "option_lists.yaml"]), PPRUN, COPIED, ("cfg-option-types", ["--configuration", CFG / "option_types.yaml"]), ("cfg-option-scalars", ["--configuration", CFG / "option_scalars.yaml"]), ("asserts+pp", ["--enable-serialization-asserts", "--enable-override-variable-array-capacity",
                                          "--pp-max-emptylines", "2", "--pp-trim-trailing-whitespace"]),
          ("omit-support+be", ["--omit-serialization-support", "--target-endianness", "big"]),
          ("nofloat-c11", ["--omit-float-serialization-support", "--language-standard", "c11"])],
    "cpp": [("default", []), ("cfg-option-lists", ["--configuration", CFG / "option_lists.yaml"]), PPRUN, COPIED, ("cfg-option-types", ["--configuration", CFG / "option_types.yaml"]), ("cfg-option-scalars", ["--configuration", CFG / "option_scalars.yaml"]), ("c++17-pmr+asserts", ["--language-standard", "c++17-pmr", "--enable-serialization-asserts"]),
            ("c++20+pp", ["--language-standard", "c++20", "--pp-max-emptylines", "1", "--pp-trim-trailing-whitespace"]),
            ("omit-support", ["--omit-serialization-support"])],
    "py": [("default", []), ("cfg-option-lists", ["--configuration", CFG / "option_lists.yaml"]), PPRUN, COPIED, ("cfg-option-types", ["--configuration", CFG / "option_types.yaml"]), ("pp", ["--pp-max-emptylines", "2", "--pp-trim-trailing-whitespace"]),
           ("ext", ["--output-extension", ".pyx"])],
    "html": [("default", []), ("cfg-option-lists", ["--configuration", CFG / "option_lists.yaml"]), PPRUN, COPIED, ("cfg-option-types", ["--configuration", CFG / "option_types.yaml"]), ("pp", ["--pp-max-emptylines", "1", "--pp-trim-trailing-whitespace"]),
             ("ext", ["--output-extension", ".htm"])],
}
B85_LINE = re.compile(r"^\s*'[0-9A-Za-z!#$%&()*+\-;<=>?@^_`{|}~]+'\)?\s*$")


def limiter_on(lang, extra):
    return lang in ("c", "py") or "--pp-max-emptylines" in extra


def corpus_inputs(ctx):
    """[(name, root dir, [lookup dirs])] — the committed corpus first, then generated namespaces."""
    out = []
    base = common.VERIF / "corpus" / "C07" / "dsdl"
    out.append(("corpus:vnet", base / "vnet", [base / "vdep"]))
    extra = common.VERIF / "corpus" / "C07" / "extra"
    if extra.exists():
        for d in sorted(extra.iterdir()):
            if (d / "meta.json").exists():
                m = json.loads((d / "meta.json").read_text())
                out.append((f"corpus:{d.name}", d / m["root"], [d / l for l in m["lookups"]]))
    return out


# ---- a small type-directed namespace generator (mostly valid by construction; the front end is the judge) ------------
def gen_namespace(rng, root: pathlib.Path, name: str, ntypes: int):
    root = root / name
    subs = ["", "a", "b2", "Zed", "x_y", "a/deep", "m"]
    rng.shuffle(subs)
    subs = [""] + [s for s in subs if s][: rng.randint(2, 5)]
    made = []   # (full name, ver, bits upper bound)
    prims = ["bool", "uint3", "uint8", "int13", "uint16", "int32", "uint64", "float16", "float32", "float64", "truncated uint5"]
    for i in range(ntypes):
        sub = rng.choice(subs)
        d = root / sub if sub else root
        d.mkdir(parents=True, exist_ok=True)
        short = f"T{i}" if rng.random() < 0.7 else rng.choice(["Node", "Info", "Cfg", "Msg"]) + str(i)
        if made and rng.random() < 0.25:
            # a twin of an earlier name that differs only by zero padding of its digit run (orderings must stay total)
            prev = rng.choice(made)[0].rsplit(".", 1)[-1]
            m = re.match(r"^([A-Za-z_]+)(\d+)$", prev)
            if m and not (d / f"{m.group(1)}0{m.group(2)}.1.0.dsdl").exists():
                short = f"{m.group(1)}0{m.group(2)}"
        full = ".".join([name] + ([x for x in sub.split("/")] if sub else []) + [short])
        kind = rng.choice(["struct", "struct", "union", "service", "delimited", "empty"])
        lines, bits = [], 0

        def field(idx):
            nonlocal bits
            r = rng.random()
            if made and r < 0.45:
                tname, tver, tb = rng.choice(made)
                ref = f"{tname}.{tver}"
                mode = rng.choice(["", "[2]", "[<=3]"])
                mult = {"": 1, "[2]": 2, "[<=3]": 3}[mode]
                bits += tb * mult + 64
                return f"{ref}{mode} f{idx}"
            p = rng.choice(prims)
            mode = rng.choice(["", "", "[3]", "[<=5]"])
            bits += 64 * {"": 1, "[3]": 3, "[<=5]": 5}[mode] + 16
            return f"{p}{mode} f{idx}"

        if rng.random() < 0.5:
            lines.append(f"# Documentation of {short} <b>&amp;</b>")
        hy = " ".join(["state-of-the-art-multi-part-hyphenated-phrase"] * rng.randint(3, 6))
        r = rng.random()
        if r < 0.25:
            lines.append(f"# See https://example.org/{short.lower()}/some-hyphenated-page for details; {hy}")
        elif r < 0.6:
            lines.append(f"# {hy} — température °C, длина, 長さ.")
            lines.append("#     indented continuation " + hy)
        doc_field = (lambda: [f"# field doc {hy}" if rng.random() < 0.5 else f"# see ftp://example.net/{short}-x-y"] if rng.random() < 0.3 else [])
        if kind == "empty":
            lines.append("@sealed")
        elif kind == "union":
            lines.append("@union")
            for k in range(rng.randint(2, 4)):
                lines.append(field(k))
            bits += 8
            lines.append("@sealed")
        elif kind == "service":
            for k in range(rng.randint(0, 3)):
                lines.append(field(k))
            lines.append("@sealed")
            lines.append("---")
            for k in range(rng.randint(0, 3)):
                lines.append(field(10 + k))
            lines.append("@sealed")
        elif kind == "delimited":
            for k in range(rng.randint(1, 3)):
                lines.append(field(k))
            lines.append(f"@extent {((bits + 64) // 8 + 1) * 8 * 2}")
            bits = ((bits + 64) // 8 + 1) * 8 * 2 + 32
        else:
            if rng.random() < 0.3:
                lines.append("uint8 LIMIT = 42")
            if rng.random() < 0.2:
                lines.insert(0, "@deprecated")
            for k in range(rng.randint(1, 5)):
                lines += doc_field()
                lines.append(field(k))
                if rng.random() < 0.2:
                    lines.append("void3"); bits += 3
            lines.append("@sealed")
        (d / f"{short}.1.0.dsdl").write_text("\n".join(lines) + "\n")
        if kind != "service":
            made.append((full, "1.0", bits))
    return root


def generated_inputs(ctx, n):
    import pydsdl
    out = []
    tries = 0
    while len(out) < n and tries < n * 4:
        tries += 1
        name = f"gen{tries}"
        root = gen_namespace(ctx.rng, ctx.scratch / "gen_in", name, ctx.rng.randint(5, 12))
        try:
            pydsdl.read_namespace(str(root), [])
            out.append((f"generated:{name}", root, []))
            ctx.count("generated_namespace_accepted")
        except Exception as e:  # noqa
            ctx.count("generated_namespace_rejected_by_frontend")
            import shutil
            shutil.rmtree(root, ignore_errors=True)
    return out


# ---- model predictions -------------------------------------------------------------------------------------------------
class Model:
    def __init__(self, drv, info):
        self.drv, self.info = drv, info
        self.cache = {}
        self.flags = pr.parse_flags(drv.ask(["flags"])[0]) if drv is not None else {}
        self.roots = {}
        if drv is not None:
            for lang, ans in zip(LANGS, drv.ask([f"roots {l}" for l in LANGS])):
                self.roots[lang] = [dict(zip(("name", "kind", "firstNonBlank", "emitsNothing", "lastOk"), r.split(":"))) for r in ans.split(";") if r]

    def dirty(self, lang, kind, classes):
        """Leaf records the model holds responsible for a possible dependence on `classes` (empty = cannot depend)."""
        key = (lang, kind, tuple(classes))
        if key not in self.cache:
            ans = self.drv.ask([f"dirty {lang} {kind} {','.join(classes) if classes else '-'}"])[0]
            ids = [] if ans == "-" else [int(x) for x in ans.split(",")]
            leaves = {l["id"]: l for l in self.info["langs"][lang]["leaves"]}
            self.cache[key] = [leaves[i] for i in ids]
        return self.cache[key]

    def limiter_leak_possible(self, lang):
        """Without the per-file reset, a file that starts with a blank line after a file that may end in one."""
        if self.flags.get("ppreset"):
            return False
        rs = self.roots.get(lang, [])
        blank_first = [r for r in rs if r["firstNonBlank"] == "0" and r["emitsNothing"] == "0"]
        blank_last = [r for r in rs if r["lastOk"] == "0"]
        return bool(blank_first and blank_last)

    def predict(self, lang, kind, factor, extra):
        """(may_differ: bool, why: list of str)"""
        why = []
        for l in self.dirty(lang, kind, FACTOR_CLASSES[factor]):
            vias = sorted({v for c in FACTOR_CLASSES[factor] for v in l["via"].get(c, [])})
            why.append(f"{l['file']}:{l['line']} via {','.join(vias) or '?'}")
        facts = self.info.get("facts") or {}
        if factor in ("cwd", "environment", "location", "process") and facts.get("no_undeclared_ambient_inputs") is False:
            for pr_ in facts.get("ambient_probes", [])[:4]:
                why.append(f"{pr_['where']} {pr_['what']}")
        if factor in ("cwd", "location") and "--configuration" in [str(x) for x in extra] and facts.get("config_files_read_in_given_order") is False:
            why.append("add_config_files does not read the override files in the order given: " + str(facts.get("config_files_loop")))
        if factor == "hashseed":
            # file order follows the hash-ordered set of nested namespaces; whatever depends on the order depends on the seed
            for l in self.dirty(lang, kind, ["psModelCache", "psUniqueName", "siblings", "psSharedMutable", "psCompileFold"]):
                why.append(f"{l['file']}:{l['line']} processing order (hash-ordered nested namespaces) x {','.join(l['effective'])}")
        if factor == "hashseed" and limiter_on(lang, extra) and self.limiter_leak_possible(lang):
            # file order follows the hash-ordered set of nested namespaces; the limiter carries its counter along
            if any(r["kind"] == kind and r["firstNonBlank"] == "0" and r["emitsNothing"] == "0" for r in self.roots[lang]):
                why.append("processing order (hash-ordered nested namespaces) x empty-line counter carried between files")
        return bool(why), why


def run_histories(ctx, model, py_pickle_key=None):
    """Histories over one interpreter / one output directory with edits and option changes between the runs (paired_runs.history_stream):
    the final run of every history against the same run in a fresh interpreter into a fresh directory."""
    base = common.VERIF / "corpus" / "C07" / "dsdl"
    hub = (base / "vnet" / "Hub.1.0.dsdl").read_text()
    edits = {"nested": [("vnet/alpha/Point.1.0.dsdl", "# A point, now with a third coordinate.\nfloat32 x\nfloat32 y\nfloat32 z\n@sealed\n")],
             "swap": [("vnet/Hub.1.0.dsdl", hub.replace("vnet.gamma.Leaf.1.0[<=3] leaves", "vdep.util.Ext.1.0[<=3] leaves"))]}
    assert edits["swap"][0][1] != hub
    findings = pr.history_stream(ctx, common.REPO / "src", base / "vnet", [base / "vdep"], LANGS, edits, quick=ctx.quick)
    for f in findings:
        ctx.case(("history", f["scenario"], f["lang"]), nontrivial=True)
        ctx.count("history_" + f["kind"])
        if model is not None:
            ctx.traces += 1
        if f["kind"] == "worker-error":
            ctx.broken.append({"kind": "paired-run-worker", "job": f"history {f['scenario']} {f['lang']}", "error": f["error"]})
        elif f["kind"] == "outcome":
            ctx.fail({"kind": "history-dependent-outcome", "scenario": f["scenario"], "lang": f["lang"]},
                     "the final run of a history fails / succeeds unlike the same run in a fresh process", {k: f[k] for k in ("scenario", "lang", "runs", "errors")})
        elif f["kind"] == "differs":
            rel = f["files"][0]
            where, d = where_of_diff(f["lang"], pathlib.Path(f["fresh_out"]) / rel, pathlib.Path(f["final_out"]) / rel)
            if where == "pickled-model-literal":
                for r2 in f["files"][1:]:
                    w2, d2 = where_of_diff(f["lang"], pathlib.Path(f["fresh_out"]) / r2, pathlib.Path(f["final_out"]) / r2)
                    if w2 != "pickled-model-literal":
                        rel, where, d = r2, w2, d2
                        break
            rp = {"scenario": f["scenario"], "lang": f["lang"], "runs_in_one_interpreter": f["runs"], "file": rel, "n_differing_files": f["n"],
                  "first_differing_line_fresh_vs_history": d, "sha256": f["sha256"], "input": "corpus:vnet"}
            if f["lang"] == "py" and where == "pickled-model-literal" and py_pickle_key is not None:
                # the known finding: the pickled model carries the fill state of PyDSDL's internal caches (second generate_all on the same objects)
                ctx.count("history_py_pickled_literal")
                ctx.fail(py_pickle_key, f"py: {rel} after the history '{f['scenario']}' (pickled model literal)", rp)
                continue
            if model is not None:
                ctx.disagree("history", {k: rp[k] for k in ("scenario", "lang", "file", "first_differing_line_fresh_vs_history")},
                             "equal (the output is a function of the final inputs and options)", "files differ")
            ctx.fail({"kind": "history-dependent-output", "scenario": f["scenario"], "lang": f["lang"], "file_kind": pr.file_kind(f["lang"], rel), "where": where},
                     f"{f['lang']}: after the history '{f['scenario']}' {rel} differs from what a fresh process writes into a fresh directory ({where})", rp)
            ctx.sample({"history": f["scenario"], "lang": f["lang"], "differs": rel})
    return findings


def run_cross_process(ctx, model, langs):
    """paired_runs.cross_process_stream: a run after another PROCESS (sharing temp / home / cache directories) and after another run
    in the same interpreter, each against the same run in a process with fresh directories."""
    base = common.VERIF / "corpus" / "C07" / "dsdl"
    findings = pr.cross_process_stream(ctx, common.REPO / "src", base / "vnet", [base / "vdep"], langs, quick=ctx.quick)
    for f in findings:
        ctx.case(("cross-process", f["scenario"], f["lang"], f["how"]), nontrivial=True)
        ctx.count("cross_process_" + f["kind"])
        if model is not None:
            ctx.traces += 1
        if f["kind"] == "worker-error":
            ctx.broken.append({"kind": "paired-run-worker", "job": f"cross-process {f['scenario']} {f['lang']}", "error": f["error"]})
        elif f["kind"] == "outcome":
            ctx.fail({"kind": "outcome-depends-on-earlier-process", "scenario": f["scenario"], "lang": f["lang"], "how": f["how"]},
                     "a run fails / succeeds depending on a run made before it", {k: f[k] for k in ("scenario", "lang", "how", "first_options", "options", "errors")})
        elif f["kind"] == "differs":
            rel = f["files"][0]
            where, d = where_of_diff(f["lang"], pathlib.Path(f["outs"]["fresh"]) / rel, pathlib.Path(f["outs"][f["how"]]) / rel)
            rp = {"scenario": f["scenario"], "lang": f["lang"], "how": f["how"], "options_of_the_earlier_run": f["first_options"], "options": f["options"],
                  "file": rel, "n_differing_files": f["n"], "first_differing_line_fresh_vs_after": d, "sha256": f["sha256"], "input": "corpus:vnet",
                  "shared": "TMPDIR, HOME, XDG_CACHE_HOME" if f["how"] == "next-process" else "the interpreter (and TMPDIR, HOME)"}
            if model is not None:
                ctx.disagree("cross-process", {k: rp[k] for k in ("scenario", "lang", "how", "file", "first_differing_line_fresh_vs_after")},
                             "equal (nothing outlives a run but the output directory)", "files differ")
            ctx.fail({"kind": "output-depends-on-earlier-run", "how": f["how"], "scenario": f["scenario"], "lang": f["lang"],
                      "file_kind": pr.file_kind(f["lang"], rel), "where": where},
                     f"{f['lang']}: {rel} written after an earlier run with other options ({f['how']}) differs from what the same run writes with fresh "
                     f"temp / home directories ({where})", rp)
            ctx.sample({"cross_process": f["scenario"], "lang": f["lang"], "how": f["how"], "differs": rel})
    return findings


def pickled_models(path):
    """The PyDSDL objects behind the `_MODEL_` literals of a generated Python module (base85 + gzip + pickle), in file order."""
    import base64, gzip, pickle
    groups, cur = [], []
    for line in pathlib.Path(path).read_text(encoding="utf-8", errors="replace").splitlines():
        if B85_LINE.match(line):
            cur.append(line.strip().rstrip(")").strip().strip("'"))
        elif cur:
            groups.append(cur); cur = []
    if cur:
        groups.append(cur)
    return [pickle.loads(gzip.decompress(base64.b85decode("".join(g)))) for g in groups]


def model_projection(obj):
    """(structure, {composite full name+version: source path}) of a pickled model: everything it says apart from the fill state of
    PyDSDL's internal caches.  structure = the textual form of every reachable composite with its attributes."""
    import pydsdl
    struct, paths, seen, todo = [], {}, set(), [obj]
    while todo:
        t = todo.pop()
        if id(t) in seen:
            continue
        seen.add(id(t))
        if isinstance(t, pydsdl.ServiceType):
            todo += [t.request_type, t.response_type]
        if isinstance(t, pydsdl.CompositeType):
            key = f"{t.full_name}.{t.version.major}.{t.version.minor}"
            paths.setdefault(key, []).append(str(t.source_file_path))
            if isinstance(t, pydsdl.ServiceType):
                struct.append((key, type(t).__name__, t.deprecated, t.fixed_port_id))      # its two halves follow as composites of their own
            else:
                struct.append((key, type(t).__name__, t.deprecated, t.fixed_port_id, str(t.extent),
                               tuple((type(a).__name__, a.name, str(a.data_type), str(getattr(a, "value", ""))) for a in t.attributes)))
                for a in t.attributes:
                    todo.append(a.data_type)
        elif isinstance(t, pydsdl.ArrayType):
            todo.append(t.element_type)
    return sorted(struct), {k: sorted(set(v)) for k, v in paths.items()}


def pickled_difference(path_a, path_b):
    """What two modules whose `_MODEL_` literals differ disagree about: 'cache-state' (the known class: same structure, same paths — only
    the fill state of caches inside the shared model objects / pickle memo layout), 'relocated-source-paths' (the known class of C07: every
    path differs by one common directory prefix), 'source-paths' (anything else about paths: present in one, absent or different in the
    other) or 'structure'."""
    try:
        ma, mb = pickled_models(path_a), pickled_models(path_b)
        if len(ma) != len(mb):
            return "structure", {"n_models": [len(ma), len(mb)]}
        for xa, xb in zip(ma, mb):
            sa, pa = model_projection(xa)
            sb, pb = model_projection(xb)
            if sa != sb:
                return "structure", {"first": [str(next((x for x in sa if x not in sb), None))[:300], str(next((x for x in sb if x not in sa), None))[:300]]}
            if pa != pb:
                pairs = set()
                for k in set(pa) | set(pb):
                    va, vb = pa.get(k, []), pb.get(k, [])
                    if len(va) != 1 or len(vb) != 1:
                        return "source-paths", {"type": k, "paths": [va, vb]}
                    qa, qb = pathlib.PurePosixPath(va[0]).parts, pathlib.PurePosixPath(vb[0]).parts
                    n = 0
                    while n < min(len(qa), len(qb)) and qa[len(qa) - 1 - n] == qb[len(qb) - 1 - n]:
                        n += 1
                    pairs.add((qa[: len(qa) - n], qb[: len(qb) - n]))
                    if n == 0 or not va[0].startswith("/") or not vb[0].startswith("/"):
                        return "source-paths", {"type": k, "paths": [va, vb]}
                # relocation: every path absolute on both sides, same file name / tail, another directory prefix for every type
                if all(x != y for x, y in pairs):
                    return "relocated-source-paths", {"prefixes": sorted(map(str, pairs))[:3]}
                return "source-paths", {"pairs": sorted(map(str, pairs))[:4]}
        return "cache-state", None
    except Exception as e:  # noqa
        return "undecodable", {"error": repr(e)[:300]}


def where_of_diff(lang, path_a, path_b):
    """Implementation-side description of where two files differ (part of the key of a finding)."""
    d = pr.first_diff(path_a, path_b)
    if d is None:
        return "none", None
    ln, a, b = d
    if a is None or b is None:
        return "length", d
    if lang == "py" and B85_LINE.match(a) and B85_LINE.match(b):
        # only the two known classes keep the key of the known findings; anything else the literals disagree about gets its own key
        what, detail = pickled_difference(path_a, path_b)
        if what in ("cache-state", "relocated-source-paths"):
            return "pickled-model-literal", d
        return "pickled-model-" + what, (d[0], f"{what}: {json.dumps(detail, default=str)[:400]}", d[2][:80] if d[2] else d[2])
    if ".dsdl" in a and ".dsdl" in b:
        return "dsdl-source-path", d
    if "last modified" in a.lower() or "last modified" in b.lower():
        return "definition-mtime-text", d
    if "Generated at" in a:
        return "generated-at-comment", d
    if a.lstrip().startswith("#include") or a.lstrip().startswith("import ") or a.lstrip().startswith("from "):
        return "include-or-import-list", d
    if a.strip() == "" or b.strip() == "":
        return "empty-lines", d
    return "text", d


def make_ambient(scratch):
    """The other working directory (and its ancestors) holds plausible ambient files — nunavut.yaml & co., setup.cfg / tox.ini /
    pyproject.toml sections, a templates/ directory —, none of them named on the command line; the base directory is empty.
    Returns (environment of the base runs, ambient environment: NUNAVUT_* / NNVG_* variables and a HOME with dot files)."""
    for d in (scratch / "cwd2", scratch / "cwd2" / "nested", scratch / "cwd2" / "nested" / "dir"):
        shutil.copytree(AMBIENT / "cwd", d, dirs_exist_ok=True)
    shutil.copytree(AMBIENT / "home", scratch / "home2", dirs_exist_ok=True)
    amb_yaml = scratch / "home2" / "nunavut.yaml"
    ENV2 = {"HOME": scratch / "home2", "XDG_CONFIG_HOME": scratch / "home2" / ".config", "USERPROFILE": scratch / "home2"}
    for pre in ("NUNAVUT", "NNVG"):
        ENV2.update({f"{pre}_CONFIGURATION": amb_yaml, f"{pre}_CONFIG": amb_yaml, f"{pre}_CONFIG_FILE": amb_yaml, f"{pre}_OPTIONS": "--target-endianness big",
                     f"{pre}_ARGS": "--target-endianness big --enable-serialization-asserts", f"{pre}_TEMPLATES": scratch / "cwd2" / "templates",
                     f"{pre}_TEMPLATES_DIR": scratch / "cwd2" / "templates", f"{pre}_TARGET_ENDIANNESS": "big", f"{pre}_LANGUAGE_STANDARD": "c++20",
                     f"{pre}_EMBED_AUDITING_INFO": "1", f"{pre}_OUTDIR": scratch / "home2" / "out", f"{pre}_FILE_MODE": "0o600"})
    ENV1 = {k: None for k in ENV2 if k not in ("HOME",)}
    norm = lambda e: {k: (None if v is None else str(v)) for k, v in e.items()}
    return norm(ENV1), norm(ENV2)


def run(ctx: common.Ctx):
    info = pr.run_translator(ctx, common.REPO)
    pr.report_source_facts(ctx, info, ["no_undeclared_ambient_inputs", "config_files_read_in_given_order", "file_pp_source_matches_model", "file_pp_calls_pure", "generator_runs_file_pps_once_in_order"])
    drivers = ctx.prove(["C07"], exes=["tpl"])
    drv = drivers.get("tpl")
    ctx.rule = ("paired runs of the real CLI code in fresh interpreters, one ambient factor varied per pair (process, clock [fixed and "
                "ticking], PYTHONHASHSEED 0/1/random, cwd, absolute location of inputs+outputs), sha256 per relative path; 4 languages x "
                "option sets x corpus and generated namespaces; non-trivial = a pair in which the varied factor is observable by the "
                "process; distinct by (input, language, options, factor variant)")
    ctx.assumptions = [
        "PyDSDL front end is deterministic and returns the types sorted (trusted; outside nunavut)",
        "the interpreter version (platform.python_version, printed in C/C++ headers) counts as part of the tool version",
        "classification of a leaf = hand table + AST scan of the callable behind every filter/test; a Python callable that hides an "
        "ambient read behind dynamic dispatch the scan cannot follow is only caught by the paired runs",
        "clock is varied by replacing datetime.datetime/time.time inside the worker interpreter before nunavut is imported",
    ]
    if info is None or drv is None:
        model = None
    else:
        model = Model(drv, info)
        ctx.extra["tables"] = {l: {"bodies": len(v["bodies"]), "leaves": len(v["leaves"]), "templates": len(v["templates"]),
                                   "ambient_leaves": sum(1 for x in v["leaves"] if set(x["reads"]) & {"time", "absPath", "platform", "hashOrder", "random"}),
                                   "digest": v["digest"][:16]} for l, v in info["langs"].items()}
        ctx.extra["source_facts"] = info.get("facts")
        ctx.extra["model_flags"] = model.flags

    # ---- tie of the small executable pieces: sorted(), platform dictionary --------------------------------------------------------
    if drv is not None:
        rng = ctx.rng
        lists = [["b.h", "a.h"], ['"x/B.h"', "<stdint.h>", '"x/a.h"', "<Z.h>"], [], ["é", "e", "z", "E"], ["a", "a", "ab", ""]]
        alphabet = 'abAB./<>"_09é'
        for _ in range(300 if ctx.quick else 3000):
            lists.append(["".join(rng.choice(alphabet) for _ in range(rng.randint(0, 6))) for _ in range(rng.randint(0, 7))])
        reqs = ["sort " + ("|".join(enc(s) for s in l) if l else "!") for l in lists]
        for l, a in zip(lists, drv.ask(reqs)):
            got = [] if a == "!" else [dec(x) for x in a.split("|")]
            ctx.traces += 1
            ctx.count("sorted_lists_compared")
            if got != sorted(l):
                ctx.disagree("sort", l, got, sorted(l))
        try:
            from nunavut.jinja.environment import CodeGenEnvironment
            pv = CodeGenEnvironment._create_platform_version(False)
            real = set(pv.keys()) <= {"python_version"}
            ctx.traces += 1
            if model is not None and real != model.flags.get("platform"):
                ctx.disagree("platform-dictionary", sorted(pv.keys()), model.flags.get("platform"), real)
        except Exception as e:  # noqa
            ctx.broken.append({"kind": "impl-call", "what": "_create_platform_version", "error": repr(e)})

    # ---- paired runs ----------------------------------------------------------------------------------------------------------------
    inputs = corpus_inputs(ctx) + generated_inputs(ctx, 1 if ctx.quick else 4)
    nopt = 4 if ctx.quick else 7
    rnd_seed = str(ctx.rng.randint(2, 2 ** 31 - 1))
    scratch = ctx.scratch
    (scratch / "cwd1").mkdir(); (scratch / "cwd2" / "nested" / "dir").mkdir(parents=True)
    ENV1, ENV2 = make_ambient(scratch)
    jobs, meta = [], {}
    T1, T2 = 981173106.0, 2208988800.0       # 2001-02-03, 2040-01-01
    T_INPUT, T_INPUT2 = 1100000000.0, 1400000000.0   # 2004-11-09, 2014-05-13
    snaps = {iname: pr.snapshot_input(root, lookups) for iname, root, lookups in inputs}
    links = {}
    for ii, (iname, root, lookups) in enumerate(inputs):
        # two absolute locations, same relative layout
        locA = scratch / "locA" / f"in{ii}"
        locB = scratch / "elsewhere" / "deeper" / "x y" / f"in{ii}"
        # a location whose ancestors repeat the root namespace name (and a lookup name), with a space in it
        locC = scratch / "locC" / root.name / "dsdl src" / root.name / f"in{ii}"
        for loc in (locA, locB, locC):
            loc.mkdir(parents=True)
            pr.copy_tree(root, loc / root.name)
            for lk in lookups:
                pr.copy_tree(lk, loc / lk.name)
            for lang_ in LANGS:      # a private copy of the built-in templates next to the definitions (relative command line)
                pr.copy_tree(common.REPO / "src" / "nunavut" / "lang" / lang_ / "templates", loc / "my_templates" / lang_)
            # two override files that set the same keys (read in the order given: the second wins), in two directory layouts
            for layout, first_dir in (("cfg", "shared"), ("cfg2", "a_shared")):
                for sub, fname in ((first_dir, "base.yaml"), ("proj", "override.yaml")):
                    (loc / layout / sub).mkdir(parents=True, exist_ok=True)
                    shutil.copy(CFG / "two_files" / fname, loc / layout / sub / fname)
            for fpath in loc.rglob("*"):
                if fpath.is_file():
                    os.utime(fpath, (T_INPUT, T_INPUT))      # copies carry a fixed, old modification time
        # the same inputs reached through a symbolic link (another spelling of the location, same files)
        (scratch / "links").mkdir(exist_ok=True)
        links[ii] = scratch / "links" / f"to_in{ii}"
        links[ii].symlink_to(locA, target_is_directory=True)
        for lang in LANGS:
            for oname, extra in (OPTSETS[lang][:nopt] if (ii == 0 or not ctx.quick) else OPTSETS[lang][:1]):
                cfg = f"{ii}|{lang}|{oname}"

                def add(variant, factor, loc, cwd, hs, ft, step=0.0, cfg=cfg, lang=lang, extra=extra, root=root, lookups=lookups, env=None, oname=oname):
                    out = loc / f"out_{lang}_{oname.replace('+', '_')}_{variant}"
                    argv = ["--experimental-languages", "-l", lang, "-O", out, loc / root.name]
                    for lk in lookups:
                        argv += ["-I", loc / lk.name]
                    argv += [str(x).replace("@LOC/my_templates", str(loc / "my_templates" / lang)).replace("@OUT", str(out)) for x in extra]
                    name = f"j{len(jobs)}"
                    jobs.append({"name": name, "runs": [pr.make_run(argv, out, cwd)], "hashseed": hs, "fake_time": ft, "fake_step": step,
                                 "env": ENV1 if env is None else env})
                    meta[name] = {"cfg": cfg, "variant": variant, "factor": factor, "out": out, "lang": lang,
                                  "extra": [str(x).replace(str(loc), "@LOCROOT") for x in extra],
                                  "cwd_rel": (str(pathlib.Path(cwd).relative_to(loc)) if str(cwd).startswith(str(loc)) else None),
                                  "input": iname, "opt": oname, "hashseed": hs, "fake_time": ft, "fake_step": step, "cwd": str(cwd), "loc": str(loc)}

                add("base", None, locA, scratch / "cwd1", "0", T1)
                add("process", "process", locA, scratch / "cwd1", "0", T1)
                if oname == "pp-run-program":
                    for rep in (2, 3, 4):     # files may be rendered concurrently: repeat the identical run
                        add(f"process{rep}", "process", locA, scratch / "cwd1", "0", T1)
                add("clock", "clock", locA, scratch / "cwd1", "0", T2)
                lean_cfg = ctx.quick and (ii != 0 or oname not in ("default", "pp-run-program"))   # quick: the full variant set only where it pays
                if not lean_cfg:
                    add("clock-ticking", "clock", locA, scratch / "cwd1", "0", T2, 1.0)
                add("hash1", "hashseed", locA, scratch / "cwd1", "1", T1)
                if not lean_cfg:
                    add("hashR", "hashseed", locA, scratch / "cwd1", rnd_seed, T1)
                # started from a directory with ambient files (inputs and outputs are named by absolute paths)
                add("cwd", "cwd", locA, scratch / "cwd2" / "nested" / "dir", "0", T1)
                if not lean_cfg or oname == "default":
                    # ambient environment variables and another HOME (with dot files)
                    add("environment", "environment", locA, scratch / "cwd1", "0", T1, env=ENV2)
                add("location", "location", locB, scratch / "cwd1", "0", T1)
                add("location-rootname-ancestor", "location", locC, scratch / "cwd1", "0", T1)
                if not lean_cfg:
                    add("location-symlink", "location", links[ii], scratch / "cwd1", "0", T1)
                if ii == 0 and oname == "default":
                    # the SAME two override files, given in the SAME order (base, then override), spelled relative to different working
                    # directories / absolutely / placed in another directory layout at another location
                    o2 = "cfg-two-files"
                    c2 = f"{ii}|{lang}|{o2}"
                    two = lambda a, b: ["--configuration", a, b]
                    add("base", None, locA, locA / "cfg" / "proj", "0", T1, cfg=c2, oname=o2, extra=two("../shared/base.yaml", "override.yaml"))
                    add("cwd-relative-spelling", "cwd", locA, locA / "cfg", "0", T1, cfg=c2, oname=o2, extra=two("shared/base.yaml", "proj/override.yaml"))
                    add("cwd-absolute-spelling", "cwd", locA, scratch / "cwd1", "0", T1, cfg=c2, oname=o2,
                        extra=two(locA / "cfg" / "shared" / "base.yaml", locA / "cfg" / "proj" / "override.yaml"))
                    add("location-other-layout", "location", locB, scratch / "cwd1", "0", T1, cfg=c2, oname=o2,
                        extra=two(locB / "cfg2" / "a_shared" / "base.yaml", locB / "cfg2" / "proj" / "override.yaml"))
                    add("location-relative-spelling", "location", locC, locC / "cfg2", "0", T1, cfg=c2, oname=o2,
                        extra=two("a_shared/base.yaml", "proj/override.yaml"))
                # the same run when it is NOT the first generation in its interpreter (another namespace was generated before it)
                wi = (ii + 1) % len(inputs)
                warm = inputs[wi]
                wout = locA / f"warmup_{lang}_{oname.replace('+', '_')}"
                wargv = ["--experimental-languages", "-l", lang, "-O", wout] + [x for lk in warm[2] for x in ("-I", lk)] + [warm[1]]
                add("not-first-in-process", "process-history", locA, scratch / "cwd1", "0", T1)
                jobs[-1]["runs"].insert(0, pr.make_run(wargv, wout, scratch / "cwd1"))
                if not ctx.quick:
                    add("all", "all", locB, scratch / "cwd2" / "nested" / "dir", rnd_seed, T2, 1.0, env=ENV2)
    ctx.extra["paired_jobs"] = len(jobs)
    results = pr.exec_jobs(common.REPO / "src", scratch, jobs, max_workers=14)
    # stage 2: the same files at the same location with OTHER modification times (a byte-identical copy / checkout made another day)
    for ii in range(len(inputs)):
        for fpath in (scratch / "locA" / f"in{ii}").rglob("*.dsdl"):
            os.utime(fpath, (T_INPUT2, T_INPUT2))
        for fpath in (scratch / "locA" / f"in{ii}" / "my_templates").rglob("*"):
            if fpath.is_file():
                os.utime(fpath, (T_INPUT2, T_INPUT2))
    stage2 = []
    for name, m in list(meta.items()):
        if m["variant"] == "process" and m["opt"] in ("default", "copied-builtin-templates"):
            j = [x for x in jobs if x["name"] == name][0]
            out2 = pathlib.Path(str(m["out"]).replace("_process", "_input_mtime"))
            runs2 = [dict(r, argv=[a.replace(str(m["out"]), str(out2)) for a in r["argv"]], out=str(out2)) for r in j["runs"]]
            n2 = f"j{len(jobs) + len(stage2)}"
            stage2.append({"name": n2, "runs": runs2, "hashseed": "0", "fake_time": T1, "fake_step": 0.0})
            meta[n2] = dict(m, variant="input-mtime", factor="input-mtime", out=out2)
    results.update(pr.exec_jobs(common.REPO / "src", scratch, stage2, max_workers=14))

    bases = {m["cfg"]: n for n, m in meta.items() if m["variant"] == "base"}
    seen_fail = set()
    for name, m in sorted(meta.items(), key=lambda kv: int(kv[0][1:])):
        if m["variant"] == "base":
            continue
        res, bres = results[name], results[bases[m["cfg"]]]
        if isinstance(res, Exception) or isinstance(bres, Exception):
            ctx.broken.append({"kind": "paired-run-worker", "job": m["cfg"] + "|" + m["variant"], "error": str(res if isinstance(res, Exception) else bres)[:600]})
            continue
        res, bres = res[-1], bres[0]
        if m["opt"] == "pp-run-program" and res["error"] is None:
            # the external program is started once per generated file as <configured command line> + [the real output path]
            filepp.check_cli_log(ctx, drv, m["lang"], m["out"], res["files"], common.PY, label=f"{m['cfg']}|{m['variant']}", stamp=True,
                                 kind="external-program-not-given-the-real-output-path")
        if bres["error"] is not None or res["error"] is not None:
            ctx.count("run_error_both" if (bres["error"] and res["error"]) else "run_error_one_side")
            if bool(bres["error"]) != bool(res["error"]):
                ctx.fail({"kind": "run-outcome-depends-on-ambient", "lang": m["lang"], "factor": m["factor"]},
                         "one of two runs that differ only in an ambient factor failed", {"meta": {k: str(v) for k, v in m.items()}, "errors": [bres["error"], res["error"]]})
            continue
        nfiles = len(bres["files"])
        ctx.case((m["cfg"], m["variant"]), nontrivial=(m["factor"] != "process" and nfiles > 0))
        ctx.count("pairs_" + m["variant"])
        ctx.count("files_compared", nfiles)
        diffs = pr.compare(bres["files"], res["files"])
        factors = [m["factor"]] if m["factor"] != "all" else ["clock", "hashseed", "cwd", "location", "environment"]
        bmeta = meta[bases[m["cfg"]]]
        by_kind = {}
        for rel in diffs:
            by_kind.setdefault(pr.file_kind(m["lang"], rel), []).append(rel)
        kinds_present = {pr.file_kind(m["lang"], rel) for rel in bres["files"]}
        for kind in sorted(kinds_present):
            may, why = False, []
            if model is not None:
                for f in factors:
                    mm, ww = model.predict(m["lang"], kind, f, m["extra"])
                    may, why = may or mm, why + ww
            rels = by_kind.get(kind, [])
            if model is not None:
                ctx.traces += 1
            if not rels:
                if may:
                    ctx.count("model_may_differ_but_equal")
                continue
            rel = rels[0]
            where, d = where_of_diff(m["lang"], pathlib.Path(bmeta["out"]) / rel, pathlib.Path(m["out"]) / rel)
            if where == "pickled-model-literal":
                for r2 in rels[1:]:
                    w2, d2 = where_of_diff(m["lang"], pathlib.Path(bmeta["out"]) / r2, pathlib.Path(m["out"]) / r2)
                    if w2 != "pickled-model-literal":
                        rel, where, d = r2, w2, d2
                        break
            replay = {"input": m["input"], "dsdl": snaps.get(m["input"]), "lang": m["lang"], "options": m["extra"], "factor_varied": m["variant"],
                      "base": {"hashseed": bmeta["hashseed"], "clock": bmeta["fake_time"], "cwd": bmeta["cwd"], "location": bmeta["loc"],
                               "cwd_rel": bmeta.get("cwd_rel"), "options": bmeta["extra"]},
                      "other": {"hashseed": m["hashseed"], "clock": m["fake_time"], "clock_step": m["fake_step"], "cwd": m["cwd"], "location": m["loc"],
                                "cwd_rel": m.get("cwd_rel"), "options": m["extra"]},
                      "file": rel, "n_differing_files_of_kind": len(rels), "first_differing_line": d,
                      "sha256": [bres["files"].get(rel), res["files"].get(rel)], "model_explanation": why}
            if model is not None and not may:
                ctx.disagree("paired-run", {k: replay[k] for k in ("input", "lang", "options", "factor_varied", "file", "first_differing_line")},
                             "equal (no unguarded, unsanitised leaf of that class reachable)", "files differ")
            if m["factor"] == "all":
                continue      # attribution comes from the single-factor pairs
            key = {"lang": m["lang"], "kind": kind, "factor": m["factor"], "where": where}
            kk = json.dumps(key, sort_keys=True)
            if kk in seen_fail and len([f for f in ctx.failures if json.dumps(f["key"], sort_keys=True) == kk]) >= 3:
                continue
            seen_fail.add(kk)
            ctx.fail(key, f"{m['lang']} {kind} files depend on the {m['factor']} ({where}) with auditing off: {rel} line {d[0] if d else '?'}", replay)
            ctx.sample({"differs": rel, "lang": m["lang"], "factor": m["variant"], "where": where, "line": d[0] if d else None})
    ctx.sample({"pairs": len(jobs) - len(bases), "inputs": [i[0] for i in inputs], "random_hash_seed": rnd_seed})
    run_histories(ctx, model, {"lang": "py", "kind": "type", "factor": "hashseed", "where": "pickled-model-literal", "via": "history"})
    if not ctx.quick:
        run_cross_process(ctx, model, LANGS)


def replay(ctx, path):
    """Re-run the recorded pair (inputs are stored in the replay file) and report whether the file still differs."""
    r = json.loads(open(path).read())
    rp = r.get("replay", {})
    if not rp.get("dsdl"):
        print("nothing to replay (no failing input in the file)")
        ctx.cleanup()
        return 1
    scratch = ctx.scratch
    jobs, outs = [], {}
    for side in ("base", "other"):
        cfg = rp[side]
        same_loc = rp["base"]["location"] == rp["other"]["location"]
        rootname = rp["dsdl"]["root"]
        var = rp.get("factor_varied", "")
        if side == "base" or same_loc or var == "location-symlink":
            loc = scratch / "locA"
        elif var == "location-rootname-ancestor":
            loc = scratch / "locC" / rootname / "dsdl src" / rootname
        else:
            loc = scratch / "elsewhere/deeper/x y"
        root, lks = pr.restore_input(rp["dsdl"], loc / "in")
        if side == "other" and var == "location-symlink":
            (scratch / "links").mkdir(exist_ok=True)
            (scratch / "links" / "to_in").symlink_to(loc / "in", target_is_directory=True)
            root = scratch / "links" / "to_in" / root.name
            lks = [scratch / "links" / "to_in" / l.name for l in lks]
        same_cwd = rp["base"]["cwd"] == rp["other"]["cwd"]
        cwd = scratch / ("cwd1" if (side == "base" or same_cwd) else "cwd2/nested/dir")
        locroot = loc / "in"
        for layout, first_dir in (("cfg", "shared"), ("cfg2", "a_shared")):
            for sub, fname in ((first_dir, "base.yaml"), ("proj", "override.yaml")):
                (locroot / layout / sub).mkdir(parents=True, exist_ok=True)
                shutil.copy(CFG / "two_files" / fname, locroot / layout / sub / fname)
        if cfg.get("cwd_rel"):
            cwd = locroot / cfg["cwd_rel"]
        cwd.mkdir(parents=True, exist_ok=True)
        ENV1, ENV2 = make_ambient(scratch)
        out = loc / f"out_{side}"
        argv = ["--experimental-languages", "-l", rp["lang"], "-O", out, root] + [x for l in lks for x in ("-I", l)] + \
            [str(o).replace("@OUT", str(out)).replace("@LOCROOT", str(locroot)) for o in cfg.get("options", rp["options"])]
        jobs.append({"name": side, "runs": [pr.make_run(argv, out, cwd)], "hashseed": cfg["hashseed"], "fake_time": cfg["clock"],
                     "fake_step": cfg.get("clock_step", 0.0), "env": ENV2 if (side == "other" and var in ("environment", "all")) else ENV1})
        outs[side] = out
    res = pr.exec_jobs(common.REPO / "src", scratch, jobs)
    a, b = res["base"][0], res["other"][0]
    differs = a["files"].get(rp["file"]) != b["files"].get(rp["file"])
    print(json.dumps({"file": rp["file"], "differs": differs, "first_differing_line": pr.first_diff(outs["base"] / rp["file"], outs["other"] / rp["file"]),
                      "all_differing": pr.compare(a["files"], b["files"])[:10], "errors": [a["error"], b["error"]]}, indent=1))
    ctx.cleanup()
    return 1 if differs else 0
