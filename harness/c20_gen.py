"""
Helper of harness/c20.py, run as a subprocess under /venv/bin/python with PYTHONPATH=$VERIF_REPO/src:
generate HTML for one or more namespace sets IN ONE PROCESS (state a generator process may carry — caches, memos,
singletons — survives from one set to the next), optionally recording every Markup string created on the way.

  c20_gen.py JOB.json      JOB = {"runs": [{"dsdl": dir, "out": dir, "roots": [...], "lookups": [...]}, ...],
                                  "record": file-or-null}
Prints one line per run: `ok` / `fail <message>`.
"""
import json
import pathlib
import sys


def main():
    job = json.loads(pathlib.Path(sys.argv[1]).read_text())
    recorded = {}
    if job.get("record"):
        from nunavut.jinja import markupsafe
        M = markupsafe.Markup
        orig_new = M.__new__

        def new(cls, *a, **k):
            rv = orig_new(cls, *a, **k)
            try:
                s = str.__str__(rv)
                if 0 < len(s) <= 600 and len(recorded) < 20000:
                    recorded[s] = recorded.get(s, 0) + 1
            except Exception:  # recording must never disturb generation
                pass
            return rv

        M.__new__ = new
    from nunavut._generators import generate_types
    for run in job["runs"]:
        try:
            allr = run["roots"] + run.get("lookups", [])
            for r in run["roots"]:
                generate_types("html", pathlib.Path(run["dsdl"]) / r, pathlib.Path(run["out"]),
                               lookup_directories=[str(pathlib.Path(run["dsdl"]) / o) for o in allr if o != r],
                               allow_unregulated_fixed_port_id=True, include_experimental_languages=True)
            print("ok", flush=True)
        except Exception as e:  # front end or generator rejects
            print("fail", f"{type(e).__name__}: {e}"[:300].replace("\n", " "), flush=True)
    if job.get("record"):
        pathlib.Path(job["record"]).write_text(json.dumps(sorted(recorded)))


if __name__ == "__main__":
    main()
