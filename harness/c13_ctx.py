"""
C13, round 2 — process histories, access paths, create() ordering, YAML-level glue.

Model: lean/NunavutVerif/Model/ConfigCtx.lean (`Proc`, `POp`, `Access`, `normV`), driver ops `proc`, `ynorm`, `ycfg`.

* stream_process_history: several LanguageContextBuilders in ONE process, override files whose PATHS are reused across
  builders with changed content, contexts read through EVERY access path (ctx.config, ctx.get_target_language(),
  ctx.get_language(x) for every x, get_supported_languages(), the `ln.<lang>` / `options` globals of a real template
  environment), before and after the lazily built language map exists; every op is answered by the model as well.
  Independent predicates: the access paths agree with each other; the value read through a Language object follows
  built-in < files of THIS builder (content at the time of the call) < overrides (target only); an earlier context
  reports the same after later builders; a builder gives the same answers in a fresh process.
* stream_shorthand_routes: a C++ shorthand arriving by file, by API override or by the command line.
* stream_yaml_text: YAML documents as text (null / non-mapping documents and sections, repeated keys, anchors and aliases,
  merge keys) through update_from_yaml_string / add_config_files.
"""
import copy
import json
import os
import subprocess
import sys
import tempfile
import pathlib

from . import common
from . import c13 as base

PFX = "nunavut.lang."
SENT = "<unset>"


def short(sect):
    return sect[len(PFX):]


# ------------------------------------------------------------------------------------------------------
# observation of one context through every access path (real code)
# ------------------------------------------------------------------------------------------------------
DICT_KEYS = ["options", "named_values", "named_types"]
SCALAR_KEYS = ["extension", "namespace_file_stem", "stropping_prefix", "new_key", "stable_support"]


def strproj(x):
    """LanguageConfig.get_config_value: str(value), None -> ''  (a DefaultValue is stripped first)"""
    if isinstance(x, base.DV()):
        x = x.value
    return "" if x is None else str(x)


def tok_raw(v):
    return "v!" if v is base._ABSENT else "v" + base.wire(v)


def read_cfg_value(lctx, sect, key):
    sec = lctx.config.sections().get(sect, base._ABSENT)
    if not isinstance(sec, dict):
        return "v!"
    return tok_raw(sec.get(key, base._ABSENT))


def read_cfg_option(lctx, sect, key):
    sec = lctx.config.sections().get(sect, base._ABSENT)
    if not isinstance(sec, dict) or not isinstance(sec.get("options"), dict):
        return "v!"
    return tok_raw(sec["options"].get(key, base._ABSENT))


_NO = object()


def read_lang_value(lang, key):
    """through the Language object's public API: dict-valued keys as dicts, everything else as get_config_value's str"""
    d = lang.get_config_value_as_dict(key, _NO_DICT)
    if d is not _NO_DICT:
        return "v" + base.wire(d)
    return "s" + base.enc_atom("s:" + lang.get_config_value(key, SENT))


_NO_DICT = {"<no-dict>": 1}


def read_lang_option(lang, key):
    v = lang.get_option(key, _NO)
    return "v!" if v is _NO else "v" + base.wire(v)


def model_value_token(tok):
    """the model's raw answer for a *Value read, as the public API shows it"""
    if tok == "v!":
        return "s" + base.enc_atom("s:" + SENT)
    if tok.startswith("v{"):
        return tok
    if tok.startswith("v"):
        return "s" + base.enc_atom("s:" + strproj(base.parse_wire(tok[1:])))
    return tok


def make_env(lctx):
    from nunavut.jinja.environment import CodeGenEnvironmentBuilder
    from nunavut.jinja.jinja2 import DictLoader
    return CodeGenEnvironmentBuilder(DictLoader({"probe": "{{ options | length }}"}), lctx).create()


def observe_all(lctx, with_templates=True):
    """Everything a context reports once its language map exists (used for: earlier-context-changed, fresh process)."""
    out = {}
    langs = lctx.get_supported_languages()
    out["names"] = sorted(langs.keys())
    out["target"] = lctx.get_target_language().name
    out["config"] = base.wire(lctx.config.sections())
    per = {}
    for name in sorted(langs):
        lang = langs[name]
        per[name] = {"options": base.wire(dict(lang.get_options())),
                     "values": {k: lang.get_config_value(k, SENT) for k in SCALAR_KEYS},
                     "dicts": {k: base.wire(lang.get_config_value_as_dict(k, {})) for k in DICT_KEYS}}
    out["languages"] = per
    if with_templates:
        env = make_env(lctx)
        ln = env.globals["ln"]
        out["ln"] = {name: base.wire(dict(getattr(ln, name).options.items())) for name in sorted(langs)}
        out["options_global"] = base.wire(dict(env.globals["options"].items()))
        out["ln_globals"] = {name: {k: strproj(v) for k, v in sorted(getattr(ln, name).items()) if k.startswith("valuetoken_")}
                             for name in sorted(langs)}
    return out


# ------------------------------------------------------------------------------------------------------
# generators
# ------------------------------------------------------------------------------------------------------
OPT_KEYS = ["enable_serialization_asserts", "omit_float_serialization_support", "target_endianness",
            "enable_override_variable_array_capacity", "cast_format", "zz_new"]
CPP_STDS = ["c++14", "c++17", "c++20", "c++17-pmr", "cetl++14-17", "nope"]


def gen_opts(rng, sect, allow_default):
    cpp = sect.endswith(".cpp")
    o = {}
    for k in rng.sample(OPT_KEYS, rng.randint(0, 3)):
        if k == "target_endianness":
            v = rng.choice(["any", "big", "little"])
        elif k == "cast_format":
            v = rng.choice(["(({type}) {value})", "X"])
        elif k == "zz_new":
            v = rng.choice([1, 2, None, "", "z"])
        else:
            v = rng.choice([True, False])
        if allow_default and rng.random() < 0.3:
            v = base.DV()(v)
        o[k] = v
    if rng.random() < (0.6 if cpp else 0.15):
        o["std"] = rng.choice(CPP_STDS if cpp else ["c11", "c99", "c++17-pmr"])
    if cpp and rng.random() < 0.2:
        o["allocator_type"] = rng.choice(["", "my::alloc", None])
    if cpp and rng.random() < 0.12:
        o["ctor_convention"] = rng.choice(["default", "uses-leading-allocator", "Uses_Trailing_Allocator", "bogus"])
    return o


def gen_hist_doc(rng, sects, target_sect):
    """an override file that mostly configures languages that are NOT the builder's target"""
    others = [s for s in sects if s != target_sect]
    doc = {}
    for _ in range(rng.choice([1, 1, 2, 3])):
        sec = rng.choice(others + others + [target_sect])
        body = {}
        if rng.random() < 0.8:
            body["options"] = gen_opts(rng, sec, False)
        if rng.random() < 0.5:
            body["extension"] = rng.choice([".h", ".hh", ".hxx", ".inc"])
        if rng.random() < 0.3:
            body[rng.choice(["namespace_file_stem", "stropping_prefix", "new_key"])] = rng.choice(["_", "x", "", None, 0])
        if rng.random() < 0.2:
            body["named_values"] = {rng.choice(["true", "mine"]): rng.choice(["T", 1, None, "yes"])}
        if rng.random() < 0.06:
            body["stable_support"] = rng.choice([True, False])
        doc[sec] = body
    if rng.random() < 0.03:
        doc[PFX + "zz9"] = {"extension": ".zz"}
    return doc


def hist_exc_kind(e):
    from nunavut.lang import UnsupportedLanguageError
    if isinstance(e, UnsupportedLanguageError):
        return "err:unsupported"
    if isinstance(e, KeyError) and "is not a supported language" in str(e):
        return "err:unknownLanguage"
    if isinstance(e, FileNotFoundError):
        return "err:noFile"
    return base.cfg_exc_kind(e)


# ------------------------------------------------------------------------------------------------------
# independent predicates on the real code
# ------------------------------------------------------------------------------------------------------
def skip_keys(sect, builtin, final_sec):
    if sect.endswith(".cpp"):
        return base.group_keys(builtin.get(sect, {}).get("defaults"), (final_sec or {}).get("defaults")) | {"std"}
    if sect.endswith(".py"):
        return {"enable_serialization_asserts"}
    return set()


def check_language_path_precedence(ctx, builtin, files, sect, overrides, lang, desc):
    """value read THROUGH THE LANGUAGE OBJECT = pick([built-in, files of this builder as they were when read, overrides])"""
    chain = [builtin] + list(files) + ([{sect: overrides}] if overrides is not None else [])
    ext = lang.get_config_value("extension", SENT)
    view = {sect: {"options": dict(lang.get_options())}}
    if ext != SENT:
        view[sect]["extension"] = ext
    skip = skip_keys(sect, builtin, chain[-1].get(sect) if isinstance(chain[-1], dict) else None)
    for f in files:
        skip |= base.group_keys((f.get(sect) or {}).get("defaults") if isinstance(f.get(sect), dict) else None)
    paths = set()
    for f in files + ([{sect: overrides}] if overrides is not None else []):
        paths.update(p for p in base.all_paths(f) if p[0] == sect and (p[1:2] == ("options",) and len(p) == 3 or p == (sect, "extension")))
    for p in sorted(paths):
        if len(p) == 3 and p[2] in skip:
            continue
        if all(base.compat(v, p) for v in chain):
            want = base.pick([base.at(v, p) for v in chain])
            if isinstance(want, base.DV()) and p[1] == "extension":
                want = want.value
            got = base.at(view, p)
            ctx.count("language_path_precedence_paths")
            if not base.same(want, got):
                ctx.fail({"kind": "file-precedence", "via": "language-object"},
                         "the value a context reports through ctx.get_language(x) is not built-in < files of its own builder "
                         "(as they were when add_config_files read them) < overrides",
                         dict(desc, language=short(sect), path=list(p), files_read_by_this_builder=[base.wire(f) for f in files],
                              expected=base.wire(want) if want is not base._ABSENT else None,
                              observed=base.wire(got) if got is not base._ABSENT else None))


def check_access_paths_agree(ctx, lctx, desc, env=None):
    """after the map exists: config, Language objects and template globals tell the same"""
    langs = lctx.get_supported_languages()
    secs = lctx.config.sections()
    tgt = lctx.get_target_language()
    if langs.get(tgt.name) is not tgt:
        ctx.fail({"kind": "access-paths-disagree", "paths": "target/map"}, "get_supported_languages()[target] is not get_target_language()",
                 dict(desc, target=tgt.name))
    if lctx.get_language(tgt.name) is not tgt or lctx.get_language(PFX + tgt.name) is not tgt:
        ctx.fail({"kind": "access-paths-disagree", "paths": "target/get_language"}, "get_language(target) is not get_target_language()",
                 dict(desc, target=tgt.name))
    for name, lang in sorted(langs.items()):
        sect = PFX + name
        sec = secs.get(sect, {})
        ctx.count("access_path_comparisons")
        if isinstance(sec.get("options"), dict):
            a, b = base.wire(sec["options"]), base.wire(dict(lang.get_options()))
            if a != b:
                ctx.fail({"kind": "access-paths-disagree", "paths": "config/language-object"},
                         "ctx.config and ctx.get_language(x).get_options() report different options for the same language",
                         dict(desc, language=name, config_says=a[:1500], language_object_says=b[:1500]))
        for k in ["extension", "namespace_file_stem", "new_key"]:
            a, b = lctx.config.get_config_value(sect, k, SENT), lang.get_config_value(k, SENT)
            if a != b:
                ctx.fail({"kind": "access-paths-disagree", "paths": "config/language-object"},
                         "ctx.config.get_config_value and ctx.get_language(x).get_config_value differ",
                         dict(desc, language=name, key=k, config_says=a, language_object_says=b))
        if env is not None:
            ln = getattr(env.globals["ln"], name)
            a, b = base.wire(dict(ln.options.items())), base.wire(dict(lang.get_options()))
            if a != b:
                ctx.fail({"kind": "access-paths-disagree", "paths": "template-global/language-object"},
                         "ln.<lang>.options of the template environment differs from get_language(lang).get_options()",
                         dict(desc, language=name, template_says=a[:1500], language_object_says=b[:1500]))
    if env is not None:
        a, b = base.wire(dict(env.globals["options"].items())), base.wire(dict(tgt.get_options()))
        if a != b:
            ctx.fail({"kind": "access-paths-disagree", "paths": "template-global/target"},
                     "the `options` global of the template environment differs from the target language's options",
                     dict(desc, template_says=a[:1500], target_says=b[:1500]))


# ------------------------------------------------------------------------------------------------------
# one history
# ------------------------------------------------------------------------------------------------------
class History:
    """A sequence of builders in this process.  `ops` / `impl` are the model request and the real code's answers."""

    def __init__(self, ctx, rng, seqno, builtin_py, sects, nbuilders=None):
        from nunavut.lang import LanguageContextBuilder
        self.ops, self.impl, self.notes = [], [], []
        self.builders = []        # description of each builder for the fresh-process comparison
        self.contexts = []        # (b, j, lctx, observation after forcing, desc)
        d = ctx.scratch / ("hist%04d" % seqno)
        d.mkdir(exist_ok=True)
        pool = [d / n for n in ("overrides.yaml", "site.yaml", "more.yaml")[:rng.choice([1, 2, 2, 3])]]
        content = {}
        k = nbuilders or rng.choice([2, 3, 3, 4])
        for b in range(k):
            self._one_builder(ctx, rng, b, pool, content, builtin_py, sects, LanguageContextBuilder)
        # afterwards: every earlier context must report what it reported
        for (b, j, lctx, seen, desc) in self.contexts:
            ctx.count("contexts_reobserved")
            try:
                now = observe_all(lctx, with_templates=False)
            except Exception as e:  # noqa
                now = {"error": repr(e)}
            before = {k2: v for k2, v in seen.items() if k2 in now}
            if now != before:
                diff = [k2 for k2 in now if now[k2] != before.get(k2)]
                ctx.fail({"kind": "earlier-context-changed", "via": "process-history"},
                         "a context reports other values after later builders were created in the same process",
                         dict(desc, builder=b, context=j, differing=diff,
                              before={k2: str(before.get(k2))[:800] for k2 in diff}, after={k2: str(now[k2])[:800] for k2 in diff}))
            # and the model: a last read through the language objects and the configuration
            for sect in sects[:3]:
                self._read(lctx, b, j, ("lv", sect, "options"))
                self._read(lctx, b, j, ("cv", sect, "extension"))

    # -- protocol helpers
    def _op(self, tok, ans):
        self.ops.append(tok)
        self.impl.append(ans)

    def _read(self, lctx, b, j, acc):
        kind = acc[0]
        head = "R/%d/%d/%s" % (b, j, kind)
        try:
            if kind == "nm":
                ans = "n" + ",".join(sorted(PFX + n for n in lctx.get_supported_languages().keys()))
                tok = head
            elif kind in ("tv", "to"):
                lang = lctx.get_target_language()
                ans = read_lang_value(lang, acc[1]) if kind == "tv" else read_lang_option(lang, acc[1])
                tok = head + "/" + base.enc_atom(acc[1])
            else:
                tok = head + "/" + base.enc_atom(acc[1]) + "/" + base.enc_atom(acc[2])
                if kind == "cv":
                    ans = read_cfg_value(lctx, acc[1], acc[2])
                elif kind == "co":
                    ans = read_cfg_option(lctx, acc[1], acc[2])
                else:
                    try:
                        lang = lctx.get_language(acc[1] if len(self.ops) % 2 else short(acc[1]))
                    except KeyError as e:
                        if "is not a supported language" in str(e):
                            raise
                        lang = None
                    if lang is None:
                        ans = "err:noLanguage"
                    else:
                        ans = read_lang_value(lang, acc[2]) if kind == "lv" else read_lang_option(lang, acc[2])
        except Exception as e:  # noqa
            ans = hist_exc_kind(e)
            if kind in ("tv", "to", "cv", "co"):
                ans = "err:unexpected:" + repr(e)[:80]
            tok = head + ("" if kind == "nm" else "/" + "/".join(base.enc_atom(x) for x in acc[1:]))
        self._op(tok, ("V", ans) if kind in ("tv", "lv") else ans)
        return ans

    def _one_builder(self, ctx, rng, b, pool, content, builtin_py, sects, LanguageContextBuilder):
        exp = rng.random() < 0.85
        target = rng.choice(["c", "c", "cpp", "py"] if exp else ["c", "c", "py", "cpp"])
        tsect = PFX + target
        desc = {"builder": b, "target": target, "include_experimental_languages": exp, "calls": []}
        bld = LanguageContextBuilder(include_experimental_languages=exp)
        self._op("B/%d/%d" % (b, 1 if exp else 0), "-")
        bld.set_target_language(target)
        self._op("L/%d/%s" % (b, base.enc_atom(tsect)), "-")
        files_read, overrides, dead = [], {}, None
        calls = []
        for _ in range(rng.choice([0, 1, 1, 2, 2])):
            calls.append("file")
        for _ in range(rng.choice([0, 0, 1, 2])):
            calls.append("ovr")
        rng.shuffle(calls)
        import yaml
        try:
            for c in calls:
                if c == "file":
                    batch = []
                    for _ in range(rng.choice([1, 1, 2])):
                        p = rng.randrange(len(pool))
                        if p not in content or rng.random() < 0.8:
                            doc = gen_hist_doc(rng, sects, tsect)
                            content[p] = doc
                            pool[p].write_text(yaml.safe_dump(doc, sort_keys=False, allow_unicode=True), encoding="utf-8")
                            self._op("W/%d/%s" % (p, base.wire(doc)), "-")
                        batch.append(p)
                    for p in batch:
                        files_read.append(copy.deepcopy(content[p]))
                    desc["calls"].append(["files", [pool[p].name for p in batch], [base.wire(content[p]) for p in batch]])
                    self.ops.append("A/%d/%s" % (b, ",".join(map(str, batch))))
                    self.impl.append(None)
                    bld.add_config_files(*[pool[p] for p in batch])
                    self.impl[-1] = "-"
                else:
                    if rng.random() < 0.7:
                        key, val = "options", gen_opts(rng, tsect, True)
                    else:
                        key, val = rng.choice(["extension", "namespace_file_stem", "new_key"]), rng.choice([".h", ".hh", None, base.DV()("dv"), ""])
                    desc["calls"].append(["override", key, None if val is None else base.wire(val)])
                    self._op("O/%d/%s/%s" % (b, base.enc_atom(key), "!" if val is None else base.wire(val)), "-")
                    bld.set_target_language_configuration_override(key, copy.deepcopy(val))
                    if val is not None:
                        overrides[key] = val
            ncreate = 2 if rng.random() < 0.15 else 1
            desc["creates"] = ncreate
            made = []
            for j in range(ncreate):
                self.ops.append("C/%d/%d" % (b, j))
                self.impl.append(None)
                lctx = bld.create()
                self.impl[-1] = "-"
                made.append((j, lctx))
        except Exception as e:  # noqa
            dead = hist_exc_kind(e)
            if self.impl and self.impl[-1] is None:
                self.impl[-1] = dead
            ctx.count("history_builder_" + dead)
            self.builders.append(None)
            return
        ctx.count("history_builder_ok")
        self.builders.append(desc)
        for (j, lctx) in made:
            try:
                self._observe(ctx, rng, b, j, lctx, builtin_py, sects, tsect, files_read, overrides, desc)
            except _BuilderDead:
                self.contexts = [c for c in self.contexts if c[0] != b]
                return

    def _observe(self, ctx, rng, b, j, lctx, builtin_py, sects, tsect, files_read, overrides, desc):
        mentioned = set()
        for f in files_read:
            for s, body in f.items():
                if isinstance(body, dict) and isinstance(body.get("options"), dict):
                    mentioned.update((s, k) for k in body["options"])
        mentioned = sorted(mentioned)
        # 1. before anything asks for the language map (about half of the contexts)
        if rng.random() < 0.5:
            for sect in rng.sample(sects, 2):
                self._read(lctx, b, j, ("cv", sect, "options"))
                self._read(lctx, b, j, ("cv", sect, "extension"))
            self._read(lctx, b, j, ("to", rng.choice(OPT_KEYS + ["std"])))
            self._read(lctx, b, j, ("tv", "extension"))
            self._read(lctx, b, j, ("tv", "options"))
            ctx.count("contexts_read_before_map")
        # 2. the first access that builds the map
        first = rng.choice(["nm", "lo", "lv"])
        other = rng.choice([s for s in sects if s != tsect])
        acc = ("nm",) if first == "nm" else ((first, other, "std") if first == "lo" else (first, other, "options"))
        ans = self._read(lctx, b, j, acc)
        if ans.startswith("err:") and ans != "err:noLanguage":
            ctx.count("history_map_" + ans)
            self.builders[-1] = None
            raise _BuilderDead()
        # 3. everything, through every path
        self._read(lctx, b, j, ("nm",))
        for sect in sects + ([PFX + "zz9"] if rng.random() < 0.2 else []):
            self._read(lctx, b, j, ("lv", sect, "options"))
            self._read(lctx, b, j, ("cv", sect, "options"))
            self._read(lctx, b, j, ("lv", sect, rng.choice(SCALAR_KEYS)))
            self._read(lctx, b, j, ("lv", sect, "extension"))
            self._read(lctx, b, j, ("cv", sect, "extension"))
            self._read(lctx, b, j, ("lv", sect, "named_values"))
        for (s, k) in mentioned[:12]:
            self._read(lctx, b, j, ("lo", s, k))
            self._read(lctx, b, j, ("co", s, k))
        for k in rng.sample(OPT_KEYS + ["std", "allocator_type"], 3):
            self._read(lctx, b, j, ("to", k))
            self._read(lctx, b, j, ("lo", tsect, k))
        self._read(lctx, b, j, ("tv", "extension"))
        # independent predicates
        env = make_env(lctx)
        d2 = {"history": self.describe(), "builder": b, "context": j}
        check_access_paths_agree(ctx, lctx, d2, env)
        langs = lctx.get_supported_languages()
        for name, lang in sorted(langs.items()):
            sect = PFX + name
            check_language_path_precedence(ctx, builtin_py, files_read, sect, overrides if sect == tsect else None, lang, d2)
        base.precedence_oracle(ctx, "process-history", builtin_py, files_read, tsect, overrides, lctx.config.sections(),
                               short(tsect), d2)
        # the configuration of the non-target sections, as ctx.config has them
        for sect in sects:
            if sect != tsect:
                check_config_section(ctx, builtin_py, files_read, sect, lctx.config.sections(), d2)
        seen = observe_all(lctx)
        self.contexts.append((b, j, lctx, seen, d2))
        ctx.count("contexts_observed")

    def describe(self):
        return {"ops": [o[:600] for o in self.ops]}

    def line(self, builtin_wire):
        return "proc " + builtin_wire + " " + " ".join(self.ops)


class _BuilderDead(Exception):
    pass


def check_config_section(ctx, builtin, files, sect, final, desc):
    chain = [builtin] + list(files)
    skip = skip_keys(sect, builtin, final.get(sect))
    paths = set()
    for f in files:
        paths.update(p for p in base.all_paths(f) if p[0] == sect)
    for p in sorted(paths):
        if len(p) == 3 and p[1] == "options" and p[2] in skip:
            continue
        if all(base.compat(v, p) for v in chain):
            want, got = base.pick([base.at(v, p) for v in chain]), base.at(final, p)
            ctx.count("nontarget_config_paths")
            if not base.same(want, got):
                ctx.fail({"kind": "file-precedence", "via": "config/non-target"},
                         "ctx.config does not hold built-in < files of its own builder (as read) for a language that is not the target",
                         dict(desc, section=sect, path=list(p), files_read_by_this_builder=[base.wire(f) for f in files],
                              expected=base.wire(want) if want is not base._ABSENT else None,
                              observed=base.wire(got) if got is not base._ABSENT else None))


def compare_history(ctx, h, model_line):
    """model answers vs the real code's, op by op"""
    toks = model_line.split(" ")
    if not toks or toks[0] != "ok" or len(toks) - 1 != len(h.ops):
        ctx.disagree("process-history", h.describe(), model_line[:300], "%d answers expected" % len(h.ops))
        return
    for i, (m, g) in enumerate(zip(toks[1:], h.impl)):
        ctx.traces += 1
        if isinstance(g, tuple):
            g = g[1]
            m = model_value_token(m)
        if m != g:
            ctx.disagree("process-history", {"ops_so_far": [o[:400] for o in h.ops[:i + 1]], "op": h.ops[i][:400], "index": i}, m[:2000], str(g)[:2000])
            return


# ------------------------------------------------------------------------------------------------------
# fresh process
# ------------------------------------------------------------------------------------------------------
def run_builder_description(desc, workdir):
    """Perform the calls of one builder description in THIS process and observe its last context."""
    from nunavut.lang import LanguageContextBuilder
    import yaml
    bld = LanguageContextBuilder(include_experimental_languages=desc["include_experimental_languages"])
    bld.set_target_language(desc["target"])
    for c in desc["calls"]:
        if c[0] == "files":
            paths = []
            for name, w in zip(c[1], c[2]):
                p = pathlib.Path(workdir) / name
                p.write_text(yaml.safe_dump(base.parse_wire(w), sort_keys=False, allow_unicode=True), encoding="utf-8")
                paths.append(p)
            bld.add_config_files(*paths)
        else:
            bld.set_target_language_configuration_override(c[1], None if c[2] is None else base.parse_wire(c[2]))
    lctx = None
    for _ in range(desc["creates"]):
        lctx = bld.create()
    return observe_all(lctx)


def fresh_main():
    desc = json.loads(sys.stdin.read())
    with tempfile.TemporaryDirectory(prefix="c13_fresh_") as d:
        try:
            out = run_builder_description(desc, d)
        except Exception as e:  # noqa
            out = {"error": hist_exc_kind(e)}
    sys.stdout.write(json.dumps(out, sort_keys=True))


def fresh_observation(desc):
    env = dict(os.environ, PYTHONPATH=str(common.VERIF), PYTHONHASHSEED="0")
    p = subprocess.run([common.PY, "-c", "from harness import c13_ctx; c13_ctx.fresh_main()"], input=json.dumps(desc),
                       capture_output=True, text=True, timeout=120, env=env, cwd=str(common.VERIF))
    if p.returncode != 0:
        return {"error": "fresh process failed: " + p.stderr[-400:]}
    return json.loads(p.stdout)


def stream_process_history(ctx, drv, rng):
    builtin_wire, builtin_py = base.builtin_sections_wire(), base.builtin_sections_py()
    sects = list(builtin_py.keys())
    n = 36 if ctx.quick else 400
    nfresh = 5 if ctx.quick else 40
    hs = []
    for i in range(n):
        h = History(ctx, rng, i, builtin_py, sects)
        hs.append(h)
        ctx.case(("history", tuple(h.ops)), len(h.contexts) >= 2)
        ctx.count("histories")
    if drv:
        for h, m in zip(hs, drv.ask([h.line(builtin_wire) for h in hs], timeout=1200)):
            compare_history(ctx, h, m)
    ctx.sample({"history_ops": [o[:160] for o in hs[0].ops[:40]]})
    # the last observed context of a history, against the same builder calls in a fresh process
    done = 0
    for h in hs:
        if done >= nfresh:
            break
        cands = [(b, j, lctx, seen, d) for (b, j, lctx, seen, d) in h.contexts if b >= 1 and h.builders[b] is not None
                 and j == h.builders[b]["creates"] - 1]
        if not cands:
            continue
        b, j, lctx, seen, d = cands[-1]
        fresh = fresh_observation(h.builders[b])
        done += 1
        ctx.count("fresh_process_comparisons")
        if fresh != json.loads(json.dumps(seen, sort_keys=True)):
            diff = sorted(k for k in set(fresh) | set(seen) if fresh.get(k) != json.loads(json.dumps(seen.get(k))))
            ctx.fail({"kind": "history-dependence"},
                     "a builder reports other values than the same calls report in a fresh process (an earlier builder of the process shows through)",
                     dict(d, builder_calls=h.builders[b], differing=diff,
                          in_this_process={k: str(seen.get(k))[:800] for k in diff}, in_a_fresh_process={k: str(fresh.get(k))[:800] for k in diff}))
