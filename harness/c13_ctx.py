"""
C13, round 2 — process histories, access paths, create() ordering, YAML-level glue.

Model: lean/NunavutVerif/Model/ConfigCtx.lean (`Proc`, `POp`, `Access`, `normV`), driver ops `proc`, `ynorm`, `ycfg`.

* stream_process_history: several LanguageContextBuilders in ONE process, override files whose PATHS are reused across
  builders with changed content, contexts read through EVERY access path (ctx.config, ctx.get_target_language(),
  ctx.get_language(x) for every x, get_supported_languages(), the `ln.<lang>` / `options` globals of a real template
  environment), before and after the lazily built language map exists; every op is answered by the model as well.
  Independent predicates: the access paths agree with each other; the value read through a Language object follows
  built-in < files of THIS builder (content at the time of the call) < overrides (target only); an earlier context
  reports the same after later builders; a builder gives the same answers in a fresh process.
* stream_shorthand_routes: a C++ shorthand arriving by file, by API override or by the command line.
* stream_yaml_text: YAML documents as text (null / non-mapping documents and sections, repeated keys, anchors and aliases,
  merge keys) through update_from_yaml_string / add_config_files.
"""
import copy
import json
import os
import subprocess
import sys
import tempfile
import pathlib

from . import common
from . import c13 as base

PFX = "nunavut.lang."
SENT = "<unset>"


def short(sect):
    return sect[len(PFX):]


# ------------------------------------------------------------------------------------------------------
# observation of one context through every access path (real code)
# ------------------------------------------------------------------------------------------------------
DICT_KEYS = ["options", "named_values", "named_types"]
SCALAR_KEYS = ["extension", "namespace_file_stem", "stropping_prefix", "new_key", "stable_support"]


def strproj(x):
    """LanguageConfig.get_config_value: str(value), None -> ''  (a DefaultValue is stripped first)"""
    if isinstance(x, base.DV()):
        x = x.value
    return "" if x is None else str(x)


def tok_raw(v):
    return "v!" if v is base._ABSENT else "v" + base.wire(v)


def read_cfg_value(lctx, sect, key):
    sec = lctx.config.sections().get(sect, base._ABSENT)
    if not isinstance(sec, dict):
        return "v!"
    return tok_raw(sec.get(key, base._ABSENT))


def read_cfg_option(lctx, sect, key):
    sec = lctx.config.sections().get(sect, base._ABSENT)
    if not isinstance(sec, dict) or not isinstance(sec.get("options"), dict):
        return "v!"
    return tok_raw(sec["options"].get(key, base._ABSENT))


_NO = object()


def read_lang_value(lang, key):
    """through the Language object's public API: dict-valued keys as dicts, everything else as get_config_value's str"""
    d = lang.get_config_value_as_dict(key, _NO_DICT)
    if d is not _NO_DICT:
        return "v" + base.wire(d)
    return "s" + base.enc_atom("s:" + lang.get_config_value(key, SENT))


_NO_DICT = {"<no-dict>": 1}


def read_lang_option(lang, key):
    v = lang.get_option(key, _NO)
    return "v!" if v is _NO else "v" + base.wire(v)


def model_value_token(tok):
    """the model's raw answer for a *Value read, as the public API shows it"""
    if tok == "v!":
        return "s" + base.enc_atom("s:" + SENT)
    if tok.startswith("v{"):
        return tok
    if tok.startswith("v"):
        return "s" + base.enc_atom("s:" + strproj(base.parse_wire(tok[1:])))
    return tok


def make_env(lctx):
    from nunavut.jinja.environment import CodeGenEnvironmentBuilder
    from nunavut.jinja.jinja2 import DictLoader
    return CodeGenEnvironmentBuilder(DictLoader({"probe": "{{ 'class' | id }}|{{ 'std' | id }}|{{ ln.c.options.std }}"}), lctx).create()


def observe_all(lctx, with_templates=True):
    """Everything a context reports once its language map exists (used for: earlier-context-changed, fresh process)."""
    out = {}
    langs = lctx.get_supported_languages()
    out["names"] = sorted(langs.keys())
    out["target"] = lctx.get_target_language().name
    out["config"] = base.wire(lctx.config.sections())
    per = {}
    for name in sorted(langs):
        lang = langs[name]
        per[name] = {"options": base.wire(dict(lang.get_options())),
                     "values": {k: lang.get_config_value(k, SENT) for k in SCALAR_KEYS},
                     "dicts": {k: base.wire(lang.get_config_value_as_dict(k, {})) for k in DICT_KEYS}}
    out["languages"] = per
    if with_templates:
        env = make_env(lctx)
        ln = env.globals["ln"]
        out["ln"] = {name: base.wire(dict(getattr(ln, name).options.items())) for name in sorted(langs)}
        out["options_global"] = base.wire(dict(env.globals["options"].items()))
        out["ln_globals"] = {name: {k: strproj(v) for k, v in sorted(getattr(ln, name).items()) if k.startswith("valuetoken_")}
                             for name in sorted(langs)}
    return out


# ------------------------------------------------------------------------------------------------------
# generators
# ------------------------------------------------------------------------------------------------------
OPT_KEYS = ["enable_serialization_asserts", "omit_float_serialization_support", "target_endianness",
            "enable_override_variable_array_capacity", "cast_format", "zz_new"]
CPP_STDS = ["c++14", "c++17", "c++20", "c++17-pmr", "cetl++14-17", "nope"]


def gen_opts(rng, sect, allow_default):
    cpp = sect.endswith(".cpp")
    o = {}
    for k in rng.sample(OPT_KEYS, rng.randint(0, 3)):
        if k == "target_endianness":
            v = rng.choice(["any", "big", "little"])
        elif k == "cast_format":
            v = rng.choice(["(({type}) {value})", "X"])
        elif k == "zz_new":
            v = rng.choice([1, 2, None, "", "z"])
        else:
            v = rng.choice([True, False])
        if allow_default and rng.random() < 0.3:
            v = base.DV()(v)
        o[k] = v
    if rng.random() < (0.6 if cpp else 0.15):
        o["std"] = rng.choice(CPP_STDS if cpp else ["c11", "c99", "c++17-pmr"])
    if cpp and rng.random() < 0.2:
        o["allocator_type"] = rng.choice(["", "my::alloc", None])
    if cpp and rng.random() < 0.12:
        o["ctor_convention"] = rng.choice(["default", "uses-leading-allocator", "Uses_Trailing_Allocator", "bogus"])
    return o


def gen_hist_doc(rng, sects, target_sect):
    """an override file that mostly configures languages that are NOT the builder's target"""
    others = [s for s in sects if s != target_sect]
    doc = {}
    for _ in range(rng.choice([1, 1, 2, 3])):
        sec = rng.choice(others + others + [target_sect])
        body = {}
        if rng.random() < 0.8:
            body["options"] = gen_opts(rng, sec, False)
        if rng.random() < 0.5:
            body["extension"] = rng.choice([".h", ".hh", ".hxx", ".inc"])
        if rng.random() < 0.3:
            body[rng.choice(["namespace_file_stem", "stropping_prefix", "new_key"])] = rng.choice(["_", "x", "", None, 0])
        if rng.random() < 0.2:
            body["named_values"] = {rng.choice(["true", "mine"]): rng.choice(["T", 1, None, "yes"])}
        if rng.random() < 0.06:
            body["stable_support"] = rng.choice([True, False])
        if rng.random() < 0.3:
            body["reserved_identifiers"] = rng.choice([["foo", "bar"], ["int", "class", "zz"], [], ["std"]])
        doc[sec] = body
    if rng.random() < 0.03:
        doc[PFX + "zz9"] = {"extension": ".zz"}
    return doc


SAME_SIZE = [[".h", ".c"], [".hh", ".hx", ".cc"], [".hxx", ".hpp", ".inc"], ["c++14", "c++17", "c++20"], ["any", "big"], ["c11", "c99"],
             ["x", "_", "z"], ["T", "F"], [1, 2], [True, None]]


def same_size_variant(rng, doc):
    """a document that differs from `doc` in one leaf and is dumped to YAML text of exactly the same length (None if there
    is no leaf with an equally long alternative)"""
    import yaml
    spots = []

    def walk(d, path):
        for k, v in d.items():
            if isinstance(v, dict):
                walk(v, path + (k,))
            else:
                for grp in SAME_SIZE:
                    if any(v is x or (type(v) is type(x) and v == x) for x in grp):
                        spots.append((path + (k,), [x for x in grp if not (type(v) is type(x) and v == x)]))

    walk(doc, ())
    rng.shuffle(spots)
    size = len(yaml.safe_dump(doc, sort_keys=False, allow_unicode=True).encode("utf-8"))
    for path, alts in spots:
        for alt in alts:
            new = copy.deepcopy(doc)
            d = new
            for k in path[:-1]:
                d = d[k]
            d[path[-1]] = alt
            if len(yaml.safe_dump(new, sort_keys=False, allow_unicode=True).encode("utf-8")) == size:
                return new
    return None


def hist_exc_kind(e):
    from nunavut.lang import UnsupportedLanguageError
    if isinstance(e, UnsupportedLanguageError):
        return "err:unsupported"
    if isinstance(e, KeyError) and "is not a supported language" in str(e):
        return "err:unknownLanguage"
    if isinstance(e, FileNotFoundError):
        return "err:noFile"
    return base.cfg_exc_kind(e)


# ------------------------------------------------------------------------------------------------------
# independent predicates on the real code
# ------------------------------------------------------------------------------------------------------
def skip_keys(sect, builtin, final_sec):
    if sect.endswith(".cpp"):
        return base.group_keys(builtin.get(sect, {}).get("defaults"), (final_sec or {}).get("defaults")) | {"std"}
    if sect.endswith(".py"):
        return {"enable_serialization_asserts"}
    return set()


def check_language_path_precedence(ctx, builtin, files, sect, overrides, lang, desc):
    """value read THROUGH THE LANGUAGE OBJECT = pick([built-in, files of this builder as they were when read, overrides])"""
    chain = [builtin] + list(files) + ([{sect: overrides}] if overrides is not None else [])
    ext = lang.get_config_value("extension", SENT)
    view = {sect: {"options": dict(lang.get_options())}}
    if ext != SENT:
        view[sect]["extension"] = ext
    skip = skip_keys(sect, builtin, chain[-1].get(sect) if isinstance(chain[-1], dict) else None)
    for f in files:
        skip |= base.group_keys((f.get(sect) or {}).get("defaults") if isinstance(f.get(sect), dict) else None)
    paths = set()
    for f in files + ([{sect: overrides}] if overrides is not None else []):
        paths.update(p for p in base.all_paths(f) if p[0] == sect and (p[1:2] == ("options",) and len(p) == 3 or p == (sect, "extension")))
    for p in sorted(paths):
        if len(p) == 3 and p[2] in skip:
            continue
        if all(base.compat(v, p) for v in chain):
            want = base.pick([base.at(v, p) for v in chain])
            if isinstance(want, base.DV()) and p[1] == "extension":
                want = want.value
            got = base.at(view, p)
            ctx.count("language_path_precedence_paths")
            if not base.same(want, got):
                ctx.fail({"kind": "file-precedence", "via": "language-object"},
                         "the value a context reports through ctx.get_language(x) is not built-in < files of its own builder "
                         "(as they were when add_config_files read them) < overrides",
                         dict(desc, language=short(sect), path=list(p), files_read_by_this_builder=[base.wire(f) for f in files],
                              expected=base.wire(want) if want is not base._ABSENT else None,
                              observed=base.wire(got) if got is not base._ABSENT else None))


IDENTIFIERS = ["std", "int", "class", "mine", "foo", "for", "x_y", "zz", "print", "_Reserved", "a b", "9lives", "None"]


def use_context(ctx, lctx):
    """What every generator run does with a context: strop identifiers in every language of the map (the token encoders are
    created lazily on the first one), strop for the target, render a template.  Errors of the filters are not our business."""
    used = 0
    for name, lang in sorted(lctx.get_supported_languages().items()):
        for ident in IDENTIFIERS:
            for id_type in ("any", "path"):
                try:
                    lang.filter_id(ident, id_type)
                    used += 1
                except Exception:  # noqa
                    pass
    for ident in IDENTIFIERS:
        try:
            lctx.filter_id_for_target(ident)
        except Exception:  # noqa
            pass
    try:
        env = make_env(lctx)
        env.get_template("probe").render()
        env.from_string("{{ 'std' | id }}|{{ 'class' | id }}").render()
    except Exception:  # noqa
        ctx.count("use_template_raised")
    ctx.count("contexts_used")
    return used


def check_use_is_read_only(ctx, lctx, before, caller_docs, desc):
    """Using a context changes no value it reports and no source document.  (List leaves are merged BY REFERENCE: the
    configuration's list object is the list of the override document the caller handed in - so this is exactly the
    place where an in-place list operation anywhere behind the context would show.)"""
    after = base.wire(lctx.config.sections())
    ctx.count("use_read_only_checks")
    if after != before:
        secs = lctx.config.sections()
        b0 = base.parse_wire(before)
        diff = [list(p) for p in sorted(set(base.all_paths(secs)) | set(base.all_paths(b0)))
                if not isinstance(base.at(secs, p), dict) and not isinstance(base.at(b0, p), dict)
                and (base.at(secs, p) is base._ABSENT or base.at(b0, p) is base._ABSENT or base.wire(base.at(secs, p)) != base.wire(base.at(b0, p)))]
        ctx.fail({"kind": "use-changes-configuration"},
                 "stropping identifiers / rendering a template changed a value the context reports (it is no longer the value of any source)",
                 dict(desc, changed_paths=diff[:10],
                      before={"/".join(p): base.wire(base.at(b0, tuple(p)))[:300] for p in diff[:4] if base.at(b0, tuple(p)) is not base._ABSENT},
                      after={"/".join(p): base.wire(base.at(secs, tuple(p)))[:300] for p in diff[:4] if base.at(secs, tuple(p)) is not base._ABSENT}))
    for (b, key, obj, was) in caller_docs:
        ctx.count("caller_documents_checked_after_use")
        if isinstance(obj, list):
            sect = PFX + lctx.get_target_language().name
            if lctx.config.sections().get(sect, {}).get(key) is obj:
                ctx.count("configuration_list_is_the_callers_list_object")
        if base.wire(obj) != was:
            ctx.fail({"kind": "source-mutated", "when": "use"},
                     "using the context modified an override document the caller handed to the builder",
                     dict(desc, override_key=key, handed_over=was[:600], now=base.wire(obj)[:600]))


def check_access_paths_agree(ctx, lctx, desc, env=None):
    """after the map exists: config, Language objects and template globals tell the same"""
    langs = lctx.get_supported_languages()
    secs = lctx.config.sections()
    tgt = lctx.get_target_language()
    if langs.get(tgt.name) is not tgt:
        ctx.fail({"kind": "access-paths-disagree", "paths": "target/map"}, "get_supported_languages()[target] is not get_target_language()",
                 dict(desc, target=tgt.name))
    if lctx.get_language(tgt.name) is not tgt or lctx.get_language(PFX + tgt.name) is not tgt:
        ctx.fail({"kind": "access-paths-disagree", "paths": "target/get_language"}, "get_language(target) is not get_target_language()",
                 dict(desc, target=tgt.name))
    for name, lang in sorted(langs.items()):
        sect = PFX + name
        sec = secs.get(sect, {})
        ctx.count("access_path_comparisons")
        if isinstance(sec.get("options"), dict):
            a, b = base.wire(sec["options"]), base.wire(dict(lang.get_options()))
            if a != b:
                ctx.fail({"kind": "access-paths-disagree", "paths": "config/language-object"},
                         "ctx.config and ctx.get_language(x).get_options() report different options for the same language",
                         dict(desc, language=name, config_says=a[:1500], language_object_says=b[:1500]))
        for k in ["extension", "namespace_file_stem", "new_key"]:
            a, b = lctx.config.get_config_value(sect, k, SENT), lang.get_config_value(k, SENT)
            if a != b:
                ctx.fail({"kind": "access-paths-disagree", "paths": "config/language-object"},
                         "ctx.config.get_config_value and ctx.get_language(x).get_config_value differ",
                         dict(desc, language=name, key=k, config_says=a, language_object_says=b))
        if env is not None:
            ln = getattr(env.globals["ln"], name)
            a, b = base.wire(dict(ln.options.items())), base.wire(dict(lang.get_options()))
            if a != b:
                ctx.fail({"kind": "access-paths-disagree", "paths": "template-global/language-object"},
                         "ln.<lang>.options of the template environment differs from get_language(lang).get_options()",
                         dict(desc, language=name, template_says=a[:1500], language_object_says=b[:1500]))
    if env is not None:
        a, b = base.wire(dict(env.globals["options"].items())), base.wire(dict(tgt.get_options()))
        if a != b:
            ctx.fail({"kind": "access-paths-disagree", "paths": "template-global/target"},
                     "the `options` global of the template environment differs from the target language's options",
                     dict(desc, template_says=a[:1500], target_says=b[:1500]))


# ------------------------------------------------------------------------------------------------------
# one history
# ------------------------------------------------------------------------------------------------------
class History:
    """A sequence of builders in this process.  `ops` / `impl` are the model request and the real code's answers."""

    def __init__(self, ctx, rng, seqno, builtin_py, sects, nbuilders=None):
        from nunavut.lang import LanguageContextBuilder
        self.ops, self.impl, self.notes = [], [], []
        self.caller_docs = []     # (builder, key, the caller's own override object, its value when it was handed over)
        self.builders = []        # description of each builder for the fresh-process comparison
        self.contexts = []        # (b, j, lctx, observation after forcing, desc)
        d = ctx.scratch / ("hist%04d" % seqno)
        d.mkdir(exist_ok=True)
        pool = [d / n for n in ("overrides.yaml", "site.yaml", "more.yaml")[:rng.choice([1, 2, 2, 3])]]
        content = {}
        k = nbuilders or rng.choice([2, 3, 3, 4])
        for b in range(k):
            self._one_builder(ctx, rng, b, pool, content, builtin_py, sects, LanguageContextBuilder)
        # afterwards: every earlier context must report what it reported
        for (b, j, lctx, seen, desc) in self.contexts:
            ctx.count("contexts_reobserved")
            try:
                now = observe_all(lctx, with_templates=False)
            except Exception as e:  # noqa
                now = {"error": repr(e)}
            before = {k2: v for k2, v in seen.items() if k2 in now}
            if now != before:
                diff = [k2 for k2 in now if now[k2] != before.get(k2)]
                ctx.fail({"kind": "earlier-context-changed", "via": "process-history"},
                         "a context reports other values after later builders were created in the same process",
                         dict(desc, builder=b, context=j, differing=diff,
                              before={k2: str(before.get(k2))[:800] for k2 in diff}, after={k2: str(now[k2])[:800] for k2 in diff}))
            # and the model: a last read through the language objects and the configuration
            for sect in sects[:3]:
                self._read(lctx, b, j, ("lv", sect, "options"))
                self._read(lctx, b, j, ("cv", sect, "extension"))

    # -- protocol helpers
    def _op(self, tok, ans):
        self.ops.append(tok)
        self.impl.append(ans)

    def _read(self, lctx, b, j, acc):
        kind = acc[0]
        head = "R/%d/%d/%s" % (b, j, kind)
        try:
            if kind == "nm":
                ans = "n" + ",".join(sorted(PFX + n for n in lctx.get_supported_languages().keys()))
                tok = head
            elif kind in ("tv", "to"):
                lang = lctx.get_target_language()
                ans = read_lang_value(lang, acc[1]) if kind == "tv" else read_lang_option(lang, acc[1])
                tok = head + "/" + base.enc_atom(acc[1])
            else:
                tok = head + "/" + base.enc_atom(acc[1]) + "/" + base.enc_atom(acc[2])
                if kind == "cv":
                    ans = read_cfg_value(lctx, acc[1], acc[2])
                elif kind == "co":
                    ans = read_cfg_option(lctx, acc[1], acc[2])
                else:
                    try:
                        lang = lctx.get_language(acc[1] if len(self.ops) % 2 else short(acc[1]))
                    except KeyError as e:
                        if "is not a supported language" in str(e):
                            raise
                        lang = None
                    if lang is None:
                        ans = "err:noLanguage"
                    else:
                        ans = read_lang_value(lang, acc[2]) if kind == "lv" else read_lang_option(lang, acc[2])
        except Exception as e:  # noqa
            ans = hist_exc_kind(e)
            if kind in ("tv", "to", "cv", "co"):
                ans = "err:unexpected:" + repr(e)[:80]
            tok = head + ("" if kind == "nm" else "/" + "/".join(base.enc_atom(x) for x in acc[1:]))
        self._op(tok, ("V", ans) if kind in ("tv", "lv") else ans)
        return ans

    def _one_builder(self, ctx, rng, b, pool, content, builtin_py, sects, LanguageContextBuilder):
        exp = rng.random() < 0.85
        target = rng.choice(["c", "c", "cpp", "py"] if exp else ["c", "c", "py", "cpp"])
        tsect = PFX + target
        desc = {"builder": b, "target": target, "include_experimental_languages": exp, "calls": []}
        bld = LanguageContextBuilder(include_experimental_languages=exp)
        self._op("B/%d/%d" % (b, 1 if exp else 0), "-")
        bld.set_target_language(target)
        self._op("L/%d/%s" % (b, base.enc_atom(tsect)), "-")
        files_read, overrides, dead = [], {}, None
        calls = []
        for _ in range(rng.choice([0, 1, 1, 2, 2])):
            calls.append("file")
        for _ in range(rng.choice([0, 0, 1, 2])):
            calls.append("ovr")
        rng.shuffle(calls)
        import yaml
        try:
            for c in calls:
                if c == "file":
                    batch = []
                    for _ in range(rng.choice([1, 1, 2])):
                        p = rng.randrange(len(pool))
                        if p not in content or rng.random() < 0.8:
                            doc, stat = None, None
                            if p in content and rng.random() < 0.35:
                                # another revision of the same length (and, half of the time, with the same time stamp):
                                # nothing but the content tells the two revisions apart
                                doc = same_size_variant(rng, content[p])
                                stat = pool[p].stat()
                            if doc is None:
                                doc, stat = gen_hist_doc(rng, sects, tsect), None
                            else:
                                ctx.count("history_same_size_rewrites")
                            content[p] = doc
                            pool[p].write_text(yaml.safe_dump(doc, sort_keys=False, allow_unicode=True), encoding="utf-8")
                            if stat is not None and rng.random() < 0.5:
                                os.utime(pool[p], ns=(stat.st_atime_ns, stat.st_mtime_ns))
                            self._op("W/%d/%s" % (p, base.wire(doc)), "-")
                        batch.append(p)
                    for p in batch:
                        files_read.append(copy.deepcopy(content[p]))
                    desc["calls"].append(["files", [pool[p].name for p in batch], [base.wire(content[p]) for p in batch]])
                    self.ops.append("A/%d/%s" % (b, ",".join(map(str, batch))))
                    self.impl.append(None)
                    bld.add_config_files(*[pool[p] for p in batch])
                    self.impl[-1] = "-"
                else:
                    r0 = rng.random()
                    if r0 < 0.6:
                        key, val = "options", gen_opts(rng, tsect, True)
                    elif r0 < 0.8:
                        key, val = "reserved_identifiers", rng.choice([["mine", "yours"], ["for", "x_y"], []])
                    else:
                        key, val = rng.choice(["extension", "namespace_file_stem", "new_key"]), rng.choice([".h", ".hh", None, base.DV()("dv"), ""])
                    desc["calls"].append(["override", key, None if val is None else base.wire(val)])
                    self._op("O/%d/%s/%s" % (b, base.enc_atom(key), "!" if val is None else base.wire(val)), "-")
                    bld.set_target_language_configuration_override(key, val)
                    if val is not None:
                        overrides[key] = val
                        self.caller_docs.append((b, key, val, base.wire(val)))
            ncreate = 2 if rng.random() < 0.15 else 1
            desc["creates"] = ncreate
            made = []
            for j in range(ncreate):
                self.ops.append("C/%d/%d" % (b, j))
                self.impl.append(None)
                lctx = bld.create()
                self.impl[-1] = "-"
                made.append((j, lctx))
        except Exception as e:  # noqa
            dead = hist_exc_kind(e)
            if self.impl and self.impl[-1] is None:
                self.impl[-1] = dead
            ctx.count("history_builder_" + dead)
            self.builders.append(None)
            return
        ctx.count("history_builder_ok")
        self.builders.append(desc)
        for (j, lctx) in made:
            try:
                self._observe(ctx, rng, b, j, lctx, builtin_py, sects, tsect, files_read, overrides, desc)
            except _BuilderDead:
                self.contexts = [c for c in self.contexts if c[0] != b]
                return

    def _observe(self, ctx, rng, b, j, lctx, builtin_py, sects, tsect, files_read, overrides, desc):
        mentioned = set()
        for f in files_read:
            for s, body in f.items():
                if isinstance(body, dict) and isinstance(body.get("options"), dict):
                    mentioned.update((s, k) for k in body["options"])
        mentioned = sorted(mentioned)
        # 1. before anything asks for the language map (about half of the contexts)
        if rng.random() < 0.5:
            for sect in rng.sample(sects, 2):
                self._read(lctx, b, j, ("cv", sect, "options"))
                self._read(lctx, b, j, ("cv", sect, "extension"))
            self._read(lctx, b, j, ("to", rng.choice(OPT_KEYS + ["std"])))
            self._read(lctx, b, j, ("tv", "extension"))
            self._read(lctx, b, j, ("tv", "options"))
            ctx.count("contexts_read_before_map")
        # 2. the first access that builds the map
        first = rng.choice(["nm", "lo", "lv"])
        other = rng.choice([s for s in sects if s != tsect])
        acc = ("nm",) if first == "nm" else ((first, other, "std") if first == "lo" else (first, other, "options"))
        ans = self._read(lctx, b, j, acc)
        if ans.startswith("err:") and ans != "err:noLanguage":
            ctx.count("history_map_" + ans)
            self.builders[-1] = None
            raise _BuilderDead()
        before_use = base.wire(lctx.config.sections())
        if rng.random() < 0.5:
            use_context(ctx, lctx)
        # 3. everything, through every path
        self._read(lctx, b, j, ("nm",))
        for sect in sects + ([PFX + "zz9"] if rng.random() < 0.2 else []):
            self._read(lctx, b, j, ("lv", sect, "options"))
            self._read(lctx, b, j, ("cv", sect, "options"))
            self._read(lctx, b, j, ("lv", sect, rng.choice(SCALAR_KEYS)))
            self._read(lctx, b, j, ("lv", sect, "extension"))
            self._read(lctx, b, j, ("cv", sect, "extension"))
            self._read(lctx, b, j, ("lv", sect, "named_values"))
        for (s, k) in mentioned[:12]:
            self._read(lctx, b, j, ("lo", s, k))
            self._read(lctx, b, j, ("co", s, k))
        for k in rng.sample(OPT_KEYS + ["std", "allocator_type"], 3):
            self._read(lctx, b, j, ("to", k))
            self._read(lctx, b, j, ("lo", tsect, k))
        self._read(lctx, b, j, ("tv", "extension"))
        # USE the context (strop identifiers in every language, render a template), then read the list-valued keys again
        use_context(ctx, lctx)
        for sect in sects:
            self._read(lctx, b, j, ("cv", sect, "reserved_identifiers"))
            self._read(lctx, b, j, ("cv", sect, "options"))
        # independent predicates
        env = make_env(lctx)
        d2 = {"history": self.describe(), "builder": b, "context": j}
        check_use_is_read_only(ctx, lctx, before_use, [c for c in self.caller_docs if c[0] == b], d2)
        check_access_paths_agree(ctx, lctx, d2, env)
        langs = lctx.get_supported_languages()
        for name, lang in sorted(langs.items()):
            sect = PFX + name
            check_language_path_precedence(ctx, builtin_py, files_read, sect, overrides if sect == tsect else None, lang, d2)
        base.precedence_oracle(ctx, "process-history", builtin_py,
                               [{tsect: f[tsect]} if tsect in f else {} for f in files_read], tsect, overrides,
                               lctx.config.sections(), short(tsect), d2)
        # the configuration of the non-target sections, as ctx.config has them
        for sect in sects:
            if sect != tsect:
                check_config_section(ctx, builtin_py, files_read, sect, lctx.config.sections(), d2)
        seen = observe_all(lctx)
        self.contexts.append((b, j, lctx, seen, d2))
        ctx.count("contexts_observed")

    def describe(self):
        return {"ops": list(self.ops)}

    def line(self, builtin_wire):
        return "proc " + builtin_wire + " " + " ".join(self.ops)


class _BuilderDead(Exception):
    pass


def check_config_section(ctx, builtin, files, sect, final, desc):
    chain = [builtin] + list(files)
    skip = skip_keys(sect, builtin, final.get(sect))
    paths = set()
    for f in files:
        paths.update(p for p in base.all_paths(f) if p[0] == sect)
    for p in sorted(paths):
        if len(p) == 3 and p[1] == "options" and p[2] in skip:
            continue
        if all(base.compat(v, p) for v in chain):
            want, got = base.pick([base.at(v, p) for v in chain]), base.at(final, p)
            ctx.count("nontarget_config_paths")
            if not base.same(want, got):
                ctx.fail({"kind": "file-precedence", "via": "config/non-target"},
                         "ctx.config does not hold built-in < files of its own builder (as read) for a language that is not the target",
                         dict(desc, section=sect, path=list(p), files_read_by_this_builder=[base.wire(f) for f in files],
                              expected=base.wire(want) if want is not base._ABSENT else None,
                              observed=base.wire(got) if got is not base._ABSENT else None))


def compare_history(ctx, h, model_line):
    """model answers vs the real code's, op by op"""
    toks = model_line.split(" ")
    if not toks or toks[0] != "ok" or len(toks) - 1 != len(h.ops):
        ctx.disagree("process-history", h.describe(), model_line[:300], "%d answers expected" % len(h.ops))
        return
    for i, (m, g) in enumerate(zip(toks[1:], h.impl)):
        ctx.traces += 1
        if isinstance(g, tuple):
            g = g[1]
            m = model_value_token(m)
        if m != g:
            op = h.ops[i].split("/")
            if (op[0] == "R" and op[3] in ("nm", "lv", "lo") and m.startswith("err:") and str(g).startswith("err:")
                    and "err:noLanguage" not in (m, g) and m != "err:dead"):
                # two languages of the map fail to construct: which one is met first is the iteration order of a set
                ctx.count("history_map_error_order_dependent")
                continue
            ctx.disagree("process-history", {"ops_so_far": [o[:400] for o in h.ops[:i + 1]], "op": h.ops[i][:400], "index": i}, m[:2000], str(g)[:2000])
            return


# ------------------------------------------------------------------------------------------------------
# fresh process
# ------------------------------------------------------------------------------------------------------
def run_builder_description(desc, workdir):
    """Perform the calls of one builder description in THIS process and observe its last context."""
    from nunavut.lang import LanguageContextBuilder
    import yaml
    bld = LanguageContextBuilder(include_experimental_languages=desc["include_experimental_languages"])
    bld.set_target_language(desc["target"])
    for c in desc["calls"]:
        if c[0] == "files":
            paths = []
            for name, w in zip(c[1], c[2]):
                p = pathlib.Path(workdir) / name
                p.write_text(yaml.safe_dump(base.parse_wire(w), sort_keys=False, allow_unicode=True), encoding="utf-8")
                paths.append(p)
            bld.add_config_files(*paths)
        else:
            bld.set_target_language_configuration_override(c[1], None if c[2] is None else base.parse_wire(c[2]))
    lctx = None
    for _ in range(desc["creates"]):
        lctx = bld.create()
    return observe_all(lctx)


def fresh_main():
    desc = json.loads(sys.stdin.read())
    with tempfile.TemporaryDirectory(prefix="c13_fresh_") as d:
        try:
            out = run_builder_description(desc, d)
        except Exception as e:  # noqa
            out = {"error": hist_exc_kind(e)}
    sys.stdout.write(json.dumps(out, sort_keys=True))


def fresh_observation(desc):
    env = dict(os.environ, PYTHONPATH=str(common.VERIF), PYTHONHASHSEED="0")
    p = subprocess.run([common.PY, "-c", "from harness import c13_ctx; c13_ctx.fresh_main()"], input=json.dumps(desc),
                       capture_output=True, text=True, timeout=120, env=env, cwd=str(common.VERIF))
    if p.returncode != 0:
        return {"error": "fresh process failed: " + p.stderr[-400:]}
    return json.loads(p.stdout)


def stream_process_history(ctx, drv, rng):
    builtin_wire, builtin_py = base.builtin_sections_wire(), base.builtin_sections_py()
    sects = list(builtin_py.keys())
    n = 36 if ctx.quick else 400
    nfresh = 5 if ctx.quick else 40
    hs = []
    for i in range(n):
        h = History(ctx, rng, i, builtin_py, sects)
        hs.append(h)
        ctx.case(("history", tuple(h.ops)), len(h.contexts) >= 2)
        ctx.count("histories")
    if drv:
        for h, m in zip(hs, drv.ask([h.line(builtin_wire) for h in hs], timeout=1200)):
            compare_history(ctx, h, m)
    ctx.sample({"history_ops": [o[:160] for o in hs[0].ops[:40]]})
    # the last observed context of a history, against the same builder calls in a fresh process
    done = 0
    for h in hs:
        if done >= nfresh:
            break
        cands = [(b, j, lctx, seen, d) for (b, j, lctx, seen, d) in h.contexts if b >= 1 and h.builders[b] is not None
                 and j == h.builders[b]["creates"] - 1]
        if not cands:
            continue
        b, j, lctx, seen, d = cands[-1]
        fresh = fresh_observation(h.builders[b])
        done += 1
        ctx.count("fresh_process_comparisons")
        if fresh != json.loads(json.dumps(seen, sort_keys=True)):
            diff = sorted(k for k in set(fresh) | set(seen) if fresh.get(k) != json.loads(json.dumps(seen.get(k))))
            ctx.fail({"kind": "history-dependence"},
                     "a builder reports other values than the same calls report in a fresh process (an earlier builder of the process shows through)",
                     dict(d, builder_calls=h.builders[b], differing=diff,
                          in_this_process={k: str(seen.get(k))[:800] for k in diff}, in_a_fresh_process={k: str(fresh.get(k))[:800] for k in diff}))


# ------------------------------------------------------------------------------------------------------
# (b) the C++ shorthand by file, by API override, by the command line, and for a language that is not the target
# ------------------------------------------------------------------------------------------------------
def stream_shorthand_routes(ctx, drv, rng):
    import contextlib
    import io
    import yaml
    from nunavut.cli import _make_parser
    from nunavut.cli.runners import ArgparseRunner
    from nunavut.lang import LanguageContextBuilder
    sec, csec = PFX + "cpp", PFX + "c"
    builtin_wire, builtin = base.builtin_sections_wire(), base.builtin_sections_py()
    defaults = builtin.get(sec, {}).get("defaults", {})
    groups = [g for g, body in defaults.items() if isinstance(body, dict)]
    extras = [None, {"allocator_type": "file::alloc"}, {"enable_serialization_asserts": True, "zz_new": 1},
              {"ctor_convention": "uses-leading-allocator", "allocator_type": "a::b"}, {"std_flavor": "mine", "cast_format": "X"}]
    d = ctx.scratch / "routes"
    d.mkdir(exist_ok=True)
    seq = [0]

    def write(doc):
        seq[0] += 1
        p = d / ("r%d.yaml" % seq[0])
        p.write_text(yaml.safe_dump(doc, sort_keys=False), encoding="utf-8")
        return p

    def observe(f):
        try:
            return base.wire(dict(f().get_options()))
        except SystemExit:
            return "not-a-cli-choice"
        except Exception as e:  # noqa
            return hist_exc_kind(e)

    lines, expect = [], []
    for S in groups + ["c++20", "nope"]:
        for extra in extras:
            f0 = {sec: {"options": extra}} if extra else None
            fS = {sec: {"options": {"std": S}}}
            pre = [write(f0)] if f0 else []

            def r_file():
                return (LanguageContextBuilder(include_experimental_languages=True).set_target_language("cpp")
                        .add_config_files(*(pre + [write(fS)])).create().get_target_language())

            def r_api():
                return (LanguageContextBuilder(include_experimental_languages=True).set_target_language("cpp")
                        .add_config_files(*pre).set_target_language_configuration_override("options", {"std": S})
                        .create().get_target_language())

            def r_cli():
                argv = ["--list-configuration", "--experimental-languages", "--target-language", "cpp", "--language-standard", S]
                for q in pre:
                    argv += ["--configuration", str(q)]
                with contextlib.redirect_stderr(io.StringIO()):
                    args = _make_parser().parse_args(argv)
                runner = ArgparseRunner.__new__(ArgparseRunner)
                runner._args = args
                return runner._create_language_context().get_target_language()

            def r_nontarget():
                return (LanguageContextBuilder(include_experimental_languages=True).set_target_language("c")
                        .add_config_files(*(pre + [write(fS)])).create().get_language("cpp"))

            seen = {"file": observe(r_file), "api": observe(r_api), "cli": observe(r_cli), "non-target": observe(r_nontarget)}
            ctx.case(("shorthand-route", S, json.dumps(extra, sort_keys=True)), True)
            ctx.count("shorthand_routes_compared")
            vals = {k: v for k, v in seen.items() if v != "not-a-cli-choice"}
            if len(set(vals.values())) != 1:
                ctx.fail({"kind": "shorthand-route-dependence"},
                         "the options after a C++ language-standard shorthand depend on whether the shorthand came from a file, the API, "
                         "the command line, or was read for a non-target language",
                         {"std": S, "earlier_file": None if f0 is None else base.wire(f0), "options_by_route": {k: v[:1500] for k, v in seen.items()}})
            # the model, through the process machine: file route, API route, non-target route
            w0 = ["W/0/" + base.wire(f0)] if f0 else []
            a0 = "0," if f0 else ""
            for route, ops in (
                ("file", ["B/0/1", "L/0/" + sec] + w0 + ["W/1/" + base.wire(fS), "A/0/" + a0 + "1", "C/0/0", "R/0/0/to/std", "R/0/0/tv/options"]),
                ("api", ["B/0/1", "L/0/" + sec] + w0 + (["A/0/0"] if f0 else []) + ["O/0/options/" + base.wire({"std": S}), "C/0/0", "R/0/0/to/std", "R/0/0/tv/options"]),
                ("non-target", ["B/0/1", "L/0/" + csec] + w0 + ["W/1/" + base.wire(fS), "A/0/" + a0 + "1", "C/0/0", "R/0/0/to/std", "R/0/0/lv/" + sec + "/options"]),
            ):
                lines.append("proc " + builtin_wire + " " + " ".join(ops))
                expect.append((route, S, extra, seen[route]))
    if drv:
        for (route, S, extra, got), m in zip(expect, drv.ask(lines, timeout=600)):
            ctx.traces += 1
            toks = m.split(" ")
            last = toks[-1] if toks else ""
            model = last[1:] if last.startswith("v{") else last
            if model != got:
                ctx.disagree("shorthand-route/" + route, {"std": S, "earlier_options": extra}, model[:1500], got[:1500])


# ------------------------------------------------------------------------------------------------------
# (c) YAML documents as text
# ------------------------------------------------------------------------------------------------------
class _NoModel(Exception):
    pass


def str_keys(v, seen=None):
    seen = set() if seen is None else seen
    if isinstance(v, dict):
        if id(v) in seen:
            return True
        seen.add(id(v))
        return all(isinstance(k, str) and str_keys(x, seen) for k, x in v.items())
    return True


def node_wire(loader, node):
    """the document as the TEXT has it: mapping nodes keep repeated keys, aliases are written out again"""
    import yaml
    if isinstance(node, yaml.ScalarNode):
        return "S" + base.enc_atom(base.atom_any(loader.construct_object(node, deep=True)))
    if isinstance(node, yaml.SequenceNode):
        return "[" + ",".join(base.enc_atom(base.atom_any(loader.construct_object(x, deep=True))) for x in node.value) + "]"
    out = []
    for k, v in node.value:
        if k.tag == "tag:yaml.org,2002:merge":
            raise _NoModel("merge key")
        if not isinstance(k, yaml.ScalarNode):
            raise _NoModel("complex key")
        kk = loader.construct_object(k, deep=True)
        out.append(base.enc_atom(str(kk)) + "=" + node_wire(loader, v))
    return "{" + ";".join(out) + "}"


def gen_yaml_text(rng):
    """random YAML text: null / non-mapping documents and sections, repeated keys at every level, anchors and aliases"""
    r = rng.random()
    if r < 0.04:
        return rng.choice(["", "null\n", "- a\n- b\n", "text\n", "42\n", "{}\n"])
    names = ["nunavut.lang.c"] * 4 + ["nunavut.lang.cpp"] * 4 + ["nunavut.lang.py"] * 2 + ["nunavut.lang.zz9"] * 2 + ["bad name", "nunavut.lang.1x"]
    lines, map_anchors, n_anchor = [], [], [0]

    def leaf():
        return rng.choice(["1", "2", "x", "~", "''", "true", ".h", "[1, 2]", "c++17-pmr"])

    def mapping(indent, depth):
        """lines of a block mapping"""
        out = []
        for _ in range(rng.randint(1, 3)):
            k = rng.choice(["a", "b", "a", "std"])
            if depth > 0 and rng.random() < 0.3:
                if map_anchors and rng.random() < 0.4:
                    out.append(" " * indent + "%s: *%s" % (k, rng.choice(map_anchors)))
                else:
                    anchor = ""
                    if rng.random() < 0.4:
                        n_anchor[0] += 1
                        anchor = " &m%d" % n_anchor[0]
                    sub = mapping(indent + 2, depth - 1)
                    out.append(" " * indent + "%s:%s" % (k, anchor))
                    out.extend(sub)
                    if anchor:
                        map_anchors.append(anchor[2:])
            else:
                out.append(" " * indent + "%s: %s" % (k, leaf()))
        return out

    for _ in range(rng.randint(1, 3)):
        name = rng.choice(names)
        key = name if " " not in name else "'%s'" % name
        r = rng.random()
        if r < 0.06:
            lines.append(key + ":")
            continue
        if r < 0.10:
            lines.append(key + ": " + rng.choice(["[1]", "3", "text"]))
            continue
        if map_anchors and r < 0.25:
            lines.append(key + ": *" + rng.choice(map_anchors))
            continue
        anchor = ""
        if rng.random() < 0.25:
            n_anchor[0] += 1
            anchor = " &m%d" % n_anchor[0]
        lines.append(key + ":" + anchor)
        body = []
        for _ in range(rng.randint(1, 3)):
            k = rng.choice(["options", "options", "extension", "named_values", "new_key"])
            if k in ("options", "named_values"):
                rr = rng.random()
                if map_anchors and rr < 0.3:
                    body.append("  %s: *%s" % (k, rng.choice(map_anchors)))
                elif rr < 0.36:
                    body.append("  %s:" % k)
                else:
                    a2 = ""
                    if rng.random() < 0.35:
                        n_anchor[0] += 1
                        a2 = " &m%d" % n_anchor[0]
                    body.append("  %s:%s" % (k, a2))
                    body.extend(mapping(4, 1))
                    if a2:
                        map_anchors.append(a2[2:])
            else:
                body.append("  %s: %s" % (k, leaf()))
        lines.extend(body)
        if anchor:
            map_anchors.append(anchor[2:])
    return "\n".join(lines) + "\n"


def yaml_text_case(ctx, name, text, pre_wire, vlines, vexp, hruns):
    """one YAML text through the real code; appends the model requests"""
    import yaml
    from nunavut.lang._config import LanguageConfig
    # the real code
    cfg = LanguageConfig()
    cfg.update(copy.deepcopy(PRELOAD))
    try:
        doc = yaml.load(text, Loader=yaml.SafeLoader)
        syntax_ok = True
    except yaml.YAMLError:
        doc, syntax_ok = None, False
    try:
        cfg.update_from_yaml_string(text)
        ans = "ok " + base.wire(cfg.sections())
    except yaml.YAMLError:
        ans = "err:yaml"
    except Exception as e:  # noqa
        ans = base.cfg_exc_kind(e)
    # the same once more with a document object we hold on to (object identity is observable only then)
    heap = None
    if syntax_ok and isinstance(doc, dict) and str_keys(doc) and ans.startswith("ok"):
        cfg = LanguageConfig()
        cfg.update(copy.deepcopy(PRELOAD))
        try:
            heap = base.heap_of([cfg.sections(), doc])
            doc_before = base.wire(doc)
            cfg.update(doc)
            if "ok " + base.wire(cfg.sections()) != ans:
                ctx.fail({"kind": "update-differs-from-update_from_yaml_string"}, "update(yaml.load(text)) and update_from_yaml_string(text) differ",
                         {"text": text, "update_from_yaml_string": ans[:1500], "update": base.wire(cfg.sections())[:1500]})
        except base.Cyclic:
            heap = None
    ctx.case(("yaml-text", text), ans.startswith("ok") and ("*" in text or "&" in text or len(text) > 30))
    ctx.count("yaml_text_" + (ans if ans.startswith("err") else "ok"))
    if "*" in text and ans.startswith("ok"):
        ctx.count("yaml_text_with_alias_ok")
    # the model: constructor (repeated keys) + update
    if syntax_ok:
        try:
            loader = yaml.SafeLoader(text)
            node = loader.get_single_node()
            y = "Sn:" if node is None else node_wire(loader, node)
            vlines.append("ycfg " + pre_wire + " " + y)
            vexp.append((name, text, ans))
            if node is not None and isinstance(doc, dict):
                vlines.append("ynorm " + y)
                try:
                    vexp.append((name, text, "ok " + base.wire(doc)))
                except base.Cyclic:
                    vlines.pop()
        except _NoModel:
            ctx.count("yaml_text_outside_model")
    # objects: nothing of the loaded document may be part of the configuration, the document is left alone
    if heap is not None and ans.startswith("ok"):
        enc, idmap, _keep = heap
        shared = base.reach_initial(cfg.sections(), idmap)
        # addresses below the configuration before the update belong to the configuration; the document starts after them
        ndoc0 = idmap[id(doc)]
        leaked = [a for a in shared if a >= ndoc0]
        if leaked:
            ctx.fail({"kind": "configuration-shares-dict-with-document", "via": "yaml-text"},
                     "after update_from_yaml_string the configuration contains a dict object of the loaded document",
                     {"text": text, "document_objects_inside_configuration": leaked})
        if base.wire(doc) != doc_before:
            ctx.fail({"kind": "source-mutated", "when": "own-merge", "via": "yaml-text"}, "update() modified the loaded document",
                     {"text": text, "before": doc_before, "after": base.wire(doc)})
        hruns.append((name, text, enc, ndoc0, ans, ",".join(map(str, shared)) or "-", base.wire(doc)))
        # two places of the configuration that came from ONE aliased mapping must be independent afterwards
        secs = cfg.sections()
        snapshot = base.wire(secs)
        names2 = [s for s in secs if isinstance(secs[s], dict)]
        if names2:
            s0 = names2[0]
            cfg.update({s0: {"options": {"zz_probe": 1}, "named_values": {"zz_probe": 1}}})
            after = copy.deepcopy(secs)
            for k2 in ("options", "named_values"):
                if isinstance(after[s0].get(k2), dict):
                    after[s0][k2].pop("zz_probe", None)
            ctx.count("yaml_alias_independence_checks")
            stray = [p for p in base.all_paths(secs) if p[-1] == "zz_probe" and not (p[0] == s0 and len(p) == 3 and p[1] in ("options", "named_values"))]
            if stray:
                ctx.fail({"kind": "alias-leak", "via": "yaml-text"},
                         "two places of the configuration that came from one aliased YAML mapping are still one object: an update of one shows in the other",
                         {"text": text, "updated": [s0, "options/named_values", "zz_probe"], "also_changed": [list(p) for p in stray]})


PRELOAD = {"nunavut.lang.c": {"extension": ".h", "options": {"a": 0, "std": "c11", "keep": True}, "named_values": {"true": "T"}},
           "nunavut.lang.cpp": {"extension": ".hpp", "options": {"std": "c++14"}}}


def stream_yaml_text(ctx, drv, rng):
    import yaml
    from nunavut.lang._config import LanguageConfig
    from nunavut.lang import LanguageContextBuilder
    texts = []
    f = common.VERIF / "corpus" / "C13" / "yaml_docs.json"
    if f.exists():
        texts += [(c["name"], c["text"]) for c in json.loads(f.read_text())]
    ncorpus = len(texts)
    for i in range(250 if ctx.quick else 4000):
        texts.append(("random%d" % i, gen_yaml_text(rng)))
    pre_wire = base.wire(PRELOAD)
    vlines, vexp, hruns = [], [], []
    for name, text in texts:
        yaml_text_case(ctx, name, text, pre_wire, vlines, vexp, hruns)
    if drv:
        for (name, text, g), m in zip(vexp, drv.ask(vlines, timeout=600)):
            ctx.traces += 1
            if m != g:
                ctx.disagree("yaml-text", {"name": name, "text": text}, m[:2000], g[:2000])
        hl = ["hmerge 1 %s @0 %d" % (enc, ndoc0) for (_, _, enc, ndoc0, _, _, _) in hruns]
        for (name, text, enc, ndoc0, ans, shared, docw), m in zip(hruns, drv.ask(hl, timeout=600)):
            ctx.traces += 1
            g = "%s %s %s" % (ans, shared, docw)
            if m != g:
                ctx.disagree("yaml-text/heap", {"name": name, "text": text, "heap": enc, "document_at": ndoc0}, m[:2000], g[:2000])
    ctx.extra["yaml_text_domain"] = {"corpus": ncorpus, "random": len(texts) - ncorpus}
    yaml_alias_builder_check(ctx)


def yaml_alias_builder_check(ctx):
    """through a real builder: a file in which the C and C++ sections alias ONE options mapping; an override for the target
    must not show in the other language"""
    from nunavut.lang import LanguageContextBuilder
    d = ctx.scratch / "yamlalias"
    d.mkdir(exist_ok=True)
    p = d / "alias.yaml"
    p.write_text("nunavut.lang.c:\n  options: &o\n    zz_shared: 1\nnunavut.lang.cpp:\n  options: *o\n", encoding="utf-8")
    lctx = (LanguageContextBuilder(include_experimental_languages=True).set_target_language("c").add_config_files(p)
            .set_target_language_configuration_override("options", {"zz_shared": 2, "zz_only_c": True}).create())
    got = (lctx.get_target_language().get_option("zz_shared"), lctx.get_language("cpp").get_option("zz_shared"),
           lctx.get_language("cpp").get_option("zz_only_c", "absent"))
    ctx.count("yaml_alias_builder_checks")
    if got[0] != 2 or got[1] not in (1, 2):
        ctx.fail({"kind": "file-precedence", "via": "language-object"},
                 "a file that gives the C and the C++ section one aliased options mapping: the contexts does not report the file's value (c: override 2, cpp: 1)",
                 {"file": p.read_text(), "override": {"zz_shared": 2, "zz_only_c": True}, "c.zz_shared, cpp.zz_shared, cpp.zz_only_c": list(map(str, got))})
    elif got != (2, 1, "absent"):
        ctx.fail({"kind": "alias-leak", "via": "builder"},
                 "an override for the target language shows in another language whose options came from the same aliased YAML mapping",
                 {"file": p.read_text(), "override": {"zz_shared": 2, "zz_only_c": True}, "c.zz_shared, cpp.zz_shared, cpp.zz_only_c": list(map(str, got))})


# ------------------------------------------------------------------------------------------------------
# replay of a recorded failing input on the tree under check
# ------------------------------------------------------------------------------------------------------
def replay_history(ctx, ops):
    """Perform a recorded history (`proc` op tokens) on the real code and re-evaluate the predicates on every context."""
    import yaml
    from nunavut.lang import LanguageContextBuilder
    builtin_py = base.builtin_sections_py()
    sects = list(builtin_py.keys())
    d = ctx.scratch / "replay_hist"
    d.mkdir(exist_ok=True)
    content, builders, descs, files_read, overrides, contexts, dead = {}, {}, {}, {}, {}, {}, set()
    log, caller_docs = [], []
    for tok in ops:
        f = tok.split("/")
        try:
            if f[0] == "W":
                p = int(f[1])
                content[p] = base.parse_wire("/".join(f[2:]))
                (d / ("f%d.yaml" % p)).write_text(yaml.safe_dump(content[p], sort_keys=False, allow_unicode=True), encoding="utf-8")
            elif f[0] == "B":
                b = int(f[1])
                builders[b] = LanguageContextBuilder(include_experimental_languages=f[2] == "1")
                descs[b] = {"builder": b, "include_experimental_languages": f[2] == "1", "target": "c", "calls": [], "creates": 0}
                files_read[b], overrides[b] = [], {}
                dead.discard(b)
            elif int(f[1]) in dead:
                continue
            elif f[0] == "L":
                b = int(f[1])
                builders[b].set_target_language(None if f[2] == "!" else f[2])
                descs[b]["target"] = "c" if f[2] == "!" else short(f[2])
            elif f[0] == "A":
                b = int(f[1])
                ps = [] if f[2] == "-" else [int(x) for x in f[2].split(",")]
                descs[b]["calls"].append(["files", ["f%d.yaml" % p for p in ps], [base.wire(content[p]) for p in ps]])
                files_read[b].extend(copy.deepcopy(content[p]) for p in ps)
                builders[b].add_config_files(*[d / ("f%d.yaml" % p) for p in ps])
            elif f[0] == "O":
                b = int(f[1])
                key = f[2] if not f[2].startswith("%") else bytes.fromhex(f[2][1:]).decode("utf-8")
                val = None if f[3] == "!" else base.parse_wire("/".join(f[3:]))
                descs[b]["calls"].append(["override", key, None if val is None else base.wire(val)])
                builders[b].set_target_language_configuration_override(key, val)
                if val is not None:
                    overrides[b][key] = val
                    caller_docs.append((b, key, val, base.wire(val)))
            elif f[0] == "C":
                b, j = int(f[1]), int(f[2])
                contexts[(b, j)] = builders[b].create()
                descs[b]["creates"] += 1
            elif f[0] == "R":
                b, j = int(f[1]), int(f[2])
                lctx = contexts[(b, j)]
                if f[3] in ("nm", "lv", "lo"):
                    lctx.get_supported_languages()
        except Exception as e:  # noqa
            log.append({"op": tok[:200], "raised": hist_exc_kind(e)})
            if f[0] != "W":
                dead.add(int(f[1]))
    for (b, j), lctx in sorted(contexts.items()):
        if b in dead:
            continue
        d2 = {"history": {"ops": list(ops)}, "builder": b, "context": j}
        try:
            langs = lctx.get_supported_languages()
            before_use = base.wire(lctx.config.sections())
            use_context(ctx, lctx)
            env = make_env(lctx)
        except Exception as e:  # noqa
            log.append({"context": [b, j], "raised": hist_exc_kind(e)})
            continue
        check_use_is_read_only(ctx, lctx, before_use, [c for c in caller_docs if c[0] == b], d2)
        tsect = PFX + lctx.get_target_language().name
        check_access_paths_agree(ctx, lctx, d2, env)
        for name, lang in sorted(langs.items()):
            check_language_path_precedence(ctx, builtin_py, files_read[b], PFX + name, overrides[b] if PFX + name == tsect else None, lang, d2)
        base.precedence_oracle(ctx, "process-history", builtin_py, [{tsect: x[tsect]} if tsect in x else {} for x in files_read[b]],
                               tsect, overrides[b], lctx.config.sections(), short(tsect), d2)
        for sect in sects:
            if sect != tsect:
                check_config_section(ctx, builtin_py, files_read[b], sect, lctx.config.sections(), d2)
        if j == descs[b]["creates"] - 1:
            seen = json.loads(json.dumps(observe_all(lctx), sort_keys=True))
            fresh = fresh_observation(descs[b])
            if fresh != seen:
                ctx.fail({"kind": "history-dependence"}, "a builder reports other values than the same calls report in a fresh process",
                         dict(d2, differing=sorted(k for k in set(fresh) | set(seen) if fresh.get(k) != seen.get(k))))
    print(json.dumps({"contexts": len(contexts), "raised": log,
                      "failures": [{"key": x["key"], "what": x["what"],
                                    "detail": {k: str(v)[:300] for k, v in x["replay"].items() if k != "history"}} for x in ctx.failures[:8]]}))
    return 1 if ctx.failures else 0


def replay(ctx, rp):
    """returns None when the recorded input is not one of this module's"""
    import random
    if isinstance(rp.get("history"), dict) and "ops" in rp["history"]:
        return replay_history(ctx, rp["history"]["ops"])
    if "builder_calls" in rp and "in_a_fresh_process" in rp:
        return None
    if "text" in rp:
        vl, ve, hr = [], [], []
        yaml_text_case(ctx, "replay", rp["text"], base.wire(PRELOAD), vl, ve, hr)
        print(json.dumps({"text": rp["text"], "real_code_says": ve[0][2][:1500] if ve else None,
                          "failures": [{"key": x["key"], "what": x["what"]} for x in ctx.failures]}))
        return 1 if ctx.failures else 0
    if "file" in rp and "override" in rp:
        yaml_alias_builder_check(ctx)
        print(json.dumps({"failures": [{"key": x["key"], "what": x["what"], "detail": x["replay"]} for x in ctx.failures]}))
        return 1 if ctx.failures else 0
    if "options_by_route" in rp:
        stream_shorthand_routes(ctx, None, random.Random(0))
        print(json.dumps({"failures": [{"key": x["key"], "std": x["replay"].get("std"), "options_by_route": x["replay"].get("options_by_route")}
                                       for x in ctx.failures[:4]]})[:3000])
        return 1 if ctx.failures else 0
    return None
