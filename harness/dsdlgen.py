"""
dsdlgen — seeded, type-directed DSDL generator shared by the codec checks (C01..C06, C17, C18 may reuse it).

The generator writes real ``.dsdl`` files under a scratch root namespace, then lets the PyDSDL front end be the judge:
whatever ``pydsdl.read_namespace`` rejects is dropped (and counted), everything else is returned together with its
*protocol type expression* (harness/CODEC_PROTOCOL.md) derived from the PyDSDL model after parsing.

API (everything else in this file is private)
---------------------------------------------
``generate(rng, out_dir, n_types=30, root_name="vns", profile=None) -> Namespace``
    Write about ``n_types`` definitions (a service counts once but yields two codec types) below
    ``out_dir/root_name`` and parse them.  ``profile`` overrides entries of ``DEFAULT_PROFILE``.
``load(root_dir) -> Namespace``
    Parse an existing root namespace directory (corpus replays, hand-written regression types).
``Namespace``: ``.root`` (Path of the root namespace directory), ``.root_name``, ``.types`` (list of ``GenType``,
    one per serializable composite: message, service request, service response), ``.composites`` (the
    ``pydsdl.read_namespace`` result), ``.dropped`` (list of ``(file name, error text)``), ``.texts``
    (``{relative path: DSDL text}`` of all accepted files – enough to rebuild the namespace in a replay),
    ``.nnvg_flags`` (front-end flags the namespace needs, e.g. ``--allow-unregulated-fixed-port-id``).
``GenType``: ``.index`` (position in ``Namespace.types``), ``.model`` (pydsdl composite; ``DelimitedType`` wrapper when
    not sealed), ``.inner`` (the ``StructureType``/``UnionType``), ``.expr`` (protocol type, nested tuples), ``.tstr``
    (its text form), ``.full_name`` / ``.version`` / ``.role`` (``message|request|response``), ``.rel_path``,
    ``.text``, ``.fixed_port_id`` (of the message or of the parent service).
``expr_of(pydsdl_type) -> expr``; ``fmt_type(expr) -> str``; ``parse_type(str) -> expr``
``fmt_value(expr, v) -> str``; ``parse_value(expr, str) -> v``; ``canon_value(expr, v)`` (NaN canonicalised)
``gen_value(rng, expr, oob=True, p_invalid=0.0, nan_payloads=False) -> v``   boundary-biased value in the C/C++ *storage* range
``gen_byte_strings(rng, encodings, n_random, max_len) -> [bytes]``  truncations / extensions / flips / random / empty

Protocol types as Python data:  ``('u',N,'s'|'t') ('i',N,M) ('f',N,M) ('b',) ('v',N) ('a',T,N) ('l',T,N)
('s',(F,...)) ('n',(F,...)) ('d',EXTENT_BITS,C)``.
Values as Python data: int for u/i/b, float for f, ``None`` for void, list for arrays, list for struct fields,
``(K, V)`` for unions; a delimited composite has the value of its inner composite.
"""
import math
import pathlib
import re
import struct

import pydsdl

# ------------------------------------------------------------------------------------------------------------
# protocol types / values: text <-> data
# ------------------------------------------------------------------------------------------------------------


def prefix_bits(n):
    """Width of an implicit length/tag field able to hold ``n``: smallest of 8/16/32/64."""
    for w in (8, 16, 32, 64):
        if n < (1 << w):
            return w
    raise ValueError(n)


def fmt_type(e):
    k = e[0]
    if k in "uif":
        return f"({k} {e[1]} {e[2]})"
    if k == "b":
        return "(b)"
    if k == "v":
        return f"(v {e[1]})"
    if k in "al":
        return f"({k} {fmt_type(e[1])} {e[2]})"
    if k in "sn":
        return "(" + " ".join([k] + [fmt_type(f) for f in e[1]]) + ")"
    if k == "d":
        return f"(d {e[1]} {fmt_type(e[2])})"
    raise ValueError(e)


def _tokens(s, specials):
    out, i, n = [], 0, len(s)
    while i < n:
        c = s[i]
        if c == " ":
            i += 1
        elif c in specials:
            out.append(c); i += 1
        else:
            j = i
            while j < n and s[j] != " " and s[j] not in specials:
                j += 1
            out.append(s[i:j]); i = j
    return out


def parse_type(s):
    toks = _tokens(s, "()")
    pos = [0]

    def nxt():
        t = toks[pos[0]]; pos[0] += 1
        return t

    def ty():
        if nxt() != "(":
            raise ValueError("type: expected (")
        k = nxt()
        if k in ("u", "i", "f"):
            r = (k, int(nxt()), nxt())
        elif k == "b":
            r = ("b",)
        elif k == "v":
            r = ("v", int(nxt()))
        elif k in ("a", "l"):
            t = ty(); r = (k, t, int(nxt()))
        elif k in ("s", "n"):
            fs = []
            while toks[pos[0]] == "(":
                fs.append(ty())
            r = (k, tuple(fs))
        elif k == "d":
            ext = int(nxt()); r = ("d", ext, ty())
        else:
            raise ValueError("type kind " + k)
        if nxt() != ")":
            raise ValueError("type: expected )")
        return r

    r = ty()
    if pos[0] != len(toks):
        raise ValueError("trailing type tokens")
    return r


def f2bits(x):
    return struct.unpack("<Q", struct.pack("<d", x))[0]


def bits2f(b):
    return struct.unpack("<d", struct.pack("<Q", b))[0]


def fmt_value(e, v, decoded=False):
    k = e[0]
    if k in "uib":
        return str(int(v))
    if k == "f":
        if decoded and v != v:
            return "xNaN"
        return "x%016x" % f2bits(v)
    if k == "v":
        return "_"
    if k in "al":
        return "[" + " ".join(fmt_value(e[1], x, decoded) for x in v) + "]"
    if k == "s":
        return "{" + " ".join(fmt_value(f, x, decoded) for f, x in zip(e[1], v)) + "}"
    if k == "n":
        kk, x = v
        inner = fmt_value(e[1][kk], x, decoded) if 0 <= kk < len(e[1]) else "_"
        return f"<{kk} {inner}>"
    if k == "d":
        return fmt_value(e[2], v, decoded)
    raise ValueError(e)


def parse_value(e, s):
    toks = _tokens(s, "[]{}<>")
    pos = [0]

    def nxt():
        t = toks[pos[0]]; pos[0] += 1
        return t

    def val(e):
        k = e[0]
        if k in "uib":
            return int(nxt())
        if k == "f":
            t = nxt()
            if t == "xNaN":
                return math.nan
            if t[0] != "x" or len(t) != 17:
                raise ValueError("float token " + t)
            return bits2f(int(t[1:], 16))
        if k == "v":
            if nxt() != "_":
                raise ValueError("void")
            return None
        if k in "al":
            if nxt() != "[":
                raise ValueError("[")
            out = []
            while toks[pos[0]] != "]":
                out.append(val(e[1]))
            nxt()
            return out
        if k == "s":
            if nxt() != "{":
                raise ValueError("{")
            out = [val(f) for f in e[1]]
            if nxt() != "}":
                raise ValueError("}")
            return out
        if k == "n":
            if nxt() != "<":
                raise ValueError("<")
            kk = int(nxt())
            if 0 <= kk < len(e[1]):
                x = val(e[1][kk])
            else:
                x = None
                if toks[pos[0]] != ">":
                    nxt()
            if nxt() != ">":
                raise ValueError(">")
            return (kk, x)
        if k == "d":
            return val(e[2])
        raise ValueError(e)

    r = val(e)
    if pos[0] != len(toks):
        raise ValueError("trailing value tokens")
    return r


def canon_value(e, v):
    """Hashable/comparable form: floats as binary64 patterns, every NaN the same token."""
    k = e[0]
    if k in "uib":
        return int(v)
    if k == "f":
        return "NaN" if v != v else f2bits(v)
    if k == "v":
        return None
    if k in "al":
        return tuple(canon_value(e[1], x) for x in v)
    if k == "s":
        return tuple(canon_value(f, x) for f, x in zip(e[1], v))
    if k == "n":
        kk, x = v
        return (kk, canon_value(e[1][kk], x) if 0 <= kk < len(e[1]) else None)
    if k == "d":
        return canon_value(e[2], v)
    raise ValueError(e)


def has_nan(e, v):
    k = e[0]
    if k == "f":
        return v != v
    if k in "al":
        return e[1][0] not in "uibv" and any(has_nan(e[1], x) for x in v)
    if k == "s":
        return any(has_nan(f, x) for f, x in zip(e[1], v))
    if k == "n":
        kk, x = v
        return 0 <= kk < len(e[1]) and has_nan(e[1][kk], x)
    if k == "d":
        return has_nan(e[2], v)
    return False


# ------------------------------------------------------------------------------------------------------------
# PyDSDL model -> protocol type
# ------------------------------------------------------------------------------------------------------------

def expr_of(t):
    """Protocol type expression of a pydsdl serializable type (the front end's model is the source of truth)."""
    CM = pydsdl.PrimitiveType.CastMode
    if isinstance(t, pydsdl.BooleanType):
        return ("b",)
    if isinstance(t, pydsdl.VoidType):
        return ("v", t.bit_length)
    if isinstance(t, pydsdl.PrimitiveType):
        m = "s" if t.cast_mode == CM.SATURATED else "t"
        if isinstance(t, pydsdl.UnsignedIntegerType):
            return ("u", t.bit_length, m)
        if isinstance(t, pydsdl.SignedIntegerType):
            return ("i", t.bit_length, m)
        if isinstance(t, pydsdl.FloatType):
            return ("f", t.bit_length, m)
        raise ValueError(f"primitive {t}")
    if isinstance(t, pydsdl.FixedLengthArrayType):
        return ("a", expr_of(t.element_type), t.capacity)
    if isinstance(t, pydsdl.VariableLengthArrayType):
        if t.length_field_type.bit_length != prefix_bits(t.capacity):
            raise AssertionError(f"length prefix of {t}: pydsdl {t.length_field_type.bit_length} protocol {prefix_bits(t.capacity)}")
        return ("l", expr_of(t.element_type), t.capacity)
    if isinstance(t, pydsdl.DelimitedType):
        if t.delimiter_header_type.bit_length != 32:
            raise AssertionError("delimiter header is not 32 bits")
        return ("d", t.extent, expr_of(t.inner_type))
    if isinstance(t, pydsdl.UnionType):
        if t.tag_field_type.bit_length != prefix_bits(len(t.fields) - 1):
            raise AssertionError(f"union tag of {t}: pydsdl {t.tag_field_type.bit_length}")
        return ("n", tuple(expr_of(f.data_type) for f in t.fields))
    if isinstance(t, pydsdl.StructureType):
        return ("s", tuple(expr_of(f.data_type) for f in t.fields))
    raise ValueError(f"no protocol type for {type(t).__name__}")


class GenType:
    def __init__(self, index, model, role, rel_path, text, fixed_port_id):
        self.index = index
        self.model = model
        self.inner = model.inner_type if isinstance(model, pydsdl.DelimitedType) else model
        self.expr = expr_of(model)
        self.tstr = fmt_type(self.expr)
        self.full_name = model.full_name
        self.version = (model.version.major, model.version.minor)
        self.role = role
        self.rel_path = rel_path
        self.text = text
        self.fixed_port_id = fixed_port_id

    def __repr__(self):
        return f"<GenType {self.index} {self.full_name}.{self.version[0]}.{self.version[1]} {self.tstr[:60]}>"


class Namespace:
    def __init__(self, root, composites, dropped, nnvg_flags):
        self.root = pathlib.Path(root)
        self.root_name = self.root.name
        self.composites = composites
        self.dropped = dropped
        self.nnvg_flags = list(nnvg_flags)
        self.texts = {}
        self.types = []
        for c in sorted(composites, key=lambda c: (c.full_name, c.version)):
            rel = str(pathlib.Path(c.source_file_path).resolve().relative_to(self.root.resolve().parent))
            text = pathlib.Path(c.source_file_path).read_text()
            self.texts[rel] = text
            if isinstance(c, pydsdl.ServiceType):
                for role, m in (("request", c.request_type), ("response", c.response_type)):
                    self.types.append(GenType(len(self.types), m, role, rel, text, c.fixed_port_id))
            else:
                self.types.append(GenType(len(self.types), c, "message", rel, text, c.fixed_port_id))

    def describe(self, gt):
        """Everything a replay needs to rebuild the input: the defining text plus the texts it depends on."""
        return {"type": f"{gt.full_name}.{gt.version[0]}.{gt.version[1]}", "expr": gt.tstr, "files": self.texts}


def _read(root, allow_unregulated=True):
    return pydsdl.read_namespace(str(root), [], allow_unregulated_fixed_port_id=allow_unregulated)


def load(root_dir):
    root = pathlib.Path(root_dir)
    comps = _read(root)
    return Namespace(root, comps, [], ["--allow-unregulated-fixed-port-id"])


def write_texts(out_dir, texts):
    """Materialise ``Namespace.texts`` (relative path -> text) below out_dir; returns the root namespace dir."""
    out_dir = pathlib.Path(out_dir)
    root = None
    for rel, text in texts.items():
        p = out_dir / rel
        p.parent.mkdir(parents=True, exist_ok=True)
        p.write_text(text)
        root = out_dir / pathlib.Path(rel).parts[0]
    return root


# ------------------------------------------------------------------------------------------------------------
# the type generator
# ------------------------------------------------------------------------------------------------------------

DEFAULT_PROFILE = {
    "p_union": 0.22, "p_service": 0.10, "p_empty": 0.04, "p_delimited": 0.45,
    "p_fixed_port": 0.15, "p_constants": 0.35, "p_subnamespace": 0.35,
    "p_illegal": 0.02,            # deliberately questionable constructs (truncated intN, void in union): the front end decides
    "max_fields": 7, "max_type_bits": 60000, "layers": 4,
    "p_big_capacity": 0.06,
}

_WIDTHS = [1, 2, 3, 7, 8, 9, 15, 16, 17, 24, 24, 31, 32, 33, 40, 48, 56, 63, 64]


def _prim(rng, prof, for_union=False):
    r = rng.random()
    if r < 0.10:
        return {"text": "bool", "max": 1, "al": 1}
    if r < 0.50:
        n = rng.choice(_WIDTHS) if rng.random() < 0.7 else rng.randint(1, 64)
        mode = rng.choice(["saturated ", "truncated ", ""])
        return {"text": f"{mode}uint{n}", "max": n, "al": 1}
    if r < 0.80:
        n = max(2, rng.choice(_WIDTHS)) if rng.random() < 0.7 else rng.randint(2, 64)
        mode = rng.choice(["saturated ", ""])
        if prof.get("_illegal_now") and rng.random() < 0.3:
            mode = "truncated "
        return {"text": f"{mode}int{n}", "max": n, "al": 1}
    n = rng.choice([16, 16, 32, 64])
    mode = rng.choice(["saturated ", "truncated ", ""])
    return {"text": f"{mode}float{n}", "max": n, "al": 1}


def _field_type(rng, prof, pool, budget, depth=0):
    """Returns {'text','max','al'} or None.  pool: list of (ref text, max bits incl. header, is_composite)."""
    r = rng.random()
    if r < 0.45 or budget < 64:
        return _prim(rng, prof)
    if r < 0.60 and pool:
        ref = rng.choice(pool)
        if ref["max"] <= budget:
            return {"text": ref["text"], "max": ref["max"], "al": 8}
        return _prim(rng, prof)
    # arrays
    r2 = rng.random()
    if r2 < 0.12:
        el = {"text": "bool", "max": 1, "al": 1}
    elif r2 < 0.22:
        el = {"text": rng.choice(["uint8", "byte", "truncated uint8", "int8"]), "max": 8, "al": 1}
    elif r2 < 0.40 and pool:
        ref = rng.choice(pool)
        el = {"text": ref["text"], "max": ref["max"], "al": 8}
    else:
        el = _prim(rng, prof)
    variable = rng.random() < 0.6
    if variable and rng.random() < 0.08 and el["max"] == 8:
        el = {"text": "utf8", "max": 8, "al": 1}
    cap = rng.choice([1, 1, 2, 3, 4, 5, 6, 9])
    if el["al"] == 1 and rng.random() < prof["p_big_capacity"] * (3 if el["max"] <= 8 else 1):
        cap = rng.choice([17, 64, 255, 256, 300])
        if el["max"] <= 8 and rng.random() < 0.25 and budget > 70000 * el["max"] + 64:
            cap = rng.choice([65535, 65536, 70000])
    elmax = el["max"] if el["al"] == 1 else (el["max"] + 7) // 8 * 8
    if elmax * cap + 64 > budget:
        cap = max(1, min(cap, (budget - 64) // max(1, elmax)))
    if variable:
        if rng.random() < 0.25:
            text = f"{el['text']}[<{cap + 1}]"
        else:
            text = f"{el['text']}[<={cap}]"
        mx = prefix_bits(cap) + elmax * cap
        if el["al"] == 8:
            mx = 8 * ((prefix_bits(cap) + 7) // 8) + elmax * cap
    else:
        text = f"{el['text']}[{cap}]"
        mx = elmax * cap
    return {"text": text, "max": mx + (7 if el["al"] == 8 else 0), "al": el["al"]}


def _const_lines(rng, k):
    out = []
    for i in range(k):
        name = f"C{i}"
        r = rng.random()
        if r < 0.30:
            n = rng.choice([1, 7, 8, 16, 31, 32, 33, 63, 64])
            v = rng.choice([0, 1, (1 << n) - 1, (1 << n) // 2, rng.randrange(1 << n)])
            txt = rng.choice([str(v), hex(v)]) if v > 9 else str(v)
            out.append(f"uint{n} {name} = {txt}")
        elif r < 0.60:
            n = rng.choice([2, 8, 16, 31, 32, 33, 63, 64])
            lo, hi = -(1 << (n - 1)), (1 << (n - 1)) - 1
            v = rng.choice([lo, lo + 1, -1, 0, hi, hi - 1, rng.randint(lo, hi)])
            out.append(f"int{n} {name} = {v}")
        elif r < 0.67:
            out.append(f"bool {name} = {rng.choice(['true', 'false'])}")
        elif r < 0.72:
            out.append(f"uint8 {name} = '{rng.choice('aZ09 ~')}'")
        else:
            n = rng.choice([16, 32, 64])
            pool = {16: ["65504.0", "-65504.0", "0.1", "1.0 / 3.0", "5.9604644775390625e-08", "1e-9", "-2.5", "0.0", "1000.5", "3.14159"],
                    32: ["340282346638528859811704183484516925440.0", "-340282346638528859811704183484516925440.0", "1.0 / 3.0", "1.401298464324817e-45", "1e-50", "0.1", "-123456.789",
                         "16777217.0", "2.0 / 7.0", "1.17549435e-38"],
                    64: ["1.7976931348623157e308", "-1.7976931348623157e308", "1.0 / 3.0", "5e-324", "0.1", "9007199254740993.0", "-2.0 / 3.0",
                         "2.2250738585072014e-308", "123456789.0 / 1000.0", "1e-400"]}[n]
            out.append(f"float{n} {name} = {rng.choice(pool)}")
    return out


def _section(rng, prof, pool, kind_union, allow_empty):
    """One attribute section: returns (lines, max_bits before final padding)."""
    if allow_empty and rng.random() < prof["p_empty"] and not kind_union:
        return [], 0
    if not kind_union and rng.random() < prof.get("p_padding_only", 0.05):
        # a structure that is nothing but padding (placeholder): occupies bytes, carries no value
        voids = [f"void{rng.choice([1, 3, 8, 16, 16, 24, 7, 64])}" for _ in range(rng.randint(1, 3))]
        return voids, sum(int(v[4:]) for v in voids) + 8
    nf = rng.randint(2 if kind_union else 1, prof["max_fields"])
    prof = dict(prof, _illegal_now=rng.random() < prof["p_illegal"])
    budget = prof["max_type_bits"]
    if rng.random() < 0.15:
        budget = 10 ** 7    # room for one very large array
    fields, total, mx = [], 0, 0
    for i in range(nf):
        ft = _field_type(rng, prof, pool, max(64, budget - total))
        if ft is None:
            continue
        fields.append((f"f{i}", ft))
        total += ft["max"] + (7 if ft["al"] == 8 else 0)
    lines = []
    if kind_union:
        lines.append("@union")
        body = [f"{ft['text']} {n}" for n, ft in fields]
        if prof["_illegal_now"] and rng.random() < 0.5:
            body.append("void3")
        mx = prefix_bits(len(fields) - 1) + max(ft["max"] for _, ft in fields)
    else:
        body = []
        for n, ft in fields:
            body.append(f"{ft['text']} {n}")
            if rng.random() < 0.25:
                v = rng.choice([1, 2, 3, 5, 7, 8, 13, 32, 64]) if rng.random() < 0.8 else rng.randint(1, 64)
                body.append(f"void{v}")
                total += v
        rng.shuffle(body)
        uid = [len(fields)]

        def fname():
            uid[0] += 1
            return f"f{uid[0] + 20}"
        # (a) a composite directly after byte-sized fields that start unaligned: [bool|uintN] [uint8|uint16|uint8[k]] composite
        if pool and rng.random() < prof.get("p_pattern_align", 0.3):
            ref = rng.choice(pool)
            lead = rng.choice(["bool", f"uint{rng.choice([1, 2, 3, 5, 7, 9, 13])}", f"int{rng.choice([2, 3, 6, 11])}"])
            mid = rng.choice(["uint8", "uint16", "int8", "uint8[2]", "uint32", "float16", "uint8", "uint16"])
            trio = [f"{lead} {fname()}", f"{mid} {fname()}", f"{ref['text']} {fname()}"]
            at = rng.randint(0, len(body))
            body[at:at] = trio
            total += 64 + 32 + ref["max"] + 16
        # (b) empty composites (empty sealed type / @extent 0) as first, middle or LAST field
        empties = [r for r in pool if r["max"] <= 32 or r.get("padonly")]
        if empties and rng.random() < prof.get("p_pattern_empty", 0.25):
            for where in rng.sample(["first", "middle", "last", "last"], rng.randint(1, 2)):
                ref = rng.choice(empties)
                line = f"{ref['text']} {fname()}"
                if where == "first":
                    body.insert(0, line)
                elif where == "last":
                    body.append(line)
                    if ref.get("padonly") and rng.random() < 0.7:     # something to decode behind the padding
                        body.append(f"{rng.choice(['uint8', 'uint16', 'bool', 'uint5'])} {fname()}")
                else:
                    body.insert(rng.randint(0, len(body)), line)
                total += ref["max"] + 8 + 16
                if ref.get("padonly") and rng.random() < 0.4:         # and as array elements
                    body.insert(rng.randint(0, len(body)), f"{ref['text']}[{rng.choice(['2', '<=2', '<=3'])}] {fname()}")
                    total += 3 * (ref["max"] + 8) + 8
        # conservative upper bound: every field padded to 8
        mx = total + 8
    if rng.random() < prof["p_constants"]:
        cl = _const_lines(rng, rng.randint(1, 4))
        for c in cl:
            body.insert(rng.randint(0, len(body)), c)
    lines += body
    return lines, mx


def generate(rng, out_dir, n_types=30, root_name="vns", profile=None):
    """See the module docstring."""
    prof = dict(DEFAULT_PROFILE)
    prof.update(profile or {})
    out_dir = pathlib.Path(out_dir)
    root = out_dir / root_name
    root.mkdir(parents=True, exist_ok=True)
    subs = ["", "sa", "sb", "sb/deep"]
    dropped = []
    used_subject, used_service = set(), set()
    for f in root.rglob("*.dsdl"):       # regression types copied into the root beforehand keep their port-IDs
        m = re.match(r"^(\d+)\.", f.name)
        if m:
            (used_service if re.search(r"(?m)^---", f.read_text()) else used_subject).add(int(m.group(1)))
    pool = []        # referencable composites: {'text','max'}
    counter = [0]
    layers = max(1, prof["layers"])
    per_layer = [n_types // layers + (1 if i < n_types % layers else 0) for i in range(layers)]

    def parse_current():
        while True:
            try:
                return _read(root)
            except pydsdl.FrontendError as ex:
                p = getattr(ex, "path", None)
                if p is None:
                    raise
                p = pathlib.Path(p)
                dropped.append((p.name, str(ex).split("\n")[0][:300]))
                p.unlink()

    def sealed_or_extent_pass(path, sections):
        """sections: list of line lists whose last element may be the placeholder '@extent ?'."""
        path.write_text("\n---\n".join("\n".join(s) for s in sections) + "\n")

    for layer in range(layers):
        pending = []   # (path, sections with placeholders)
        for _ in range(per_layer[layer]):
            k = counter[0]; counter[0] += 1
            name = f"T{k}"
            sub = rng.choice(subs) if rng.random() < prof["p_subnamespace"] else ""
            d = root / sub if sub else root
            d.mkdir(parents=True, exist_ok=True)
            is_service = rng.random() < prof["p_service"]
            force_port = False
            if n_types >= 4 and k in (1, 2):      # every namespace has a service and a message with a fixed port-ID
                is_service, force_port = (k == 1), True
            prefix = ""
            if force_port or rng.random() < prof["p_fixed_port"]:
                while True:
                    top = 511 if is_service else 8191
                    pid = rng.choice([0, top, rng.randint(0, top), rng.randint(0, top)])
                    s = used_service if is_service else used_subject
                    if pid not in s:
                        s.add(pid); break
                prefix = f"{pid}."
            path = d / f"{prefix}{name}.1.{rng.choice([0, 0, 1, 7])}.dsdl"
            sections = []
            for _sec in range(2 if is_service else 1):
                is_union = rng.random() < prof["p_union"]
                lines, mx = _section(rng, prof, pool if layer else [], is_union, True)
                if rng.random() < prof["p_delimited"]:
                    lines = lines + ["@extent ?"]
                else:
                    lines = lines + ["@sealed"]
                sections.append(lines)
            pending.append((path, sections))
        # pass 1: every section sealed, so that the front end tells the exact maximum of each
        for path, sections in pending:
            sealed_or_extent_pass(path, [[("@sealed" if l == "@extent ?" else l) for l in s] for s in sections])
        comps = parse_current()
        by_path = {pathlib.Path(c.source_file_path).resolve(): c for c in comps}
        # pass 2: real extents (exact fit, small slack, big slack)
        for path, sections in pending:
            c = by_path.get(path.resolve())
            if c is None:
                continue
            models = [c.request_type, c.response_type] if isinstance(c, pydsdl.ServiceType) else [c]
            out = []
            for s, m in zip(sections, models):
                mxb = (m.bit_length_set.max + 7) // 8 * 8
                ext = mxb + 8 * rng.choice([0, 0, 1, 2, 3, 8, 40, rng.randint(0, 300)])
                out.append([(f"@extent {ext}" if l == "@extent ?" else l) for l in s])
            sealed_or_extent_pass(path, out)
        comps = parse_current()
        pool = []
        for c in comps:
            if isinstance(c, pydsdl.ServiceType):
                continue
            ref = f"{c.full_name}.{c.version.major}.{c.version.minor}"
            mx = c.extent + (32 if isinstance(c, pydsdl.DelimitedType) else 0)
            inner = c.inner_type if isinstance(c, pydsdl.DelimitedType) else c
            padonly = bool(inner.fields) and all(isinstance(f, pydsdl.PaddingField) for f in inner.fields)
            pool.append({"text": ref, "max": mx, "padonly": padonly})
        pool.sort(key=lambda r: r["text"])
    comps = parse_current()
    return Namespace(root, comps, dropped, ["--allow-unregulated-fixed-port-id"])


# ------------------------------------------------------------------------------------------------------------
# values
# ------------------------------------------------------------------------------------------------------------

def storage_bits(n):
    return prefix_bits((1 << n) - 1)


def _f32(bits):
    return struct.unpack("<f", struct.pack("<I", bits & 0xFFFFFFFF))[0]


def _f16(bits):
    return struct.unpack("<e", struct.pack("<H", bits & 0xFFFF))[0]


def _f32_round(x):
    try:
        return struct.unpack("<f", struct.pack("<f", x))[0]
    except OverflowError:
        return math.copysign(math.inf, x)


F16_SPECIALS = [0.0, -0.0, math.inf, -math.inf, math.nan, 65504.0, -65504.0, 65505.0, 65519.0, 65519.99609375, 65520.0, -65520.0, 65536.0,
                1e6, -1e6, 3.4028234663852886e38, -3.4028234663852886e38,
                2.0 ** -24, 2.0 ** -25, -(2.0 ** -25), 2.0 ** -25 * 1.5, 2.0 ** -26, 2.0 ** -14, 2.0 ** -14 - 2.0 ** -25, 2.0 ** -14 - 2.0 ** -24,
                1.0 + 2.0 ** -11, 1.0 + 3 * 2.0 ** -11, -(1.0 + 2.0 ** -11), 1.0 + 2.0 ** -11 + 2.0 ** -23, 1.0 + 2.0 ** -11 - 2.0 ** -23,
                2.0 ** -24 * 1.5, 2.0 ** -24 * 2.5, 2047.5 * 2.0 ** -24 * 1.0, 1.0, -1.0, 0.5, 1.0 / 3.0, 1.401298464324817e-45, 65488.0, 65503.99609375]
F32_SPECIALS = [0.0, -0.0, math.inf, -math.inf, math.nan, 3.4028234663852886e38, -3.4028234663852886e38, 1.401298464324817e-45,
                -1.401298464324817e-45, 1.1754943508222875e-38, 1.0, -1.0, 16777216.0, 0.10000000149011612, 65504.0]
F64_SPECIALS = [0.0, -0.0, math.inf, -math.inf, math.nan, 1.7976931348623157e308, -1.7976931348623157e308, 5e-324, -5e-324,
                2.2250738585072014e-308, 1.0, -1.0, 0.1, 9007199254740993.0, 3.4028234663852886e38, 3.4028235677973366e38, 1e39, -1e39]


# NaNs by bit pattern (not only float('nan')): signalling and quiet, both signs, payload in the high bits only, in the
# LOW bits only (below what the next narrower format keeps), everywhere.  binary32 patterns are for float16 / float32
# fields (their C/C++ storage is `float`; the shims rebuild exactly this pattern), binary64 patterns for every width.
NAN32_PATTERNS = [0x7FC00000, 0xFFC00000, 0x7F800001, 0xFF800001, 0x7F801FFF, 0xFF801FFF, 0x7F800100, 0x7F802000, 0x7FA00000,
                  0xFFA00000, 0x7FBFFFFF, 0x7FFFFFFF, 0xFFFFFFFF, 0x7FC00001, 0x7FE00000]
NAN64_PATTERNS = [0x7FF8000000000000, 0xFFF8000000000000, 0x7FF0000000000001, 0xFFF0000000000001, 0x7FF4000000000000,
                  0x7FF000001FFFFFFF, 0x7FF0000020000000, 0x7FFFFFFFFFFFFFFF, 0xFFF7FFFFFFFFFFFF]


def nan32_as_double(bits32):
    """The binary64 NaN that carries a binary32 NaN pattern (payload in the leading mantissa bits, quiet bit as given)."""
    return bits2f(((bits32 >> 31) << 63) | (0x7FF << 52) | ((bits32 & 0x7FFFFF) << 29))


def _gen_nan(rng, n):
    r = rng.random()
    if n < 64 and r < 0.75:
        b = rng.choice(NAN32_PATTERNS) if r < 0.6 else (rng.getrandbits(1) << 31) | 0x7F800000 | rng.randint(1, 0x7FFFFF)
        return nan32_as_double(b)
    if r < 0.9 or n < 64:
        return bits2f(rng.choice(NAN64_PATTERNS))
    return bits2f((rng.getrandbits(1) << 63) | (0x7FF << 52) | rng.randint(1, (1 << 52) - 1))


def _gen_prim(rng, e, oob, nanp=False):
    k = e[0]
    if k == "b":
        return rng.randint(0, 1)
    if k == "u":
        n = e[1]; hi = (1 << n) - 1; sb = storage_bits(n); shi = (1 << sb) - 1
        c = [0, 1, hi, hi - 1 if hi else 0, hi // 2, hi // 2 + 1, rng.randint(0, hi), rng.randint(0, hi), 1 << rng.randrange(n)]
        if oob and shi > hi:
            c += [hi + 1, shi, shi - 1, rng.randint(hi + 1, shi), rng.randint(hi + 1, shi), (hi + 1) | rng.randint(0, hi)]
        return rng.choice(c)
    if k == "i":
        n = e[1]; lo, hi = -(1 << (n - 1)), (1 << (n - 1)) - 1; sb = storage_bits(n); slo, shi = -(1 << (sb - 1)), (1 << (sb - 1)) - 1
        c = [0, 1, -1, lo, lo + 1, hi, hi - 1, rng.randint(lo, hi), rng.randint(lo, hi), rng.randint(lo, hi)]
        if oob and shi > hi:
            c += [hi + 1, lo - 1, shi, slo, rng.randint(hi + 1, shi), rng.randint(slo, lo - 1), rng.randint(slo, shi)]
        return rng.choice(c)
    if k == "f":
        n = e[1]
        if nanp and rng.random() < 0.07:
            return _gen_nan(rng, n)
        r = rng.random()
        if n == 16:
            if r < 0.45:
                x = rng.choice(F16_SPECIALS)
                if not oob and x == x and abs(x) != math.inf and abs(x) > 65504.0:
                    x = math.copysign(65504.0, x)
                return x
            if r < 0.65:       # exact half values
                x = _f16(rng.getrandbits(16))
                return x if x == x else math.nan
            if r < 0.85:       # half value +- tie / near-tie offsets, as binary32
                h = rng.getrandbits(15)
                if h >= 0x7BFF:
                    h = 0x3C00
                a, b = _f16(h), _f16(h + 1)
                mid = (a + b) / 2
                x = rng.choice([mid, _f32_round(mid * (1 + 2.0 ** -23)), _f32_round(mid * (1 - 2.0 ** -23)), _f32_round(a + (b - a) * rng.random())])
                return rng.choice([x, -x])
            x = _f32(rng.getrandbits(32))
            if x != x:
                return math.nan
            if not oob and abs(x) != math.inf and abs(x) > 65504.0:
                x = math.copysign(65504.0, x)
            return x
        if n == 32:
            if r < 0.3:
                return rng.choice(F32_SPECIALS)
            x = _f32(rng.getrandbits(32))
            return x if x == x else math.nan
        if r < 0.3:
            x = rng.choice(F64_SPECIALS)
        else:
            x = bits2f(rng.getrandbits(64))
        return x if x == x else math.nan
    raise ValueError(e)


def gen_value(rng, e, oob=True, p_invalid=0.0, _depth=0, nan_payloads=False):
    """
    Boundary-biased value of protocol type ``e``.  Integers stay inside the C/C++ storage type of the field
    (uintN -> uint8/16/32/64_t, intN likewise); ``oob=False`` keeps every number inside the DSDL range (what the
    Python target's setters accept).  With probability ``p_invalid`` per variable array / union the value gets a
    length above the capacity / an option index >= the option count.  ``nan_payloads``: floats are now and then NaNs given
    by bit pattern (signalling / quiet, both signs, payload in the high or only in the low mantissa bits) instead of the
    one canonical quiet NaN — only for consumers that compare NaNs through decoding (payloads are outside the specification).
    """
    k = e[0]
    if k in "uifb":
        return _gen_prim(rng, e, oob, nan_payloads)
    if k == "v":
        return None
    if k == "a":
        return [gen_value(rng, e[1], oob, p_invalid, _depth + 1, nan_payloads) for _ in range(e[2])]
    if k == "l":
        cap = e[2]
        if cap > 400:
            n = rng.choice([0, 1, 2, 3, 255, 256, 257, rng.randint(0, 400)]) if rng.random() < 0.97 else cap
        else:
            n = rng.choice([0, 1, cap, cap, max(0, cap - 1), rng.randint(0, cap), rng.randint(0, cap)])
        if p_invalid and rng.random() < p_invalid and cap < 100000:
            n = cap + rng.choice([1, 1, 2, 7])
        n = min(n, cap + 7)
        return [gen_value(rng, e[1], oob, p_invalid, _depth + 1, nan_payloads) for _ in range(n)]
    if k == "s":
        return [gen_value(rng, f, oob, p_invalid, _depth + 1, nan_payloads) for f in e[1]]
    if k == "n":
        nopt = len(e[1])
        if p_invalid and rng.random() < p_invalid:
            kk = rng.choice([nopt, nopt + 1, 255, nopt + 100])
            return (kk, None)
        kk = rng.randrange(nopt)
        return (kk, gen_value(rng, e[1][kk], oob, p_invalid, _depth + 1, nan_payloads))
    if k == "d":
        return gen_value(rng, e[2], oob, p_invalid, _depth, nan_payloads)
    raise ValueError(e)


def zero_value(e):
    k = e[0]
    if k in "uib":
        return 0
    if k == "f":
        return 0.0
    if k == "v":
        return None
    if k == "a":
        return [zero_value(e[1]) for _ in range(e[2])]
    if k == "l":
        return []
    if k == "s":
        return [zero_value(f) for f in e[1]]
    if k == "n":
        return (0, zero_value(e[1][0]))
    if k == "d":
        return zero_value(e[2])
    raise ValueError(e)


def gen_byte_strings(rng, encodings, n_random=10, max_len=64, all_truncations_upto=48):
    """
    Byte strings for a deserializer: the empty string, the given valid encodings, every truncation of them (for
    encodings up to ``all_truncations_upto`` bytes, sampled cut points beyond), extensions with garbage and with
    zeros, single and multiple bit flips, fully random strings of random length, all-ones strings.
    Deduplicated, order preserved.
    """
    out, seen = [], set()

    def add(b):
        b = bytes(b)
        if b not in seen:
            seen.add(b); out.append(b)

    add(b"")
    for enc in encodings:
        add(enc)
        n = len(enc)
        cuts = range(n) if n <= all_truncations_upto else sorted(set([0, 1, 2, 3, 4, 5, 8, n - 1, n - 2, n - 3, n - 4] + [rng.randrange(n) for _ in range(12)]))
        for c in cuts:
            if 0 <= c < n:
                add(enc[:c])
        add(enc + bytes(rng.getrandbits(8) for _ in range(rng.randint(1, 9))))
        add(enc + b"\x00" * rng.randint(1, 4))
        add(enc + b"\xff" * rng.randint(1, 4))
        if n:
            for _ in range(3):
                b = bytearray(enc)
                for _ in range(rng.choice([1, 1, 2, 5])):
                    i = rng.randrange(n * 8)
                    b[i // 8] ^= 1 << (i % 8)
                add(b)
                # flips concentrated in the first bytes (length prefixes, tags, delimiter headers live there)
                b = bytearray(enc)
                i = rng.randrange(min(n, 6) * 8)
                b[i // 8] ^= 1 << (i % 8)
                add(b)
                if rng.random() < 0.5 and n > 1:
                    add(bytes(b[:rng.randrange(1, n)]))
    for _ in range(n_random):
        ln = rng.choice([1, 2, 3, 4, 5, 8, rng.randint(1, max(1, max_len)), rng.randint(1, max(1, max_len))])
        r = rng.random()
        if r < 0.6:
            add(bytes(rng.getrandbits(8) for _ in range(ln)))
        elif r < 0.75:
            add(b"\xff" * ln)
        elif r < 0.85:
            add(b"\x00" * ln)
        else:   # small numbers: plausible tags / lengths / headers followed by noise
            add(bytes(rng.choice([0, 1, 2, 3, 4, 5, 255]) if i < 6 else rng.getrandbits(8) for i in range(ln)))
    return out
