"""
C02 — generated deserializers decode every byte string as the specification prescribes.

Proof: lean/NunavutVerif/Properties/C02.lean.  Tie: every generated deserializer (C, C++, Python; option sets of
codec_engine.target_plan) against the compiled Lean driver `codec`: decoded value, consumed size, error kind, for
valid encodings, every truncation of them, extensions with garbage / zeros / ones, bit flips, random strings and the
empty string (input copied into an exact-size heap block; the output object pre-filled with 0xA5).  Failing-input
search: codec_ref.py as the oracle on the same strings.
"""
from . import codec_engine as E


def run(ctx):
    drv, sess, tally = E.common_setup(ctx, "C02")
    ctx.rule = ("per type: the empty string, K valid encodings of random in-range values, every truncation of each (sampled cut points above 48 "
                "bytes), extensions with random bytes / zeros / ones, 1-5 bit flips (biased to the first 6 bytes: prefixes, tags, delimiter "
                "headers), R random strings (random, all-ones, all-zeros, small leading numbers); non-trivial = non-empty string; distinct by "
                "(type, bytes)")
    rng = ctx.rng
    k, r = (6, 20) if ctx.quick else (10, 40)
    reqs = E.corpus_requests(sess, "C02")
    for gt in sess.ns.types:
        for b in E.bytes_cases(rng, gt, k, r):
            reqs.append(E.Req(gt, "de", b))
    E.run_requests(ctx, sess, drv, "de", reqs, tally)
    E.run_refinement_ties(ctx)
    ctx.sample({"type": reqs[-1].gt.tstr[:200], "request": reqs[-1].target_line()[:200]})


def replay(ctx, path):
    return E.replay(ctx, path)
