"""
C02 — generated deserializers decode every byte string as the specification prescribes.

Proof: lean/NunavutVerif/Properties/C02.lean.  Tie: every generated deserializer (C, C++, Python; option sets of
codec_engine.target_plan) against the compiled Lean driver `codec`: decoded value, consumed size, error kind, for
valid encodings, every truncation of them, extensions with garbage / zeros / ones, bit flips, random strings and the
empty string (input copied into an exact-size heap block; the output object pre-filled with 0xA5).  Failing-input
search: codec_ref.py as the oracle on the same strings.
"""
from . import codec_engine as E


def run(ctx):
    drv, sess, tally = E.common_setup(ctx, "C02")
    ctx.rule = ("per type: the empty string, K valid encodings of random in-range values, every truncation of each (sampled cut points above 48 "
                "bytes), extensions with random bytes / zeros / ones, 1-5 bit flips (biased to the first 6 bytes: prefixes, tags, delimiter "
                "headers), R random strings (random, all-ones, all-zeros, small leading numbers); strings with one length prefix above its "
                "capacity (+1, roundup8, +1) and cuts of them; dereuse pairs (A then B into the SAME object; B = empty / zero value / emptied "
                "value / proper prefix of A / random) answered as de B; every de also with the input as a sub-range of a larger buffer (C, "
                "C++), NULL buffer of size 0 and _initialize_ (C, empty input); Python: every string also as 3 other fragment spellings "
                "(all 6 for the empty string: no fragment at all, only empty fragments, ...; read-only / bytes / bytearray / ndarray "
                "fragments, tuple, 2 / 5 fragments, empty fragments first / middle / last, one per byte, mixed kinds; chosen by CRC); "
                "non-trivial = non-empty string; distinct by (type, op, bytes)")
    rng = ctx.rng
    k, r = (6, 20) if ctx.quick else (10, 40)
    reqs = E.corpus_requests(sess, "C02")
    for gt in sess.ns.types:
        for b in E.bytes_cases(rng, gt, k, r):
            reqs.append(E.Req(gt, "de", b))
        # one length prefix above the capacity of its array (by one, up to the next multiple of 8, one beyond), rest valid
        for b in E.overcap_bytes(rng, gt, 3 if ctx.quick else 8):
            reqs.append(E.Req(gt, "de", b, origin="overcap"))
        for b in E.nan_wire_bytes(rng, gt, 3 if ctx.quick else 8):      # NaNs by bit pattern (sNaN, payload in the low bits only, ...)
            reqs.append(E.Req(gt, "de", b, origin="nan-patterns"))
        # decoding into an object that still holds an earlier message (populated arrays, another union option)
        for a, b in E.reuse_byte_pairs(rng, gt, 6 if ctx.quick else 14):
            reqs.append(E.Req(gt, "dereuse", (a, b), origin="reuse"))
    E.run_requests(ctx, sess, drv, "de", reqs, tally)
    api_conventions(ctx, sess, tally)
    E.record_spellings(ctx, sess)
    E.run_refinement_ties(ctx)
    ctx.sample({"type": reqs[-1].gt.tstr[:200], "request": reqs[-1].target_line()[:200]})


API_EXPECTED = "ok -2 -2 -2 -2 -2 -2 0"


def api_conventions(ctx, sess, tally):
    """Argument conventions the generated C documents: NULL object / buffer / size pointer -> -NUNAVUT_ERROR_INVALID_ARGUMENT
    from both functions, except a NULL source buffer of size 0 (accepted; its decoded value is compared with `de -` as an
    alternative spelling of every empty-input request); _initialize_(NULL) does nothing."""
    for t in sess.targets:
        if t.lang != "c":
            continue
        ans = t.ask([f"api {gt.index}" for gt in sess.ns.types])
        for gt, a in zip(sess.ns.types, ans):
            ctx.case((gt.tstr, t.name, "api"), True)
            ctx.count("api-conventions-compared")
            if a != API_EXPECTED:
                tally.fail({"kind": "api:null-arguments", "lang": "c", "leaf": "-"},
                           f"{t.name}: NULL-argument conventions of {gt.full_name}: {a} (serialize obj/buffer/size NULL, deserialize obj/size NULL, "
                           f"NULL buffer with size 1, NULL buffer with size 0), documented {API_EXPECTED}",
                           lambda gt=gt, t=t, a=a: {"type": f"{gt.full_name}.{gt.version[0]}.{gt.version[1]}", "op": "api", "target": t.name, "options": t.options,
                                                   "files": E.deps_texts(sess.ns, gt), "expected": API_EXPECTED, "got": a})


def replay(ctx, path):
    return E.replay(ctx, path)
