"""
C14 (float part) — half-precision conversion shipped with generated code is exact on unpack, nearest/faithful and
monotone on pack, keeps sign / NaN-ness / infinities, overflows to infinity from |x| >= 65520, round-trips all halves.

Proof: lean/NunavutVerif/Properties/C14Float.lean (all 2^32 binary32 patterns, all 2^16 binary16 patterns).
Tie: the GENERATED C header (gcc -O0 / -O2, clang in thorough), the GENERATED C++ header (g++; more standards and
clang++ in thorough) and the GENERATED Python support module versus the compiled Lean model (`float16` driver):
all 2^16 patterns for unpack; for pack a stratified set + per-2^20-block checksums (a sample of blocks in quick,
ALL 4096 blocks = all 2^32 inputs in thorough, 16 slices in parallel, a differing block is bisected to the input);
the modelled hardware multiplication `f32mul` versus the real `float * float` on random operand pairs.
Failing-input search: the property's predicates written independently of the model — NumPy float16 /
`fractions.Fraction` in Python on the sampled inputs, a double-precision reference inside the compiled program
(`spec` mode) on the swept ranges — evaluated on the implementation's outputs.

Entry points: `run_float(ctx, drivers=None)` (called from harness/c14.py after `ctx.prove([... "C14Float"],
exes=[... "float16"])`), `run(ctx)` stand-alone, `replay_float(ctx, replay_dict)`.
"""
import array
import fractions
import importlib.util
import json
import math
import os
import re
import struct
import subprocess
import sys
import time

from . import common

PROPERTY_MODULES = ["C14Float"]
EXES = ["float16"]
HERE = common.VERIF / "harness" / "c"
NSLICES = 16
BLOCK = 1 << 20


# ----------------------------------------------------------------------------------------------------------------
# plumbing
# ----------------------------------------------------------------------------------------------------------------
def _run(cmd, timeout, **kw):
    return subprocess.run(cmd, capture_output=True, timeout=timeout, **kw)


def gen_support(ctx, lang, extra=()):
    """Render the support files of the tree under check with the tool itself."""
    base = ctx.scratch / "f16"
    ns = base / "ns"
    ns.mkdir(parents=True, exist_ok=True)
    (ns / "A.1.0.dsdl").write_text("uint8 x\n@sealed\n")
    out = base / ("out_" + lang + "".join(e.strip("-").replace("-", "_") for e in extra))
    if out.exists():
        return out
    env = dict(os.environ, PYTHONPATH=str(common.REPO / "src"), PYTHONDONTWRITEBYTECODE="1")
    cmd = [common.PY, "-m", "nunavut", "--target-language", lang, "--generate-support", "only", "--outdir", str(out)]
    if lang == "cpp":
        cmd.append("--experimental-languages")
    cmd += list(extra) + [str(ns)]
    p = _run(cmd, 300, env=env)
    if p.returncode != 0:
        raise RuntimeError(f"nnvg failed for {lang}: {p.stderr.decode()[-1500:]}")
    return out


def build(ctx, name, compiler, std, opt, incdir, src):
    exe = ctx.scratch / "f16" / name
    cmd = [compiler, "-std=" + std, opt, "-I", str(incdir), "-I", str(HERE), str(HERE / src), "-o", str(exe), "-lm"]
    p = _run(cmd, 600)
    if p.returncode != 0:
        raise RuntimeError(f"{' '.join(cmd)} failed: {p.stderr.decode()[-2000:]}")
    return exe


def ensure_numpy(ctx):
    try:
        import numpy  # noqa: F401
        return
    except ImportError:
        pass
    tgt = ctx.scratch / "np"
    p = _run([common.PY, "-m", "pip", "install", "--quiet", "--no-index", "--find-links", "/opt/veriftools/wheels",
              "--target", str(tgt), "numpy"], 600)
    if p.returncode != 0:
        raise RuntimeError("cannot install numpy: " + p.stderr.decode()[-1000:])
    sys.path.insert(0, str(tgt))
    import numpy  # noqa: F401


def f32(bits):
    return struct.unpack("<f", struct.pack("<I", bits))[0]


def bits32(x):
    return struct.unpack("<I", struct.pack("<f", x))[0]


def half_value(h):
    """Exact value of a binary16 magnitude pattern as a Fraction (infinity -> None, NaN -> 'nan')."""
    e, m = (h >> 10) & 31, h & 1023
    if e == 31:
        return None if m == 0 else "nan"
    if e == 0:
        return fractions.Fraction(m, 1 << 24)
    return fractions.Fraction(1024 + m) * fractions.Fraction(2) ** (e - 25)


def single_value(a):
    e, m = (a >> 23) & 255, a & 0x7FFFFF
    if e == 255:
        return None if m == 0 else "nan"
    if e == 0:
        return fractions.Fraction(m, 1 << 149)
    return fractions.Fraction((1 << 23) + m) * fractions.Fraction(2) ** (e - 150)


_HALF_FINITE = None


def spec_check_fraction(x, out):
    """The property's predicates for one (input pattern, output pattern), exact rationals.  Returns a defect kind or None.
    Second component: True if the result is not a nearest value (allowed by C14, recorded)."""
    global _HALF_FINITE
    if _HALF_FINITE is None:
        _HALF_FINITE = [half_value(p) for p in range(0x7C00)]
    a, om = x & 0x7FFFFFFF, out & 0x7FFF
    if not 0 <= out < 65536:
        return "range", False
    if (out >> 15) != (x >> 31):
        return "sign", False
    if a > 0x7F800000:
        return (None if om > 0x7C00 else "nan"), False
    if om > 0x7C00:
        return "made-nan", False
    if a == 0x7F800000:
        return (None if om == 0x7C00 else "inf"), False
    v = single_value(a)
    if v >= 65520:
        return (None if om == 0x7C00 else "overflow"), False
    if om == 0x7C00:
        return "early-inf", False
    # largest finite half <= v by bisection over the (increasing) table
    lo, hi = 0, 0x7BFF
    while lo < hi:
        mid = (lo + hi + 1) // 2
        if _HALF_FINITE[mid] <= v:
            lo = mid
        else:
            hi = mid - 1
    below = lo
    above = below if _HALF_FINITE[below] == v else below + 1
    if om not in (below, above):
        return "faithful", False
    r = _HALF_FINITE[om]
    other = above if om == below else below
    ov = fractions.Fraction(65536) if other == 0x7C00 else _HALF_FINITE[other]
    return None, abs(r - v) > abs(ov - v)


# ----------------------------------------------------------------------------------------------------------------
# which packer does the tree under check have?  (the "translator" of this check: the template text is reduced to a
# canonical statement string and must be one of the transcribed shapes, otherwise the tie is broken)
# ----------------------------------------------------------------------------------------------------------------
SHAPE_PACK_TIES_AWAY = (
    "PACKconstTvalue{Tconstuint32_tround_mask=~0x0FFFU;Float32Bitsf32inf;Float32Bitsf16inf;Float32Bitsmagic;Float32Bitsin;"
    "f32inf.bits=255U<<23U;f16inf.bits=31U<<23U;magic.bits=15U<<23U;in.real=value;constuint32_tsign=in.bits&1U<<31U;in.bits^=sign;"
    "uint16_tout=0;ifin.bits>=f32inf.bits{ifin.bits&0x7FFFFFUL!=0{out=0x7E00U;}else{out=in.bits>f32inf.bits?0x7FFFU:0x7C00U;}}"
    "else{in.bits&=round_mask;in.real*=magic.real;in.bits-=round_mask;ifin.bits>f16inf.bits{in.bits=f16inf.bits;}out=in.bits>>13U;}"
    "out|=sign>>16U;returnout;")
SHAPE_PACK_RNE = (
    "PACKconstTvalue{TFloat32Bitsf32inf;Float32Bitsf16max;Float32Bitsdenorm_magic;Float32Bitsin;f32inf.bits=255U<<23U;"
    "f16max.bits=127U+16U<<23U;denorm_magic.bits=127U-15U+23U-10U+1U<<23U;in.real=value;constuint32_tsign=in.bits&1U<<31U;"
    "in.bits^=sign;uint16_tout=0;ifin.bits>=f16max.bits{out=in.bits>f32inf.bits?0x7E00U:0x7C00U;}"
    "elseifin.bits<113U<<23U{in.real+=denorm_magic.real;out=in.bits-denorm_magic.bits;}"
    "else{constuint32_tmant_odd=in.bits>>13U&1U;in.bits-=112U<<23U;in.bits+=0x0FFFU+mant_odd;out=in.bits>>13U;}"
    "out|=sign>>16U;returnout;")
SHAPE_UNPACK = (
    "UNPACKconstuint16_tvalue{TFloat32Bitsmagic;Float32Bitsinf_nan;Float32Bitsout;magic.bits=0xEFU<<23U;inf_nan.bits=0x8FU<<23U;"
    "out.bits=value&0x7FFFU<<13U;out.real*=magic.real;ifout.real>=inf_nan.real{out.bits|=0xFFU<<23U;}out.bits|=value&0x8000U<<16U;"
    "returnout.real;")
# model operation of the Lean driver per recognised pack shape
PACK_MODEL = {"ties-away": "pack", "rne": "rnec"}


def _canon(text, fname, tag):
    i = text.index(fname + "(")
    j = text.index("\n}\n", i)
    b = text[i:j]
    b = re.sub(r"//[^\n]*", "", b)
    b = re.sub(r"\{\{[^}]*\}\}", "T", b)
    b = re.sub(r"static_cast<\s*(uint16_t|uint32_t)\s*>", "", b)
    b = re.sub(r"\(\s*(uint16_t|uint32_t)\s*\)", "", b)
    b = re.sub(r"[\s()]+", "", b)
    return b.replace(fname, tag)


def recognise_shapes(ctx):
    """Returns 'ties-away' | 'rne' | None (unrecognised => broken obligation recorded)."""
    found = {}
    for lang, path, pk, un in (("c", "src/nunavut/lang/c/support/serialization.j2", "nunavutFloat16Pack", "nunavutFloat16Unpack"),
                               ("cpp", "src/nunavut/lang/cpp/support/serialization.j2", "float16Pack", "float16Unpack")):
        try:
            text = (common.REPO / path).read_text()
            cp, cu = _canon(text, pk, "PACK"), _canon(text, un, "UNPACK")
        except (OSError, ValueError) as e:
            ctx.broken.append({"kind": "float16-template-shape", "lang": lang, "error": repr(e)})
            found[lang] = None
            continue
        found[lang] = "ties-away" if cp == SHAPE_PACK_TIES_AWAY else "rne" if cp == SHAPE_PACK_RNE else None
        if found[lang] is None:
            ctx.broken.append({"kind": "float16-template-shape", "lang": lang, "what": "the pack function is neither of the transcribed shapes", "canonical": cp})
        if cu != SHAPE_UNPACK:
            ctx.broken.append({"kind": "float16-template-shape", "lang": lang, "what": "the unpack function is not the transcribed shape", "canonical": cu})
    ctx.extra["f16_template_shape"] = found
    return found


# ----------------------------------------------------------------------------------------------------------------
# inputs
# ----------------------------------------------------------------------------------------------------------------
MANT = [0, 1, 2, 0xFFF, 0x1000, 0x1001, 0x1FFF, 0x2000, 0x2001, 0x2FFF, 0x3000, 0x3001, 0x3FFFFF, 0x400000, 0x400001,
        0x7FDFFF, 0x7FE000, 0x7FE001, 0x7FEFFF, 0x7FF000, 0x7FF001, 0x7FFFFE, 0x7FFFFF]


def stratified_inputs(rng, nrandom, quick):
    xs = array.array("I")
    # every exponent x mantissa boundaries, both signs
    for e in range(256):
        ms = MANT + [rng.getrandbits(23) for _ in range(8)]
        for m in ms:
            for s in (0, 1):
                xs.append((s << 31) | (e << 23) | m)
    # every midpoint between adjacent halves (ties), +-1 pattern, both signs; every half exactly, +-1 pattern
    step = 1
    for p in range(0, 0x7C00, step):
        lo, hi = half_value(p), (half_value(p + 1) if p + 1 < 0x7C00 else fractions.Fraction(65536))
        mid = bits32(float((lo + hi) / 2))
        ex = bits32(float(lo))
        for b in (mid - 1, mid, mid + 1, ex - 1 if ex else 0, ex, ex + 1):
            xs.append(b)
            xs.append(b | 0x80000000)
    # specials
    for b in (0x7F800000, 0x7F800001, 0x7FC00000, 0x7FFFFFFF, 0x7FBFFFFF, 0x7F7FFFFF, 0x00000001, 0x007FFFFF, 0x00800000,
              0x33000000, 0x32FFFFFF, 0x33000001, 0x33800000, 0x337FFFFF, 0x38800000, 0x387FFFFF, 0x387FF000, 0x387FEFFF,
              0x477FE000, 0x477FEFFF, 0x477FF000, 0x477FF001, 0x47800000, 0x4B000000):
        xs.append(b)
        xs.append(b | 0x80000000)
    # random: uniform patterns, and patterns whose exponent is in the interesting range
    for _ in range(nrandom):
        xs.append(rng.getrandbits(32))
    for _ in range(nrandom // 2):
        xs.append((rng.getrandbits(1) << 31) | (rng.randint(100, 144) << 23) | rng.getrandbits(23))
    return xs


def mul_pairs(rng, n):
    ps = array.array("I")

    def pat(kind):
        if kind == 0:   # normal, any exponent
            return (rng.randint(1, 254) << 23) | rng.getrandbits(23)
        if kind == 1:   # subnormal
            return rng.getrandbits(23)
        if kind == 2:   # power of two
            return rng.randint(1, 254) << 23
        if kind == 3:   # few mantissa bits (exact products, ties after scaling)
            return (rng.randint(1, 254) << 23) | (rng.getrandbits(rng.randint(1, 12)) << rng.randint(0, 11))
        return rng.choice([0, 1, 0x007FFFFF, 0x00800000, 0x7F7FFFFF, 0x07800000, 0x77800000, 0x3F800000])

    for i in range(n):
        r = i % 8
        if r == 0:      # the packer's multiplication: masked operand times 2^-112
            a, b = (rng.getrandbits(31) % 0x7F800000) & 0xFFFFF000, 0x07800000
        elif r == 1:    # the unpacker's multiplication
            a, b = rng.getrandbits(15) << 13, 0x77800000
        elif r == 2:    # products landing in the subnormal range (exponent sum near the bottom)
            ea = rng.randint(1, 150)
            eb = max(1, min(254, rng.randint(100, 130) - ea + 0))
            a, b = (ea << 23) | rng.getrandbits(23), (eb << 23) | rng.getrandbits(23)
        elif r == 3:    # products near overflow
            ea = rng.randint(100, 254)
            eb = max(1, min(254, 381 - ea + rng.randint(-2, 1)))
            a, b = (ea << 23) | rng.getrandbits(23), (eb << 23) | rng.getrandbits(23)
        else:
            a, b = pat(rng.randint(0, 4)), pat(rng.randint(0, 4))
        ps.append(a)
        ps.append(b)
    return ps


# ----------------------------------------------------------------------------------------------------------------
# the check
# ----------------------------------------------------------------------------------------------------------------
def _fail(ctx, kind, target, what, replay):
    ctx.fail({"kind": kind, "target": target}, what, replay)


def _numpy_spec(ctx, target, xs, outs, nearest_required=False):
    """Failing-input search on a sampled set: predicates against NumPy's own float16 (independent of the model)."""
    import numpy as np
    x = np.frombuffer(xs.tobytes(), dtype=np.uint32)
    o = np.asarray(outs, dtype=np.uint32)
    if o.max(initial=0) > 0xFFFF:
        i = int(np.argmax(o > 0xFFFF))
        _fail(ctx, "f16-pack-range", target, "float16 pack returned more than 16 bits", {"target": target, "x": hex(int(x[i])), "out": hex(int(o[i]))})
        return
    o = o.astype(np.uint16)
    with np.errstate(all="ignore"):
        xv = x.view(np.float32).astype(np.float64)
        rv = o.view(np.float16).astype(np.float64)
        bad = {}
        sign_bad = (o >> 15) != (x >> 31).astype(np.uint16)
        bad["sign"] = sign_bad
        xnan, rnan = np.isnan(xv), np.isnan(rv)
        bad["nan"] = xnan != rnan
        ok = ~xnan & ~rnan
        xinf = np.isinf(xv)
        bad["inf"] = ok & xinf & (rv != xv)
        fin = ok & ~xinf
        big = fin & (np.abs(xv) >= 65520.0)
        bad["overflow"] = big & ~(np.isinf(rv) & (np.sign(rv) == np.sign(xv)))
        small = fin & ~big
        bad["early-inf"] = small & np.isinf(rv)
        rn = x.view(np.float32).astype(np.float16)          # NumPy's round-to-nearest-even conversion
        rnv = rn.astype(np.float64)
        toward = np.where(rnv < xv, np.float16(np.inf), np.float16(-np.inf)).astype(np.float16)
        other = np.nextafter(rn, toward).astype(np.float64)
        other = np.where(rnv == xv, rnv, other)
        faithful = (rv == rnv) | (rv == other)
        bad["faithful"] = small & ~np.isinf(rv) & ~faithful
        nonnearest = small & faithful & (np.abs(rv - xv) > np.abs(rnv - xv))
        # monotone: sort the non-NaN inputs by value, outputs must not decrease
        idx = np.nonzero(ok)[0]
        order = idx[np.argsort(xv[idx], kind="stable")]
        sv, so = xv[order], rv[order]
        dec = np.nonzero(so[1:] < so[:-1])[0]
    for kind, mask in bad.items():
        n = int(mask.sum())
        if n:
            i = int(np.argmax(mask))
            _fail(ctx, "f16-pack-" + kind, target, f"float16 pack violates '{kind}' on {n} sampled input(s)",
                  {"target": target, "x": hex(int(x[i])), "out": hex(int(o[i])), "count": n})
    if len(dec):
        j = int(dec[0])
        _fail(ctx, "f16-pack-monotone", target, "float16 pack is not monotone",
              {"target": target, "x": hex(int(x[order[j]])), "y": hex(int(x[order[j + 1]])),
               "out_x": hex(int(o[order[j]])), "out_y": hex(int(o[order[j + 1]]))})
    nn = int(nonnearest.sum())
    ctx.count(f"{target}:faithful_but_not_nearest", nn)
    if nearest_required and nn:
        i = int(np.argmax(nonnearest))
        _fail(ctx, "f16-pack-not-nearest", target, "result is adjacent but not nearest", {"target": target, "x": hex(int(x[i])), "out": hex(int(o[i]))})
    with np.errstate(all="ignore"):
        ties = small & ~np.isinf(rv) & (np.abs(rnv - xv) == np.abs(other - xv)) & (rnv != other)
        ctx.count(f"{target}:ties_in_sample", int(ties.sum()))
        ctx.count(f"{target}:sample_differs_from_RNE", int((small & (rv != rnv)).sum()))


def _fraction_spec(ctx, target, xs, outs, idxs):
    for i in idxs:
        kind, _ = spec_check_fraction(xs[i], outs[i])
        if kind:
            _fail(ctx, "f16-pack-" + kind, target, f"float16 pack violates '{kind}' (exact rational reference)",
                  {"target": target, "x": hex(xs[i]), "out": hex(outs[i])})


def _pack_list(exe, xs, timeout=600):
    p = _run([str(exe), "pack-list"], timeout, input=xs.tobytes())
    if p.returncode != 0:
        raise RuntimeError(f"{exe.name} pack-list failed: {p.stderr.decode()[-500:]}")
    o = array.array("H")
    o.frombytes(p.stdout)
    n = len(xs)
    return o[:n], o[n:]


def _parallel(cmds, timeout, inputs=None):
    procs = []
    for i, c in enumerate(cmds):
        procs.append(subprocess.Popen(c, stdin=subprocess.PIPE, stdout=subprocess.PIPE, stderr=subprocess.PIPE))
    outs = []
    deadline = time.time() + timeout
    # feed stdin first (small), then collect
    for i, p in enumerate(procs):
        data = inputs[i] if inputs else b""
        try:
            p.stdin.write(data)
            p.stdin.close()
        except BrokenPipeError:
            pass
    for p in procs:
        try:
            out = p.stdout.read()
            p.wait(timeout=max(1, deadline - time.time()))
        except subprocess.TimeoutExpired:
            for q in procs:
                q.kill()
            raise RuntimeError("parallel sweep timed out")
        if p.returncode != 0:
            raise RuntimeError(f"sweep process failed: {p.stderr.read().decode()[-500:]}")
        outs.append(out.decode())
    return outs


def _slices(blocks, n=NSLICES):
    k = (len(blocks) + n - 1) // n
    return [blocks[i:i + k] for i in range(0, len(blocks), k)]


def _bitrev12(b):
    return int(format(b & 0xFFF, "012b")[::-1], 2)


def _lean_block_sums(drv, blocks, fn="pack", budget_s=None, timeout=3000):
    """Checksums of the Lean model per block, NSLICES processes at a time.  Blocks are visited in bit-reversed order so
    that a sweep cut short by `budget_s` still covers every exponent; returns {block: checksum} for the blocks done."""
    order = sorted(blocks, key=_bitrev12)
    res = {}
    t0 = time.time()
    per_round = NSLICES * 8
    for i in range(0, len(order), per_round):
        if budget_s is not None and i > 0 and time.time() - t0 > budget_s:
            break
        part = order[i:i + per_round]
        sl = _slices(part)
        cmds = [[str(drv.exe)] for _ in sl]
        inputs = ["".join(f"sum {fn} {b * BLOCK:x} {BLOCK:x}\n" for b in s_).encode() for s_ in sl]
        outs = _parallel(cmds, timeout, inputs)
        for s_, o in zip(sl, outs):
            lines = o.split()
            if len(lines) != len(s_):
                raise RuntimeError("lean driver: wrong number of checksum lines")
            res.update(zip(s_, lines))
    return res


def _c_block_sums(exe, blocks, timeout=3000):
    """Blocks need not be contiguous: contiguous runs are merged into one invocation each, spread over slices."""
    runs = []
    for b in blocks:
        if runs and runs[-1][0] + runs[-1][1] == b and runs[-1][1] < max(1, len(blocks) // NSLICES):
            runs[-1][1] += 1
        else:
            runs.append([b, 1])
    res = {}
    for i in range(0, len(runs), NSLICES):
        part = runs[i:i + NSLICES]
        outs = _parallel([[str(exe), "sum", f"{b * BLOCK:x}", f"{BLOCK:x}", str(n)] for b, n in part], timeout)
        for (b, n), o in zip(part, outs):
            lines = o.split()
            if len(lines) != n:
                raise RuntimeError("C program: wrong number of checksum lines")
            for k in range(n):
                res[b + k] = lines[k]
    return res


def _bisect(drv, exe, block, fn="pack"):
    start, count = block * BLOCK, BLOCK
    while count > 1:
        half = count // 2
        m = drv.ask([f"sum {fn} {start:x} {half:x}"])[0]
        c = _run([str(exe), "sum", f"{start:x}", f"{half:x}", "1"], 120).stdout.decode().strip()
        if m != c:
            count = half
        else:
            start, count = start + half, count - half
    return start


def _spec_sweep(ctx, exe, target, ranges, timeout=3000):
    """Failing-input search inside the compiled program over whole ranges; returns aggregated statistics."""
    agg = {"viol": 0, "nonnearest": 0, "ties": 0, "diff_rne": 0, "diff_not_tie": 0, "tie_rnedown_same": 0, "mono": 0, "inputs": 0}
    for i in range(0, len(ranges), NSLICES):
        part = ranges[i:i + NSLICES]
        outs = _parallel([[str(exe), "spec", f"{s:x}", f"{c:x}"] for s, c in part], timeout)
        for (s, c), o in zip(part, outs):
            f = dict(kv.split("=", 1) for kv in o.split())
            for k in agg:
                if k != "inputs":
                    agg[k] += int(f[k])
            agg["inputs"] += c
            if int(f["viol"]):
                for item in f["first"].split(","):
                    xh, kind = item.split(":")
                    out = _pack_list(exe, array.array("I", [int(xh, 16)]))[0][0]
                    _fail(ctx, "f16-pack-" + kind, target, f"float16 pack violates '{kind}' (double-precision reference in the sweep)",
                          {"target": target, "x": "0x" + xh, "out": hex(out), "range": [hex(s), hex(c)]})
    return agg


def run_float(ctx, drivers=None):
    rng = ctx.rng
    quick = ctx.quick
    t0 = time.time()
    drv = (drivers or {}).get("float16")
    if drv is None:
        ok, log = ctx.lake(["float16"])
        if ok:
            drv = common.Driver(common.LEAN / ".lake" / "build" / "bin" / "float16")
        else:
            ctx.broken.append({"kind": "driver-build", "exes": ["float16"], "log_tail": log[-2000:]})
    ctx.assumptions = list(ctx.assumptions) + [
        "float16: the target's binary32 multiplication is IEEE-754 round-to-nearest-even with gradual underflow (modelled by f32mul; "
        "validated against the hardware multiply on random operand pairs and, through pack/unpack, on every swept input)",
        "float16: float <-> uint32 reinterpretation through a union is the identity on bit patterns (x86-64 SSE; no x87 excess precision, no FTZ/DAZ)",
        "float16/Python: struct.pack('<e') is IEEE round-to-nearest-even (modelled by packRne, validated on the sampled inputs)",
    ]
    ensure_numpy(ctx)
    import numpy as np

    # ---- generated code of the tree under check ---------------------------------------------------------------
    out_c = gen_support(ctx, "c")
    out_cpp = gen_support(ctx, "cpp")
    out_py = gen_support(ctx, "py")
    variants = [("c-gcc-O0", "gcc", "c11", "-O0", out_c, "c14_float_main.c"),
                ("c-gcc-O2", "gcc", "c11", "-O2", out_c, "c14_float_main.c"),
                ("cpp-g++14-O2", "g++", "c++14", "-O2", out_cpp, "c14_float_main.cpp")]
    if not quick:
        variants += [("c-clang-O2", "clang", "c11", "-O2", out_c, "c14_float_main.c"),
                     ("c-clang-O0", "clang", "c11", "-O0", out_c, "c14_float_main.c"),
                     ("cpp-g++17-O0", "g++", "c++17", "-O0", out_cpp, "c14_float_main.cpp"),
                     ("cpp-g++20-O2", "g++", "c++20", "-O2", out_cpp, "c14_float_main.cpp"),
                     ("cpp-clang++17-O2", "clang++", "c++17", "-O2", out_cpp, "c14_float_main.cpp")]
    exes = {}
    procs = []
    for v in variants:
        exes[v[0]] = build(ctx, *v)
    ref_exe = exes["c-gcc-O2"]
    ctx.extra["f16_variants"] = [v[0] for v in variants] + ["python"]
    shapes = recognise_shapes(ctx)
    for lang in ("c", "cpp"):
        if shapes.get(lang) is None:
            # unrecognised template (already recorded as a broken obligation): still run everything, against the model that
            # agrees on the classic tie input, so that the failing-input search decides whether the property is violated
            probe = _pack_list(exes["c-gcc-O2" if lang == "c" else "cpp-g++14-O2"], array.array("I", [0x3F801000]))[0][0]
            shapes[lang] = "ties-away" if probe == 0x3C01 else "rne"
    fn_of = {name: PACK_MODEL[shapes["cpp" if name.startswith("cpp") else "c"]] for name in exes}
    ctx.extra["f16_model_per_variant"] = fn_of
    ctx.extra["f16_theorem_set"] = {"pack": "C14_pack_* (packer as shipped, ties away from zero)", "rnec": "C14_packRneC_* (repaired packer, ties to even)"}

    # ---- unpack: all 2^16 patterns, every variant ----------------------------------------------------------------
    model_unpack = None
    if drv is not None:
        model_unpack = [int(a, 16) for a in drv.ask([f"unpack {h:x}" for h in range(65536)])]
    for name, exe in exes.items():
        p = _run([str(exe), "unpack-all"], 120)
        got = array.array("I")
        got.frombytes(p.stdout)
        direct, wrapped = got[:65536], got[65536:]
        for h in range(65536):
            if direct[h] != wrapped[h]:
                _fail(ctx, "f16-get-wrapper", name, "GetF16 differs from Float16Unpack(GetU16)", {"target": name, "h": hex(h), "direct": hex(direct[h]), "wrapped": hex(wrapped[h])})
                break
        if model_unpack is not None:
            ctx.traces += 65536
            for h in range(65536):
                if direct[h] != model_unpack[h]:
                    ctx.disagree("unpack:" + name, hex(h), hex(model_unpack[h]), hex(direct[h]))
                    if len(ctx.disagreements) > 50:
                        break
        # failing-input search (compiled double-precision reference): exactness, sign, inf/NaN, round trip
        f = dict(kv.split("=", 1) for kv in _run([str(exe), "spec-unpack"], 120).stdout.decode().split())
        if int(f["viol"]):
            h, kind = f["first"].split(":")
            _fail(ctx, "f16-unpack-" + kind, name, f"float16 unpack/round trip violates '{kind}' on {f['viol']} pattern(s)", {"target": name, "h": "0x" + h})
        ctx.cases += 65536
    ctx.count("unpack_patterns_per_variant", 65536)
    # independent check of the unpacked values against NumPy's float16 on the reference build
    p = _run([str(ref_exe), "unpack-all"], 120)
    got = np.frombuffer(p.stdout, dtype=np.uint32)[:65536]
    hv = np.arange(65536, dtype=np.uint16).view(np.float16).astype(np.float32)
    with np.errstate(all="ignore"):
        same = (got == hv.view(np.uint32)) | (np.isnan(hv) & np.isnan(got.view(np.float32)) & ((got >> 31) == (np.arange(65536) >> 15)))
    if not same.all():
        h = int(np.argmin(same))
        _fail(ctx, "f16-unpack-inexact", "c-gcc-O2", "unpacked value differs from the value of the half (NumPy reference)", {"target": "c-gcc-O2", "h": hex(h), "got": hex(int(got[h]))})

    # ---- pack: stratified set, every variant vs the model + NumPy / Fraction spec ---------------------------------
    xs = stratified_inputs(rng, 150000 if quick else 1500000, quick)
    n = len(xs)
    ctx.extra["f16_pack_stratified_inputs"] = n
    model_pack = {}
    if drv is not None:
        for fn in sorted(set(fn_of.values())):
            model_pack[fn] = [int(a, 16) for a in drv.ask([f"{fn} {x:x}" for x in xs], timeout=1200)]
    frac_idx = [rng.randrange(n) for _ in range(3000 if quick else 20000)] + list(range(0, min(n, 256 * len(MANT) * 2), 37))
    for name, exe in exes.items():
        direct, wrapped = _pack_list(exe, xs)
        for i in range(n):
            if direct[i] != wrapped[i]:
                _fail(ctx, "f16-set-wrapper", name, "SetF16 does not write Float16Pack(value) into exactly the addressed 16 bits",
                      {"target": name, "x": hex(xs[i]), "direct": hex(direct[i]), "wrapped": hex(wrapped[i])})
                break
        if model_pack:
            ctx.traces += n
            nd = 0
            mp = model_pack[fn_of[name]]
            for i in range(n):
                if direct[i] != mp[i]:
                    ctx.disagree("pack:" + name, hex(xs[i]), hex(mp[i]), hex(direct[i]))
                    nd += 1
                    if nd > 20:
                        break
        _numpy_spec(ctx, name, xs, direct, nearest_required=False)
        _fraction_spec(ctx, name, xs, direct, frac_idx if name == "c-gcc-O2" else frac_idx[:500])
        ctx.cases += n
    for i in range(0, n, max(1, n // 150000)):
        a = xs[i] & 0x7FFFFFFF
        ctx.case(("pack", xs[i]), 0x32000000 <= a < 0x7F800000)
    ctx.sample({"op": "pack", "x": hex(xs[0x1234]), "c": hex(_pack_list(ref_exe, xs[0x1234:0x1235])[0][0])})
    ctx.sample({"op": "pack", "x": "0x3f801000", "c": hex(_pack_list(ref_exe, array.array("I", [0x3F801000]))[0][0]), "note": "tie 1+2^-11"})
    ctx.sample({"op": "pack", "x": "0x477ff000", "c": hex(_pack_list(ref_exe, array.array("I", [0x477FF000]))[0][0]), "note": "65520"})

    # ---- the modelled hardware multiplication -------------------------------------------------------------------
    if drv is not None:
        ps = mul_pairs(rng, 100000 if quick else 1500000)
        for name in (["c-gcc-O2"] if quick else ["c-gcc-O2", "c-gcc-O0", "c-clang-O2"]):
            p = _run([str(exes[name]), "mul-list"], 600, input=ps.tobytes())
            hw = array.array("I")
            hw.frombytes(p.stdout)
            md = drv.ask([f"mul {ps[2 * i]:x} {ps[2 * i + 1]:x}" for i in range(len(ps) // 2)], timeout=1200)
            ctx.traces += len(md)
            nd = 0
            for i, m in enumerate(md):
                if int(m, 16) != hw[i]:
                    ctx.disagree("f32mul:" + name, [hex(ps[2 * i]), hex(ps[2 * i + 1])], m, hex(hw[i]))
                    nd += 1
                    if nd > 10:
                        break
            sub = sum(1 for v in hw if 0 < v < 0x00800000)
            ctx.count("f32mul_pairs:" + name, len(md))
            ctx.count("f32mul_subnormal_results:" + name, sub)
            ctx.count("f32mul_overflow_results:" + name, sum(1 for v in hw if v == 0x7F800000))
            # the modelled addition (used by the repaired packer only; tied in either case)
            p = _run([str(exes[name]), "add-list"], 600, input=ps.tobytes())
            hw = array.array("I")
            hw.frombytes(p.stdout)
            md = drv.ask([f"add {ps[2 * i]:x} {ps[2 * i + 1]:x}" for i in range(len(ps) // 2)], timeout=1200)
            ctx.traces += len(md)
            nd = 0
            for i, m in enumerate(md):
                if int(m, 16) != hw[i]:
                    ctx.disagree("f32add:" + name, [hex(ps[2 * i]), hex(ps[2 * i + 1])], m, hex(hw[i]))
                    nd += 1
                    if nd > 10:
                        break
            ctx.count("f32add_pairs:" + name, len(md))

    # ---- pack: block checksums (sample in quick, ALL 2^32 inputs in thorough) ------------------------------------
    if quick:
        must = [0x000, 0x001, 0x32F, 0x330, 0x337, 0x338, 0x387, 0x388, 0x3F8, 0x477, 0x478, 0x7F7, 0x7F8, 0x7FF]
        blocks = sorted(set(must + [b + 0x800 for b in must] + [rng.randrange(4096) for _ in range(100)]))
    else:
        blocks = list(range(4096))
    sums = {}
    tsw = time.time()
    for name, exe in exes.items():
        sums[name] = _c_block_sums(exe, blocks)
    ctx.extra["f16_c_sweep_s"] = round(time.time() - tsw, 1)
    ref = sums["c-gcc-O2"]
    for name, s in sums.items():
        for b in blocks:
            if s[b] != ref[b]:
                ctx.disagree("pack-sweep:variants", {"block": hex(b), "variant": name}, ref[b], s[b])
                break
    covered = 0
    if drv is not None:
        tsw = time.time()
        budget = None if quick else float(os.environ.get("VERIF_C14F_LEAN_BUDGET_S", "600"))
        lean = {fn: _lean_block_sums(drv, blocks, fn, budget_s=budget) for fn in sorted(set(fn_of.values()))}
        ctx.extra["f16_lean_sweep_s"] = round(time.time() - tsw, 1)
        covered = min(len(v) for v in lean.values())
        for name, s in sums.items():
            lf = lean[fn_of[name]]
            bad = [b for b in lf if s[b] != lf[b]]
            ctx.traces += len(lf) * BLOCK
            for b in bad[:3]:
                x = _bisect(drv, exes[name], b, fn_of[name])
                m = drv.ask([f"{fn_of[name]} {x:x}"])[0]
                c = _pack_list(exes[name], array.array("I", [x]))[0][0]
                ctx.disagree("pack-sweep:" + name, hex(x), m, hex(c))
    ctx.extra["f16_pack_sweep"] = {"blocks_of_2^20": len(blocks), "inputs": len(blocks) * BLOCK,
                                   "compiled_variants_compared_on_all_2^32": len(blocks) == 4096,
                                   "lean_model_blocks": covered, "lean_model_inputs": covered * BLOCK,
                                   "lean_model_on_all_2^32": covered == 4096,
                                   "note": "blocks are visited in bit-reversed order; a Lean sweep cut short by the time budget still covers every exponent; "
                                           "the compiled builds are always compared with each other and with the double-precision specification on every block",
                                   "variants": list(sums), "lean_model_included": drv is not None}
    ctx.cases += len(blocks) * BLOCK * len(sums)
    for b in blocks:
        ctx.nontrivial.add(("blk", b).__repr__().encode())

    # ---- failing-input search over the swept ranges, in the compiled program (independent double reference) -------
    ranges = [(b * BLOCK, BLOCK) for b in blocks] if quick else [(i << 28, 1 << 28) for i in range(16)]
    if not quick:
        ranges = [(i << 26, 1 << 26) for i in range(64)]
    tsw = time.time()
    stat = _spec_sweep(ctx, ref_exe, "c-gcc-O2", ranges)
    stat_cpp = _spec_sweep(ctx, exes["cpp-g++14-O2"], "cpp-g++14-O2", ranges)
    ctx.extra["f16_spec_sweep_s"] = round(time.time() - tsw, 1)
    ctx.extra["f16_spec_sweep"] = {"c": stat, "cpp": stat_cpp}
    # F14 (cross-target, belongs to C03): where do C/C++ differ from round-to-nearest-even?  Recorded, not a C14 failure.
    ctx.extra["f14_record"] = {
        "inputs_swept": stat["inputs"], "ties": stat["ties"], "c_differs_from_RNE": stat["diff_rne"],
        "differences_that_are_not_ties": stat["diff_not_tie"], "ties_where_RNE_rounds_down_but_C_agrees": stat["tie_rnedown_same"],
        "template_shape": shapes,
        "reading": ("ties-away shape: C/C++ differ from round-to-nearest-even exactly on the ties whose even neighbour is the lower one "
                    "(every tie rounds away from zero); rne shape: no input differs"),
    }

    # ---- F32 / F64 wrappers (bit-pattern identity, little-endian image, unaligned round trip) ------------------------
    w32 = array.array("I", [0, 0x80000000, 1, 0x7F800000, 0xFF800000, 0x7FC00000, 0x7F800001, 0xFFFFFFFF, 0x3F800000] + [rng.getrandbits(32) for _ in range(2000)])
    w64 = array.array("Q", [0, 1 << 63, 1, 0x7FF0000000000000, 0xFFF0000000000000, 0x7FF8000000000000, 0x7FF0000000000001, (1 << 64) - 1] + [rng.getrandbits(64) for _ in range(2000)])
    for name, exe in exes.items():
        o = _run([str(exe), "wrap32"], 120, input=w32.tobytes()).stdout
        for i, v in enumerate(w32):
            img, back = o[8 * i:8 * i + 4], struct.unpack_from("<I", o, 8 * i + 4)[0]
            if img != struct.pack("<I", v) or back != v:
                _fail(ctx, "f32-wrapper", name, "SetF32/GetF32 is not the identity on bit patterns / little-endian image",
                      {"target": name, "x": hex(v), "image": img.hex(), "back": hex(back)})
                break
        o = _run([str(exe), "wrap64"], 120, input=w64.tobytes()).stdout
        for i, v in enumerate(w64):
            img, back = o[16 * i:16 * i + 8], struct.unpack_from("<Q", o, 16 * i + 8)[0]
            if img != struct.pack("<Q", v) or back != v:
                _fail(ctx, "f64-wrapper", name, "SetF64/GetF64 is not the identity on bit patterns / little-endian image",
                      {"target": name, "x": hex(v), "image": img.hex(), "back": hex(back)})
                break
        ctx.cases += len(w32) + len(w64)

    # ---- the generated Python support module -------------------------------------------------------------------
    _python_target(ctx, drv, out_py, xs, model_unpack, quick)
    ctx.extra["f16_wall_s"] = round(time.time() - t0, 1)
    rule = ("float16: unpack on all 2^16 patterns per build; pack on a stratified set (every exponent x mantissa boundaries, every "
            "half-midpoint and every half +-1 pattern, both signs, specials, seeded random) per build and per-2^20-block checksums "
            + ("of a block sample" if quick else "of ALL 4096 blocks (= all 2^32 inputs)") +
            " against the Lean model (Lean side of the full sweep is cut at VERIF_C14F_LEAN_BUDGET_S, default 600 s; see f16_pack_sweep)"
            "; non-trivial = finite input with |x| >= 2^-27 (rounding actually happens); distinct by input pattern / block")
    ctx.rule = (ctx.rule + " || " if ctx.rule else "") + rule


def _python_target(ctx, drv, out_py, xs, model_unpack, quick):
    import numpy as np
    spec = importlib.util.spec_from_file_location("c14f_nunavut_support", str(out_py / "nunavut_support.py"))
    mod = importlib.util.module_from_spec(spec)
    sys.modules["c14f_nunavut_support"] = mod
    spec.loader.exec_module(mod)
    name = "python"
    # unpack: all 2^16 patterns through Deserializer.fetch_aligned_f16 and fetch_unaligned_f16
    raw = np.arange(65536, dtype="<u2").tobytes()
    des = mod.Deserializer.new([memoryview(raw)])
    vals = [des.fetch_aligned_f16() for _ in range(65536)]
    shifted = (int.from_bytes(raw, "little") << 3).to_bytes(len(raw) + 1, "little")
    des2 = mod.Deserializer.new([memoryview(shifted)])
    des2.skip_bits(3)
    vals2 = [des2.fetch_unaligned_f16() for _ in range(65536)]
    for h in range(65536):
        v, v2 = vals[h], vals2[h]
        hm = h & 0x7FFF
        if hm > 0x7C00:
            okv = math.isnan(v) and math.isnan(v2)
            expect = "nan"
        else:
            hvq = half_value(hm)
            want = math.inf if hvq is None else float(hvq)
            want = -want if h >> 15 else want
            okv = (v == want and math.copysign(1.0, v) == math.copysign(1.0, want)) and (v2 == want and math.copysign(1.0, v2) == math.copysign(1.0, want))
            expect = repr(want)
        if not okv:
            _fail(ctx, "f16-unpack-inexact", name, "fetch_*_f16 does not return the value of the half", {"target": name, "h": hex(h), "got": repr(v), "got_unaligned": repr(v2), "expected": expect})
            break
        if model_unpack is not None:
            mv = f32(model_unpack[h])
            ctx.traces += 1
            if not ((math.isnan(mv) and math.isnan(v)) or (mv == v and math.copysign(1.0, mv) == math.copysign(1.0, v))):
                ctx.disagree("unpack:python", hex(h), hex(model_unpack[h]), repr(v))
    ctx.cases += 65536
    # pack: a slice of the stratified set through Serializer.add_aligned_f16 / add_unaligned_f16
    npk = len(xs) if not quick else min(len(xs), 260000)
    step = max(1, len(xs) // npk)
    sub = array.array("I", [xs[i] for i in range(0, len(xs), step)])
    with np.errstate(all="ignore"):
        fl = np.frombuffer(sub.tobytes(), dtype=np.uint32).view(np.float32).astype(np.float64).tolist()
    ser = mod.Serializer.new(2 * len(sub))
    add = ser.add_aligned_f16
    for v in fl:
        add(v)
    outs = np.frombuffer(ser.buffer.tobytes(), dtype="<u2").astype(np.uint32).tolist()
    m = min(len(sub), 30000)
    ser2 = mod.Serializer.new(2 * m + 1)
    ser2.add_unaligned_bit(True)
    for v in fl[:m]:
        ser2.add_unaligned_f16(v)
    big = int.from_bytes(ser2.buffer.tobytes(), "little") >> 1
    outs2 = [(big >> (16 * i)) & 0xFFFF for i in range(m)]
    for i in range(m):
        if outs[i] != outs2[i]:
            _fail(ctx, "f16-set-wrapper", name, "add_unaligned_f16 and add_aligned_f16 disagree", {"target": name, "x": hex(sub[i]), "aligned": hex(outs[i]), "unaligned": hex(outs2[i])})
            break
    if drv is not None:
        model_rne = [int(a, 16) for a in drv.ask([f"rne {x:x}" for x in sub], timeout=1200)]
        ctx.traces += len(sub)
        nd = 0
        for i in range(len(sub)):
            if outs[i] != model_rne[i]:
                ctx.disagree("pack:python", hex(sub[i]), hex(model_rne[i]), hex(outs[i]))
                nd += 1
                if nd > 20:
                    break
    _numpy_spec(ctx, name, sub, outs, nearest_required=False)
    _fraction_spec(ctx, name, sub, outs, [ctx.rng.randrange(len(sub)) for _ in range(2000)])
    ctx.cases += len(sub)
    ctx.sample({"op": "pack", "x": "0x3f801000", "python": hex(outs2[0] if False else _py_pack_one(mod, f32(0x3F801000))), "note": "tie 1+2^-11 (F14: C gives 0x3c01)"})
    # doubles that are not singles: out-of-range magnitudes and the OverflowError branch of _float_to_bytes
    for v, want in ((1e300, 0x7C00), (-1e300, 0xFC00), (65519.99999999999, 0x7BFF), (65520.0, 0x7C00), (-65520.0, 0xFC00), (1e-300, 0), (-1e-300, 0x8000)):
        got = _py_pack_one(mod, v)
        if got != want:
            _fail(ctx, "f16-pack-overflow", name, "double argument outside the half range is not mapped as documented", {"target": name, "x": repr(v), "out": hex(got), "expected": hex(want)})
    # f32 / f64
    ser = mod.Serializer.new(16)
    ser.add_aligned_f32(1e300)
    ser.add_aligned_f32(-1e300)
    ser.add_aligned_f64(1e300)
    b = ser.buffer.tobytes()
    if b[:8] != struct.pack("<ff", math.inf, -math.inf) or b[8:16] != struct.pack("<d", 1e300):
        _fail(ctx, "f32-wrapper", name, "add_aligned_f32 does not map out-of-range doubles to infinity / f64 is not the identity", {"target": name, "image": b.hex()})
    pats = [ctx.rng.getrandbits(32) for _ in range(2000)]
    ser = mod.Serializer.new(4 * len(pats))
    keep = []
    for p_ in pats:
        v = f32(p_)
        if not math.isnan(v):
            ser.add_aligned_f32(v)
            keep.append(p_)
    if ser.buffer.tobytes() != b"".join(struct.pack("<I", p_) for p_ in keep):
        _fail(ctx, "f32-wrapper", name, "add_aligned_f32 is not the identity on single values", {"target": name})
    des = mod.Deserializer.new([memoryview(b"".join(struct.pack("<I", p_) for p_ in keep))])
    back = [des.fetch_aligned_f32() for _ in keep]
    if [bits32(v) for v in back] != keep:
        _fail(ctx, "f32-wrapper", name, "fetch_aligned_f32 is not the identity on single values", {"target": name})


def _py_pack_one(mod, v):
    ser = mod.Serializer.new(2)
    ser.add_aligned_f16(v)
    return int.from_bytes(ser.buffer.tobytes(), "little")


def run(ctx):
    """Stand-alone entry (testing): `./check c14_float`."""
    drivers = ctx.prove(PROPERTY_MODULES, exes=EXES)
    run_float(ctx, drivers)


def replay_float(ctx, rp):
    """Re-run one recorded failing input on the real generated code; returns 1 if it still fails."""
    tgt = rp.get("target", "c-gcc-O2")
    if "x" not in rp or tgt == "python" or not str(rp["x"]).startswith("0x"):
        print("nothing to replay on compiled code for this record")
        return 1
    lang = "cpp" if tgt.startswith("cpp") else "c"
    out = gen_support(ctx, lang)
    exe = build(ctx, "replay", "g++" if lang == "cpp" else "gcc", "c++14" if lang == "cpp" else "c11", "-O2", out,
                "c14_float_main.cpp" if lang == "cpp" else "c14_float_main.c")
    x = int(rp["x"], 16)
    o = _pack_list(exe, array.array("I", [x]))[0][0]
    kind, nn = spec_check_fraction(x, o)
    print(json.dumps({"x": hex(x), "out": hex(o), "defect": kind, "not_nearest": nn}))
    return 1 if kind else 0


def replay(ctx, path):
    r = json.loads(open(path).read())
    return replay_float(ctx, r.get("replay", {}))
