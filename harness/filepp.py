"""
C10 — file post-processors (SetFileMode, ExternalProgramEditInPlace) and the order of post-processing: tie of
lean/NunavutVerif/Model/FilePP.lean (driver `tpl`, ops `fpp` / `cliobjs`) with the real code, and the failing-input search.

* `cliobjs`: the real `ArgparseRunner._build_post_processor_list_from_args` on really parsed command lines vs `cliObjs`.
* `fpp`: real `DSDLCodeGenerator` + `SupportGenerator` sharing one post-processor list (create_default_generators, as the
  CLI), real `_generate_code` / `SupportGenerator.generate_all` -> `_copy_header` on sequences of files, with the real
  `SetFileMode` / `ExternalProgramEditInPlace`, recording line post-processors, recording (and renaming) user file
  post-processors, objects of neither kind, pre-existing files, allow_overwrite on/off, a recording external program
  (corpus/C10/tools/record_argv.{py,sh}: logs its complete command line, appends a marker that states the permission bits
  it saw, optionally edits every file it is given, optionally fails) — against `runWorld`: the ordered trace (resets, line
  post-processor order, command line of every invocation, user post-processor calls), the exception class, and bytes +
  permission bits of every file afterwards.
* property on the implementation: a file generated in company (any position) vs alone by fresh objects from the same
  initial state: same invocations naming it, same bytes, same permission bits.
"""
import itertools
import json
import os
import pathlib
import shutil
import stat
import subprocess
import tempfile

from . import common
from .common import enc, dec

TOOLS = common.VERIF / "corpus" / "C10" / "tools"
REC_PY = TOOLS / "record_argv.py"
REC_SH = TOOLS / "record_argv.sh"
DEFMODE = 0o644


def enc_list(xs, empty="-"):
    return ",".join(enc(x) for x in xs) if xs else empty


# ---- object descriptions -------------------------------------------------------------------------------------------------
# ("L", k) | ("M", mode) | ("X", check, [cmd...]) | ("C", k) | ("U", k)
def obj_token(o):
    if o[0] == "X":
        return f"X{1 if o[1] else 0}:" + (enc_list(o[2], "!"))
    return f"{o[0]}{o[1]}"


def objs_token(objs):
    return ";".join(obj_token(o) for o in objs) if objs else "-"


def describe_real(pp):
    import nunavut._postprocessors as npp
    if isinstance(pp, npp.TrimTrailingWhitespace):
        return ("L", 0)
    if isinstance(pp, npp.LimitEmptyLines):
        return ("L", 1)
    if isinstance(pp, npp.SetFileMode):
        return ("M", pp._file_mode)
    if isinstance(pp, npp.ExternalProgramEditInPlace):
        return ("X", bool(pp._check), [str(x) for x in pp._command_line])
    return ("U", 0)


class Real:
    """Real generators sharing one post-processor list; recording objects; one output directory per case."""

    def __init__(self, workdir: pathlib.Path):
        import nunavut
        from nunavut._generators import create_default_generators
        from nunavut.lang import LanguageContextBuilder
        self.work = pathlib.Path(tempfile.mkdtemp(dir=workdir))
        (self.work / "ns").mkdir()
        self.outroot = self.work / "o"
        lctx = LanguageContextBuilder(include_experimental_languages=True).set_target_language("html").create()
        self.ns = nunavut.build_namespace_tree([], str(self.work / "ns"), str(self.outroot), lctx)
        self.shared = []
        self.gen, self.sup = create_default_generators(self.ns, post_processors=self.shared)
        if self.gen._post_processors is not self.shared or self.sup._post_processors is not self.shared:
            raise RuntimeError("the generators no longer share the post-processor list they are given")
        self.ext = lctx.get_target_language().extension
        self.sup_dir = pathlib.Path(self.ns.get_support_output_folder()) / self.sup._sub_folders
        self.n = 0

    def fresh_case(self):
        self.n += 1
        shutil.rmtree(self.outroot, ignore_errors=True)
        self.outroot.mkdir(parents=True)
        self.log = self.work / f"log{self.n}.jsonl"
        self.res = self.work / f"res{self.n}"
        self.res.mkdir()
        return self

    def path_of(self, job):
        """absolute output path of a job ("G"/"S": relative name below the output root; "K": resource name)."""
        if job["kind"] == "K":
            return (self.sup_dir / job["name"]).with_suffix(self.ext)
        return self.outroot / job["name"]

    def make_objects(self, objs):
        import nunavut._postprocessors as npp
        log = self.log

        def rec(entry):
            with open(log, "a", encoding="utf-8") as f:
                f.write(json.dumps(entry) + "\n")

        class RecLine(npp.LinePostProcessor):
            def __init__(self, k):
                self.k = k

            def reset(self):
                rec({"ev": "reset", "k": self.k})

            def __call__(self, t):
                rec({"ev": "line", "k": self.k})
                return t

        class RecFile(npp.FilePostProcessor):
            def __init__(self, k):
                self.k = k

            def __call__(self, generated):
                rec({"ev": "custom", "k": self.k, "path": str(generated)})
                if self.k >= 10:
                    new = pathlib.Path(str(generated) + f".{self.k}")
                    generated.rename(new)
                    return new
                return generated

        class Neither(npp.PostProcessor):
            def __call__(self, generated):
                rec({"ev": "neither-called"})
                return generated

        out = []
        for o in objs:
            if o[0] == "L":
                out.append(RecLine(o[1]))
            elif o[0] == "M":
                out.append(npp.SetFileMode(o[1]))
            elif o[0] == "X":
                out.append(npp.ExternalProgramEditInPlace(list(o[2]), check=o[1]))
            elif o[0] == "C":
                out.append(RecFile(o[1]))
            else:
                out.append(Neither())
        return out

    def run(self, objs, init, segments):
        """-> (events, err, fs{path: (bytes, mode) | None}).  segments: [("G"|"S", [job…]) | ("K", [job…])]; job = dict(kind, name, text, allow[, srcmode])"""
        self.shared[:] = self.make_objects(objs)
        for path, (b, m) in init.items():
            p = pathlib.Path(path)
            p.parent.mkdir(parents=True, exist_ok=True)
            p.write_bytes(b.encode("utf-8"))
            p.chmod(m)
        err = None
        try:
            for kind, jobs in segments:
                if kind in ("G", "S"):
                    g = self.gen if kind == "G" else self.sup
                    for j in jobs:
                        g._generate_code(self.path_of({**j, "kind": kind}), None, (c for c in [j["text"]]), j["allow"])
                else:
                    resources = []
                    for j in jobs:
                        r = self.res / j["name"]
                        r.write_bytes(j["text"].encode("utf-8"))
                        r.chmod(j["srcmode"])
                        resources.append(r)
                    self.sup._get_resources = lambda omit, resources=resources: list(resources)
                    try:
                        self.sup.generate_all(False, jobs[0]["allow"], False, False)
                    finally:
                        del self.sup._get_resources
        except ValueError:
            err = "valueError"
        except PermissionError:
            err = "permissionError"
        except FileNotFoundError:
            err = "fileNotFound"
        except subprocess.CalledProcessError:
            err = "calledProcessError"
        raw = [json.loads(l) for l in self.log.read_text().splitlines()] if self.log.exists() else []
        nline = sum(1 for o in objs if o[0] == "L")
        events, i = [], 0
        while i < len(raw):
            e = raw[i]
            if e.get("ev") == "line":
                ks = []
                while i < len(raw) and raw[i].get("ev") == "line":
                    ks.append(raw[i]["k"]); i += 1
                per = ks[:nline]
                events.append(["write", per] if nline and ks == per * (len(ks) // nline) else ["write-irregular", ks])
                continue
            if "argv" in e:
                events.append(["exec", e["argv"], e["mode"]])
            elif e["ev"] == "reset":
                events.append(["reset", e["k"]])
            elif e["ev"] == "custom":
                events.append(["custom", e["k"], e["path"]])
            else:
                events.append([e["ev"]])
            i += 1
        return events, err

    def stat(self, path):
        p = pathlib.Path(path)
        if not p.is_file():
            return None
        return [p.read_bytes().decode("utf-8", "replace"), stat.S_IMODE(p.stat().st_mode)]


def flatten(real, segments):
    jobs = []
    for kind, js in segments:
        for j in js:
            jobs.append({**j, "kind": kind, "path": str(real.path_of({**j, "kind": kind}))})
    return jobs


def fpp_line(py, objs, init, jobs, query, inplace=False, stub_all=False, fail_on=()):
    ini = ";".join(f"{enc(p)}:{enc(b)}:{m}" for p, (b, m) in init.items()) or "-"
    js = ";".join(f"{'G' if j['kind'] in ('G', 'S') else 'K' + str(j['srcmode'])}:{1 if j['allow'] else 0}:{enc(j['path'])}:{enc(j['text'])}" for j in jobs) or "-"
    return (f"fpp {1 if inplace else 0} {DEFMODE} {1 if stub_all else 0} {enc_list(list(fail_on))} {enc(py)} {objs_token(objs)} {ini} {js} "
            f"{enc_list(query)}")


def parse_fpp(ans):
    """-> (events comparable with Real.run's, err, fs)"""
    parts = dict(x.split("=", 1) for x in ans.split("|"))
    events = []
    for t in ([] if parts["log"] == "-" else parts["log"].split(";")):
        f = t.split(":")
        if f[0] == "reset":
            events.append(["reset", int(f[1])])
        elif f[0] == "write":
            lps = [] if f[3] == "-" else [int(x) for x in f[3].split(",")]
            if lps and dec(f[2]) != "":
                events.append(["write", lps])
        elif f[0] == "exec":
            events.append(["exec", [] if f[2] == "!" else [dec(x) for x in f[2].split(",")]])
        elif f[0] == "custom":
            events.append(["custom", int(f[1]), dec(f[2])])
    fs = {}
    for t in ([] if parts["fs"] == "-" else parts["fs"].split(",")):
        f = t.split(":")
        fs[dec(f[0])] = None if f[1] == "none" else [dec(f[1]), int(f[2])]
    return events, (None if parts["err"] == "none" else parts["err"]), fs


def ext_cmd(real, tool, stub_all, fail_on, extra=()):
    cmd = [str(tool), "--log", str(real.log)]
    if stub_all:
        cmd.append("--all")
    for p in fail_on:
        cmd += ["--fail-on", p]
    return cmd + list(extra)


def run(ctx, drv):
    import sys
    rng = ctx.rng
    if drv is None:
        return
    # ---- (e1) the command line's list ------------------------------------------------------------------------------------
    try:
        import nunavut.cli
        from nunavut.cli.runners import ArgparseRunner
        cases = []
        for trim, limit, prog, pargs, mode in itertools.product((False, True), (None, 0, 2), (None, "fmt.py", "/usr/bin/tool"), (None, ["-i"], ["--style=x", "b c"]),
                                                                (None, 0o644, 0o400)):
            argv = ["--outdir", "o", "ns"]
            if trim:
                argv.append("--pp-trim-trailing-whitespace")
            if limit is not None:
                argv += ["--pp-max-emptylines", str(limit)]
            if prog is not None:
                argv += ["--pp-run-program", prog]
            for a in pargs or []:
                argv.append(f"--pp-run-program-arg={a}")
            if mode is not None:
                argv += ["--file-mode", oct(mode)]
            cases.append((argv, trim, limit, prog, pargs, mode))
        lines, reals = [], []
        for argv, trim, limit, prog, pargs, mode in cases:
            args = nunavut.cli._make_parser().parse_args(argv)
            r = ArgparseRunner.__new__(ArgparseRunner)
            r._args = args
            reals.append([describe_real(pp) for pp in r._build_post_processor_list_from_args()])
            # without --pp-run-program the arguments are ignored
            lines.append(f"cliobjs {1 if trim else 0} {0 if limit is None else 1} {enc(prog) if prog is not None else '!'} "
                         f"{enc_list(pargs or []) if prog is not None else '-'} {0o444 if mode is None else mode}")
        for (argv, *_), real_objs, a in zip(cases, reals, drv.ask(lines)):
            ctx.traces += 1
            ctx.case(("cliobjs", tuple(argv)), nontrivial=len(real_objs) >= 2)
            ctx.count("filepp_cli_lists")
            if objs_token(real_objs) != a:
                ctx.disagree("cli-post-processor-list", {"argv": argv}, a, objs_token(real_objs))
    except Exception as e:  # noqa
        ctx.broken.append({"kind": "impl-call", "what": "cli post-processor list tie", "error": repr(e)[:500]})

    # ---- (e2) sequences of files through the real generators ----------------------------------------------------------------
    old_umask = os.umask(0o022)
    try:
        R = Real(ctx.scratch)
        py = sys.executable
        pool_quick = [("L", 0), ("M", 0o444), ("X", True, "py"), ("X", False, "sh-all"), ("C", 10), ("U", 7)]
        pool_more = [("L", 1), ("M", 0o640), ("X", True, "sh"), ("X", True, "py-all"), ("C", 3), ("X", False, "py-fail"), ("X", True, "py-fail")]
        cases = []   # (objs spec, init names, segments)
        seqs = [
            [("G", [dict(name="a.h", text="x\n", allow=True), dict(name="sub/b.h", text="y\ny2", allow=True)])],
            [("K", [dict(name="c.j", text="c1\n", allow=True, srcmode=0o600), dict(name="d.j", text="", allow=True, srcmode=0o644)]),
             ("G", [dict(name="a.h", text="x\n", allow=True)])],
            [("G", [dict(name="a.h", text="x\n", allow=True)]), ("S", [dict(name="a.h", text="z\n", allow=True)])],
        ]
        pool = pool_quick if ctx.quick else pool_quick + pool_more
        lists = [[]] + [[a] for a in pool] + [[a, b] for a in pool for b in pool]
        for objs in lists:
            for si, seq in enumerate(seqs):
                cases.append((objs, {"a.h": ("old\n", 0o444)} if si != 1 else {}, seq))
        # allow_overwrite off; a file that exists writable; the same list used by three files
        cases.append(([("M", 0o444)], {"a.h": ("old", 0o644)}, [("G", [dict(name="z.h", text="z", allow=False), dict(name="a.h", text="x", allow=False)])]))
        cases.append(([("X", True, "py-all"), ("M", 0o444)], {"a.h": ("old", 0o600)},
                      [("G", [dict(name="a.h", text="1\n", allow=True), dict(name="b.h", text="2\n", allow=True), dict(name="c.h", text="3\n", allow=True)])]))
        for _ in range(40 if ctx.quick else 1500):
            objs = [rng.choice(pool_quick + pool_more) for _ in range(rng.randint(0, 4))]
            names = rng.sample(["a.h", "b.h", "sub/c.h", "sub/deep/d.h", "e.py", "f.txt"], k=rng.randint(1, 4))
            segs = []
            for nm in names:
                k = rng.choice("GGGSK")
                j = dict(name=nm if k != "K" else nm.replace("/", "_"), text=rng.choice(["", "x", "x\n", "l1\nl2\n", "\n\n", "é\r\nz"]), allow=rng.random() < 0.85)
                if k == "K":
                    j["srcmode"] = rng.choice([0o644, 0o600, 0o444])
                if segs and segs[-1][0] == k:
                    if k == "K":
                        j["allow"] = segs[-1][1][0]["allow"]     # one generate_all call: one allow_overwrite
                    segs[-1][1].append(j)
                else:
                    segs.append((k, [j]))
            init = {nm: (rng.choice(["", "old\n"]), rng.choice([0o444, 0o644, 0o600])) for nm in names if rng.random() < 0.3 and not nm.endswith(".txt")}
            cases.append((objs, init, segs))
        ctx.extra["filepp_domain"] = {"object_lists_exhaustive": len(lists), "pool": len(pool), "file_sequences": len(seqs), "cases": len(cases)}

        def concretise(real, objs, flat_jobs):
            fail = [j["path"] for j in flat_jobs[:1]]
            out = []
            for o in objs:
                if o[0] == "X":
                    tool = REC_SH if o[2].startswith("sh") else REC_PY
                    out.append(("X", o[1], ext_cmd(real, tool, o[2].endswith("-all"), fail if o[2].endswith("-fail") else [], ["-i"] if o[1] else [])))
                else:
                    out.append(o)
            return out

        def stub_params(objs, flat_jobs):
            # one program model per case: all external objects of a case must agree on --all / --fail-on
            alls = {o[2].endswith("-all") for o in objs if o[0] == "X"}
            fails = {o[2].endswith("-fail") for o in objs if o[0] == "X"}
            return (len(alls) <= 1 and len(fails) <= 1), (True in alls), ([flat_jobs[0]["path"]] if True in fails and flat_jobs else [])

        prepared = []
        for objs, init_names, segs in cases:
            R.fresh_case()
            jobs = flatten(R, segs)
            ok, stub_all, fail_on = stub_params(objs, jobs)
            if not ok:
                continue
            cobjs = concretise(R, objs, jobs)
            init = {str(R.outroot / n): v for n, v in init_names.items()}
            events, err = R.run(cobjs, init, segs)
            query = sorted({j["path"] for j in jobs} | {j["path"] + f".{o[1]}" for j in jobs for o in objs if o[0] == "C" and o[1] >= 10}
                           | {j["path"] + f".{a[1]}.{b[1]}" for j in jobs for a in objs for b in objs if a[0] == "C" and b[0] == "C" and a[1] >= 10 and b[1] >= 10}
                           | set(init))
            fs = {q: R.stat(q) for q in query}
            prepared.append((objs, cobjs, init, segs, jobs, query, stub_all, fail_on, events, err, fs, str(R.outroot), str(R.log)))
        _lines = [fpp_line(py, p[1], p[2], p[4], p[5], False, p[6], p[7]) for p in prepared]
        if os.environ.get('FILEPP_DUMP'):
            pathlib.Path(os.environ['FILEPP_DUMP']).write_text('\n'.join(_lines) + '\n')
        answers = drv.ask(_lines, timeout=300)
        nfail = 0
        for (objs, cobjs, init, segs, jobs, query, stub_all, fail_on, events, err, fs, outroot, logp), a in zip(prepared, answers):
            norm = lambda s: s.replace(logp, "<log>").replace(outroot, "<out>") if isinstance(s, str) else s
            ctx.traces += 1
            ctx.case(("fpp", json.dumps([objs, sorted(init.items()), [[k, js] for k, js in segs]], default=str, sort_keys=True).replace(outroot, "<out>")),
                     nontrivial=len(jobs) >= 2 and any(o[0] in "MXC" for o in objs))
            ctx.count("filepp_sequences")
            for o in objs:
                ctx.count("filepp_obj_" + o[0])
            if err:
                ctx.count("filepp_raise_" + err)
            if a == "bad-op":
                ctx.disagree("file-post-processors", {"objs": objs}, "bad-op", "n/a")
                continue
            mev, merr, mfs = parse_fpp(a)
            real_ev = [[e[0], e[1]] if e[0] == "exec" else e for e in events]
            if mev != real_ev or merr != err or mfs != fs:
                what = "trace" if mev != real_ev else "exception" if merr != err else "files"
                ctx.disagree("file-post-processors",
                             {"differs_in": what, "objs": [[norm(x) if not isinstance(x, list) else [norm(y) for y in x] for x in o] for o in cobjs],
                              "init": {norm(k): v for k, v in init.items()}, "jobs": [{**j, "path": norm(j["path"])} for j in jobs]},
                             {"events": json.loads(norm(json.dumps(mev))), "err": merr, "fs": {norm(k): v for k, v in mfs.items()}},
                             {"events": json.loads(norm(json.dumps(real_ev))), "err": err, "fs": {norm(k): v for k, v in fs.items()}})
            # the mode the program saw: written into the marker, so covered by the bytes; counted here
            ctx.count("filepp_exec_invocations", sum(1 for e in events if e[0] == "exec"))
            # ---- property on the implementation: each file in company vs alone (fresh objects, same initial state of that file)
            if err is None and not any(o[0] in "CU" for o in objs) and len(jobs) >= 2 and len({j["path"] for j in jobs}) == len(jobs):
                ji = rng.randrange(len(jobs))
                j = jobs[ji]
                R.fresh_case()
                seg1 = [(j["kind"], [{k: v for k, v in j.items() if k not in ("kind", "path")}])]
                cobjs1 = concretise(R, objs, jobs)     # same configured command lines up to the log file name
                ev1, err1 = R.run(cobjs1, {p: v for p, v in init.items() if p == j["path"]}, seg1)
                n1 = lambda s: s.replace(str(R.log), "<log>").replace(str(R.outroot), "<out>")
                def appended(argv, cos):
                    """the arguments after the configured command line (and the interpreter put in front of a .py program)"""
                    for o in cos:
                        if o[0] == "X":
                            for k in (0, 1):
                                if argv[k:k + len(o[2])] == list(o[2]):
                                    return argv[k + len(o[2]):]
                    return argv
                company = [[norm(x) for x in e[1]] for e in events if e[0] == "exec" and j["path"] in appended(e[1], cobjs)]
                alone = [[n1(x) for x in e[1]] for e in ev1 if e[0] == "exec" and j["path"] in appended(e[1], cobjs1)]
                st1 = R.stat(j["path"])
                ctx.count("filepp_company_vs_alone")
                if err1 is not None or company != alone or st1 != fs[j["path"]]:
                    nfail += 1
                    if nfail <= 20:
                        ctx.fail({"kind": "file-post-processing-depends-on-other-files", "level": "generator",
                                  "where": "invocations" if company != alone else "bytes-or-mode"},
                                 "the external program's invocations for a file, or the file's bytes / permission bits, depend on the other files of the run",
                                 {"objs": [[norm(x) if not isinstance(x, list) else [norm(y) for y in x] for x in o] for o in cobjs],
                                  "jobs_in_order": [{**jj, "path": norm(jj["path"])} for jj in jobs], "file": norm(j["path"]),
                                  "invocations_naming_it_in_company": company, "invocations_naming_it_alone": alone,
                                  "file_in_company": fs[j["path"]], "file_alone": st1, "error_alone": err1})
        ctx.count("filepp_company_vs_alone_differ", nfail)
        ctx.sample({"file_post_processors": {"objs": prepared[-1][0], "events": len(prepared[-1][8]), "err": prepared[-1][9]}})
    except Exception as e:  # noqa
        import traceback
        ctx.broken.append({"kind": "impl-call", "what": "file post-processor tie", "error": repr(e)[:300], "tb": traceback.format_exc()[-1200:]})
    finally:
        os.umask(old_umask)


# ---- CLI level: the log of a real nnvg run with --pp-run-program <recording program> ---------------------------------------
def cli_cmd(out, stamp=False):
    """configured command line of the recording program for a run into `out` (log next to it, outside the hashed tree)."""
    return [str(REC_PY), "--log", f"{out}.pplog", "--all"] + (["--stamp-name"] if stamp else [])


def cli_extra(out, stamp=False):
    """--pp-run-program options for a run into `out`."""
    cmd = cli_cmd(out, stamp)
    return ["--pp-run-program", cmd[0]] + [f"--pp-run-program-arg={a}" for a in cmd[1:]]


def check_cli_log(ctx, drv, lang, out, files, py, file_mode=0o444, label=None, stamp=False, kind="file-post-processing-depends-on-other-files"):
    """Every generated file is named by exactly one invocation `<py> record_argv.py --log L --all <file>`, the program saw it
    writable, and the file ends up with --file-mode.  Model: `C10_cli_file_pp_sequence` (driver `fpp` over `cliobjs`)."""
    out = pathlib.Path(out)
    logp = pathlib.Path(str(out) + ".pplog")
    recs = [json.loads(l) for l in logp.read_text().splitlines()] if logp.exists() else []
    got = sorted(r["argv"] for r in recs)
    cmd = cli_cmd(out, stamp)
    paths = [str(out / rel) for rel in sorted(files)]
    ctx.count("filepp_cli_runs")
    ctx.count("filepp_cli_invocations", len(recs))
    if drv is not None and paths:
        jobs = [{"kind": "G", "allow": True, "path": p, "text": ""} for p in paths]
        a = drv.ask([fpp_line(py, [("X", True, cmd), ("M", file_mode)], {}, jobs, [], False, True, ())])[0]
        mev, merr, _ = parse_fpp(a)
        want = sorted(e[1] for e in mev if e[0] == "exec")
        ctx.traces += 1
        if want != got:
            ctx.disagree("cli-pp-run-program-log", {"lang": lang, "run": label, "n_files": len(paths)},
                         {"n": len(want), "first": want[:2]}, {"n": len(got), "first": got[:2], "longest": max(got, key=len) if got else None})
    bad = []
    for p in paths:
        naming = [r for r in recs if p in r["argv"]]
        if len(naming) != 1 or naming[0]["argv"][-1] != p or len(naming[0]["argv"]) != len(cmd) + 2:
            bad.append({"file": p.replace(str(out), "<out>"), "invocations_naming_it": [[x.replace(str(out), "<out>") for x in r["argv"]] for r in naming][:4]})
        elif naming[0]["mode"] is None or not naming[0]["mode"] & 0o200:
            bad.append({"file": p.replace(str(out), "<out>"), "mode_seen_by_program": naming[0]["mode"]})
        elif stat.S_IMODE(os.stat(p).st_mode) != file_mode:
            bad.append({"file": p.replace(str(out), "<out>"), "final_mode": stat.S_IMODE(os.stat(p).st_mode)})
    if bad:
        ctx.fail({"kind": kind, "level": "cli", "lang": lang, "where": "invocations"},
                 "a generated file is not named by exactly one invocation of the --pp-run-program program (as its last argument, writable, "
                 "final mode = --file-mode)", {"lang": lang, "run": label, "n_files": len(paths), "n_invocations": len(recs), "offending": bad[:6]})
