"""
C08 — listing and dry-run modes tell the build system the truth.

Proof: lean/NunavutVerif/Properties/C08.lean over Model/Cli.lean + Gen/SupportFiles.lean (regenerated here by
translate/supportfiles.py from the tree under check).

Tie (correspondence): real `nnvg` subprocesses ([PY, -m, nunavut, ...], PYTHONPATH=$VERIF_REPO/src,
PYTHONDONTWRITEBYTECODE=1) against the compiled model (`cli` driver) over the grid
language x --generate-support x --omit-serialization-support x --generate-namespace-types x --templates dir x
--support-templates dir x --output-extension x --namespace-output-stem x namespace (with / without lookup
dependencies) x output-directory style, each configuration in the modes --list-outputs, --list-inputs, --dry-run,
real run, and listing / dry-run again over the existing output.  Every invocation is bracketed by recursive
snapshots of its private sandbox (inputs, cwd, output directory).  Compared as sets of normalised paths: model
prediction vs printed list vs files on disk; and error kind vs error kind.
A second stream runs a scratch copy of the package with added *copied* (non-template) support resources so that
`_copy_header` is exercised too.

Failing-input search (the property itself on the implementation, no model involved):
 P1 a successful real run creates exactly the files --list-outputs printed;
 P2 --list-outputs / --list-inputs / --dry-run leave the sandbox snapshot unchanged (before and after generation);
 P3 mutation search: every candidate input file (DSDL files of the root and the lookup directories, every file of
    the active template directories and of the support directories) is mutated and the output re-generated; a
    file whose mutation changes an output (or breaks the generation) must be printed by --list-inputs.
"""
import base64
import collections
import concurrent.futures
import gzip
import hashlib
import itertools
import json
import os
import pathlib
import queue
import re
import shutil
import subprocess
import threading

from . import common
from . import fs_snapshot as fss
from .common import enc, dec

LANGS = ["c", "cpp", "py", "html"]
GS = ["always", "never", "as-needed", "only"]
WORKERS = 16
NNVG_TIMEOUT = 120

# ---------------------------------------------------------------------------------------------------------------
# DSDL namespaces
# ---------------------------------------------------------------------------------------------------------------
# `@print` / `@assert` make the DSDL front end produce diagnostics (pydsdl hands them to a print handler; whatever the tool
# does with them, none of it may end up in the list a listing mode prints)
BODY = {
    "struct": "uint8 a\n@print 1 + 1\n@print \"semi;colon and words\"\n@assert _offset_ % 8 == {0}\n@sealed\n",
    "union": "@union\nuint8 a\nuint16 b\n@print _offset_\n@sealed\n",
    "delimited": "uint8 a\n@assert _offset_.min == 8\n@extent 64\n",
    "service": "uint8 q\n@print \"request\"\n@sealed\n---\nuint8 r\n@print \"response\"\n@sealed\n",
}
DSDL_SUFFIXES = (".dsdl", ".uavcan")   # the front end still accepts the legacy extension
KIND_CLASS = {"struct": "StructureType", "union": "UnionType", "delimited": "DelimitedType", "service": "ServiceType"}


def T(full, kind="struct", body=None, deps=(), ver=(1, 0), ext="dsdl"):
    return {"full": full, "kind": kind, "body": body if body is not None else BODY[kind], "deps": list(deps), "ver": list(ver), "ext": ext}


def ns_specs(rng, thorough):
    specs = {
        "plain": {"root": "app", "lookups": [], "types": [
            T("app.Alpha"), T("app.Alpha", ver=(1, 1)),
            T("app.Beta", body="uint8 a\napp.Alpha.1.0 x\n@sealed\n", deps=["app.Alpha.1.0"]),
            T("app.Uni", "union"), T("app.Svc", "service"), T("app.Delim", "delimited"),
            T("app.sub.Gamma"), T("app.deep.er.Leaf"), T("app.Legacy", "union", ext="uavcan"), T("app.sub.Old", ext="uavcan")]},
        "lookup": {"root": "use", "lookups": ["lib"], "types": [
            T("use.Use", body="lib.Dep.1.0 d\nuint8[<=lib.Limits.1.0.N] arr\n@print lib.Limits.1.0.N\n@sealed\n", deps=["lib.Dep.1.0", "lib.Limits.1.0"]),
            T("use.Local"),
            T("use.LegacyUse", body="lib.Old.1.0 o\nuint8 z\n@sealed\n", deps=["lib.Old.1.0"], ext="uavcan"),
            T("lib.Old", body="uint32 w\n@sealed\n", ext="uavcan"),
            T("lib.Dep", body="uint16 v\nlib.Inner.1.0[2] i\n@print \"from the lookup directory\"\n@sealed\n", deps=["lib.Inner.1.0"]),
            T("lib.Inner", body="uint8 w\n@sealed\n"),
            T("lib.Limits", body="uint8 N = 5\n@sealed\n"),
            T("lib.Unused")]},
    }
    if thorough:
        specs["solo"] = {"root": "solo", "lookups": [], "types": [T("solo.One", "delimited")]}
        # a random namespace: nesting, kinds and cross references drawn from ctx.rng
        names = ["Ant", "Bee", "Cat", "Dog", "Eel", "Fox", "Gnu", "Hen"]
        folders = [[], ["n1"], ["n1", "n2"], ["m1"], ["m1", "gap", "m3"]]
        types, made = [], []
        for i in range(rng.randint(4, 8)):
            f = rng.choice(folders)
            full = ".".join(["rnd"] + f + [names[i]])
            kind = rng.choice(list(BODY))
            ext = rng.choice(["dsdl", "dsdl", "uavcan"])
            if made and kind == "struct" and rng.random() < 0.6:
                d = rng.choice(made)
                types.append(T(full, body=f"uint8 a\n{d} x\n@sealed\n", deps=[d], ext=ext))
            else:
                types.append(T(full, kind, ext=ext))
            made.append(full + ".1.0")
        types.append(T("rnd.Ext", body="ext.Far.1.0 f\n@sealed\n", deps=["ext.Far.1.0"]))
        types += [T("ext.Far", body="ext.Farther.1.0 g\nuint8 z\n@sealed\n", deps=["ext.Farther.1.0"]), T("ext.Farther", "union")]
        specs["random"] = {"root": "rnd", "lookups": ["ext"], "types": types}
    return specs


def type_file(spec_type, in_dir):
    comps = spec_type["full"].split(".")
    return pathlib.Path(in_dir, *comps[:-1], f"{comps[-1]}.{spec_type['ver'][0]}.{spec_type['ver'][1]}.{spec_type.get('ext', 'dsdl')}")


def write_namespace(spec, in_dir):
    for t in spec["types"]:
        f = type_file(t, in_dir)
        f.parent.mkdir(parents=True, exist_ok=True)
        f.write_text(t["body"])


_CANDIDATES = {}


def candidates(kind):
    """The class names `_type_to_template_internal` tries for a pydsdl class, in its order (real class objects)."""
    if kind not in _CANDIDATES:
        import nunavut
        import pydsdl
        cls = nunavut.Namespace if kind == "namespace" else getattr(pydsdl, KIND_CLASS[kind])
        out, q, disc = [], collections.deque([cls]), set()
        while q:
            c = q.pop()
            out.append(c.__name__)
            for b in c.__bases__:
                if b is not object and b not in disc:
                    q.appendleft(b)
                    disc.add(c)
        _CANDIDATES[kind] = out
    return _CANDIDATES[kind]


def entries_for(spec, in_dir):
    """The flattened namespace tree of the root namespace: parents before children, a namespace before its types."""
    in_dir = pathlib.Path(os.path.realpath(in_dir))
    by_ref = {f"{t['full']}.{t['ver'][0]}.{t['ver'][1]}": t for t in spec["types"]}

    def closure(t, seen):
        for d in t["deps"]:
            if d not in seen:
                seen.add(d)
                closure(by_ref[d], seen)
        return seen

    root = spec["root"]
    mine = [t for t in spec["types"] if t["full"].split(".")[0] == root]
    nss = set()
    for t in mine:
        comps = t["full"].split(".")[:-1]
        for i in range(1, len(comps) + 1):
            nss.add(tuple(comps[:i]))
    out = []
    for ns in sorted(nss):
        out.append({"isNs": True, "comps": list(ns), "stem": "", "src": str(pathlib.Path(in_dir, *ns)),
                    "cands": candidates("namespace"), "deps": []})
        for t in mine:
            comps = t["full"].split(".")
            if tuple(comps[:-1]) == ns:
                out.append({"isNs": False, "comps": list(ns), "stem": f"{comps[-1]}_{t['ver'][0]}_{t['ver'][1]}",
                            "src": str(type_file(t, in_dir)), "cands": candidates(t["kind"]),
                            "deps": sorted(str(type_file(by_ref[d], in_dir)) for d in closure(t, set()))})
    if not mine:
        out.append({"isNs": True, "comps": [""], "stem": "", "src": str(in_dir / root), "cands": candidates("namespace"), "deps": []})
    return out


# ---------------------------------------------------------------------------------------------------------------
# template directories
# ---------------------------------------------------------------------------------------------------------------
# pulled in through symbolic links: a linked file (shared license header), a linked macro file, and files below a linked
# sub-directory (include, import, and an extends chain whose base sits next to it)
# hidden places: a dot-folder, a dot-file, and a dot-folder inside a sub-folder (include / import)
HIDDEN_SNIPPET = ('{% include ".shared/banner.j2" %}{% include ".hidden_part.j2" %}'
                  '{% from "macros/.private/pm.j2" import pmac %}{{ pmac("p") }}')
HIDDEN_FILES = {".shared/banner.j2": "hidden-folder-banner\n", ".hidden_part.j2": "hidden-file-part\n",
                "macros/.private/pm.j2": "{% macro pmac(n) %}<<{{ n }}>>{% endmacro %}\n", ".shared/.unused.j2": "never used\n"}
LINK_SNIPPET = ('{% include "license_header.j2" %}{% import "macros/linked_util.j2" as c08l %}{{ c08l.ltag("l") }}'
                '{% include "linked/part.j2" %}{% from "linked/m.j2" import lwrap %}{{ lwrap("w") }}{% include "linked/child.j2" %}')


def add_linked_templates(dest):
    """Targets live outside the templates directory (siblings below in/); the directory gets only the links.
    Also writes the hidden files / folders."""
    dest = pathlib.Path(dest)
    _write_tree(dest, HIDDEN_FILES)
    lf, ld = dest.parent / "tpl_linked_files", dest.parent / "tpl_linked_dir"
    _write_tree(lf, {"license_header.j2": "shared-license\n", "linked_util.j2": "{% macro ltag(n) %}<l {{ n }}>{% endmacro %}\n"})
    _write_tree(ld, {"part.j2": "linked-dir-part\n", "m.j2": "{% macro lwrap(n) %}({{ n }}){% endmacro %}\n",
                     "lbase.j2": "lbase[{% block lb %}{% endblock %}]\n",
                     "child.j2": "{% extends \"linked/lbase.j2\" %}{% block lb %}linked-child{% endblock %}\n",
                     "unused.j2": "never used\n"})
    (dest / "macros").mkdir(exist_ok=True)
    os.symlink("../tpl_linked_files/license_header.j2", str(dest / "license_header.j2"))
    os.symlink("../../tpl_linked_files/linked_util.j2", str(dest / "macros" / "linked_util.j2"))
    os.symlink("../tpl_linked_dir", str(dest / "linked"))


TYPE_TEMPLATES = ("StructureType.j2", "UnionType.j2", "DelimitedType.j2", "ServiceType.j2", "Namespace.j2")
# pulled into every type template of a copied directory: same file name at three depths, a non-.j2 file, an include
# chain, an import and an extends chain below sub-folders
COPY_SNIPPET = ('{% include "helper.j2" %}{% include "extra/helper.j2" %}{% include "extra/more/helper.j2" %}'
                '{% include "notes.txt" %}{% import "macros/util.j2" as c08u %}{{ c08u.tag("c08") }}'
                '{% include "layouts/child.j2" %}' + LINK_SNIPPET + HIDDEN_SNIPPET)


def _write_tree(dest, files):
    for rel, text in files.items():
        f = pathlib.Path(dest, rel)
        f.parent.mkdir(parents=True, exist_ok=True)
        f.write_text(text)


def make_tpl_dir(kind, lang, pkg_lang_dir, dest):
    """kind: copy | tree | any | nons | nested"""
    dest = pathlib.Path(dest)
    src = pathlib.Path(pkg_lang_dir, lang, "templates")
    if kind in ("copy", "nons"):
        shutil.copytree(src, dest, ignore=shutil.ignore_patterns("__pycache__", "*.py", "*.pyc"))
        _write_tree(dest, {
            "helper.j2": "top-helper\n",
            "extra/helper.j2": "{# helper #}extra-helper {% include \"extra/more/chain.j2\" %}\n",
            "extra/more/helper.j2": "deep-helper\n",
            "extra/more/chain.j2": "chain-end\n",
            "extra/unused/helper.j2": "same name, never included\n",
            "notes.txt": "notes-text\n",
            "macros/util.j2": "{% macro tag(n) %}<tag {{ n }}>{% endmacro %}\n",
            "macros/helper.j2": "{% macro unused() %}same name again, never used{% endmacro %}\n",
            "layouts/base.j2": "layout[{% block c08top %}{% endblock %}|{% block c08body %}{% endblock %}]\n",
            "layouts/child.j2": "{% extends \"layouts/base.j2\" %}{% block c08top %}child-top{% endblock %}"
                                "{% block c08body %}{% include \"layouts/parts/body.j2\" %}{% endblock %}\n",
            "layouts/parts/body.j2": "layout-body\n",
        })
        add_linked_templates(dest)
        for name in TYPE_TEMPLATES:
            f = dest / name
            if not f.exists():
                continue
            text = f.read_text()
            # inside the last block when the template extends a base (text outside blocks is not rendered), else at the end
            i = max(text.rfind("{% endblock"), text.rfind("{%- endblock"))
            text = text[:i] + COPY_SNIPPET + text[i:] if i >= 0 else text + "\n" + COPY_SNIPPET + "\n"
            f.write_text(text)
        if kind == "nons":
            for n in ("Namespace.j2", "Any.j2"):
                if (dest / n).exists():
                    (dest / n).unlink()
    elif kind == "tree":
        # a self-contained directory: one Any.j2 on top of includes / imports / extends spread over sub-folders, with
        # the same file names at several depths (used and unused ones)
        _write_tree(dest, {
            "Any.j2": "{% extends \"layouts/child.j2\" %}{% block body %}{% include \"header.j2\" %}"
                      "{% include \"parts/header.j2\" %}{% import \"macros/util.j2\" as u %}{{ u.tag(T.full_name) }}"
                      "{% from \"macros/more/util.j2\" import wrap %}{{ wrap(\"x\") }}{% include \"data/values.txt\" %}" + LINK_SNIPPET + HIDDEN_SNIPPET + "{% endblock %}\n",
            "layouts/child.j2": "{% extends \"layouts/base.j2\" %}{% block top %}child-top{% endblock %}\n",
            "layouts/base.j2": "base[{% block top %}{% endblock %}|{% block body %}{% endblock %}]{% include \"parts/deep/header.j2\" %}\n",
            "header.j2": "top-header\n",
            "parts/header.j2": "parts-header {% include \"parts/deep/footer.j2\" %}\n",
            "parts/deep/header.j2": "deep-header\n",
            "parts/deep/footer.j2": "deep-footer\n",
            "footer.j2": "same name as parts/deep/footer.j2, never included\n",
            "macros/util.j2": "{% macro tag(n) %}<{{ n }}>{% endmacro %}\n",
            "macros/more/util.j2": "{% macro wrap(n) %}[{{ n }}]{% endmacro %}\n",
            "macros/header.j2": "{% macro unused() %}{% endmacro %}\n",
            "data/values.txt": "values-text\n",
            # byte code the interpreter leaves behind: not an input (changes by itself); a template below such a directory is
            # still a template
            "__pycache__/junk.cpython-312.pyc": "not really byte code\n",
            "macros/__pycache__/util.cpython-312.pyc": "not really byte code\n",
            "parts/__pycache__/cached.j2": "a template in an odd place, never included\n",
        })
        add_linked_templates(dest)
    elif kind == "any":
        dest.mkdir(parents=True)
        (dest / "Any.j2").write_text("any: {{ T.full_name }}\n")
        (dest / "README.txt").write_text("not a template\n")
    elif kind == "nested":
        (dest / "inner").mkdir(parents=True)
        (dest / "inner" / "Any.j2").write_text("nested any\n")
    else:
        raise ValueError(kind)


SHADOW_MARK = "shadow support template c08"


def make_stpl_dir(lang, pkg_lang_dir, dest):
    dest = pathlib.Path(dest)
    dest.mkdir(parents=True)
    names = [p.name for p in sorted(pathlib.Path(pkg_lang_dir, lang, "support").glob("*.j2"))]
    for n in names:
        (dest / n).write_text(SHADOW_MARK + " " + n + "\n")
    (dest / "unused.j2").write_text("never generated\n")


def list_dir_files(d, with_link_flag=False):
    """Every file Jinja could open below `d`: [(loader-relative name, resolved path)] — symbolic links to directories are
    followed (a plain path join opens what is behind them); `with_link_flag` adds whether the file is reachable only
    through such a link."""
    real = os.path.realpath(str(d))
    out = []

    def walk(cur, relparts, via, seen):
        for name in sorted(os.listdir(cur)):
            p = os.path.join(cur, name)
            if os.path.isdir(p):
                rp = os.path.realpath(p)
                if rp in seen:
                    continue
                walk(p, relparts + [name], via or os.path.islink(p), seen | {rp})
            elif os.path.isfile(p):
                out.append(("/".join(relparts + [name]), os.path.realpath(p), via))

    walk(real, [], False, {real})
    out.sort()
    return out if with_link_flag else [(n, p) for n, p, _ in out]


# ---------------------------------------------------------------------------------------------------------------
# configurations
# ---------------------------------------------------------------------------------------------------------------
FACTORS_QUICK = collections.OrderedDict([
    ("lang", LANGS), ("gs", GS), ("omit", [0, 1]), ("gnt", [0, 1]), ("tpl", ["none", "copy", "tree"]),
    ("stpl", ["none", "shadow"]), ("ext", [None, ".xx", "yy"]), ("stem", [None, "nsx"]),
    ("ns", ["plain", "lookup"]), ("out", ["rel", "abs", "dotslash", "updown", "symup", "relsymup"]), ("inp", ["plain", "messy", "symlink", "rel"]),
    ("lk", ["arg", "env"]),     # lookup directories through --lookup-dir or through DSDL_INCLUDE_PATH
])


def pairwise(factors, rng, seeds=()):
    """Greedy pairwise-covering set of configurations (all random choices from rng)."""
    names = list(factors)
    need = set()
    for a, b in itertools.combinations(names, 2):
        for va in factors[a]:
            for vb in factors[b]:
                need.add((a, va, b, vb))
    out = []

    def pairs(cfg):
        return {(a, cfg[a], b, cfg[b]) for a, b in itertools.combinations(names, 2)}

    for s in seeds:
        out.append(dict(s))
        need -= pairs(s)
    while need:
        best, best_n = None, -1
        seed_pair = sorted(need, key=repr)[rng.randrange(len(need))]
        for _ in range(40):
            cfg = {n: rng.choice(factors[n]) for n in names}
            cfg[seed_pair[0]], cfg[seed_pair[2]] = seed_pair[1], seed_pair[3]
            n = len(pairs(cfg) & need)
            if n > best_n:
                best, best_n = cfg, n
        out.append(best)
        need -= pairs(best)
    return out


def wide_cfgs(rng, rounds):
    """Pairwise-covering sets over the widened domain: edge values of extension / stem, failing template
    directories, all namespaces and output-directory styles."""
    wide = collections.OrderedDict(FACTORS_QUICK)
    wide["ns"] = ["plain", "lookup", "solo", "random"]
    wide["out"] = list(OUT_STYLES)
    wide["tpl"] = ["none", "copy", "tree", "any", "nons", "nested"]
    wide["ext"] = [None, ".xx", "yy", "", ".", ".a.b", "a/b"]
    wide["stem"] = [None, "nsx", "a.b", ".hid", "x."]
    out = []
    for _ in range(rounds):
        out += pairwise(wide, rng)
    return out


def full_grid(factors):
    names = list(factors)
    for vals in itertools.product(*(factors[n] for n in names)):
        yield dict(zip(names, vals))


# Spellings of --outdir.  `lnk` is a symbolic link (one in the sandbox, one in the cwd) to <sandbox>/realdir/deep, so
# `lnk/../gen` is physically <sandbox>/realdir/gen although it reads like <sandbox>/gen.
OUT_STYLES = {"rel": "out", "abs": "{sb}/abs.out/o", "dotted": "gen.d/./out.v1", "dotslash": "./out//deep/", "updown": "a/../b",
              "dot": ".", "symlink": "{sb}/lnk/out", "symup": "{sb}/lnk/../gen", "relsymup": "lnk/../gen//"}
# Spellings of the input directories (root namespace, lookup, --templates, --support-templates):
# plain absolute | relative with ../, ./, doubled slash, trailing slash, x/../ | through a symbolic link | relative to the
# working directory starting with a plain name (sorts after any absolute path, `../…` sorts before)
IN_STYLES = ["plain", "messy", "symlink", "rel"]


class Sandbox:
    """One private directory per configuration: in/ (DSDL, template dirs), cwd/, output somewhere below."""

    def __init__(self, base, cfg, specs, pkg_lang_dir):
        self.base = pathlib.Path(os.path.realpath(base))
        self.cfg = cfg
        self.spec = specs[cfg["ns"]]
        self.pkg_lang_dir = str(pkg_lang_dir)
        self.ind = self.base / "in"
        self.cwd = self.base / "cwd"
        self.cwd.mkdir(parents=True)
        write_namespace(self.spec, self.ind)
        self.tpl = self.stpl = None
        if cfg.get("tpl", "none") != "none":
            # the `tree` directory carries glob metacharacters in its own name (a name is a name, not a pattern)
            self.tpl = self.ind / ("tpl[c]*?" if cfg["tpl"] == "tree" else "tpl")
            make_tpl_dir(cfg["tpl"], cfg["lang"], pkg_lang_dir, self.tpl)
        if cfg.get("stpl", "none") != "none":
            self.stpl = self.ind / "stpl"
            make_stpl_dir(cfg["lang"], pkg_lang_dir, self.stpl)
        self.outarg = OUT_STYLES[cfg.get("out", "rel")].format(sb=self.base)
        (self.base / "realdir" / "deep").mkdir(parents=True)
        os.symlink(str(self.base / "realdir" / "deep"), str(self.base / "lnk"))
        os.symlink("../realdir/deep", str(self.cwd / "lnk"))
        os.symlink("in", str(self.base / "inlnk"))
        os.symlink("../in", str(self.cwd / "inrel"))
        self.entries = entries_for(self.spec, self.ind)

    def spell(self, path):
        """One of several spellings of an input directory below in/ (all name the same directory)."""
        style = self.cfg.get("inp", "plain")
        rel = os.path.relpath(str(path), str(self.ind))
        if style == "messy":
            head, _, tail = rel.partition("/")
            return "../in//./" + head + "/../" + head + ("/" + tail if tail else "") + "/"
        if style == "symlink":
            return str(self.base / "inlnk" / ".." / "inlnk" / rel)
        if style == "rel":
            return "inrel/" + rel      # relative to the working directory, first component a plain name (cwd/inrel -> ../in)
        return str(path)

    def cli_args(self, flags):
        c = self.cfg
        a = ["--target-language", c["lang"], "--experimental-languages", "--outdir", self.outarg, "--generate-support", c["gs"]]
        if c["omit"]:
            a.append("--omit-serialization-support")
        if c["gnt"]:
            a.append("--generate-namespace-types")
        if self.tpl is not None:
            a += ["--templates", self.spell(self.tpl)]
        if self.stpl is not None:
            a += ["--support-templates", self.spell(self.stpl)]
        if c.get("ext") is not None:
            a.append("--output-extension=" + c["ext"])
        if c.get("stem") is not None:
            a.append("--namespace-output-stem=" + c["stem"])
        if c.get("lk", "arg") == "arg":
            for l in self.spec["lookups"]:
                a += ["--lookup-dir", self.spell(self.ind / l)]
        a += c.get("extra_args", [])
        if flags[0] == "1":
            a.append("--list-outputs")
        if flags[1] == "1":
            a.append("--list-inputs")
        if flags[2] == "1":
            a.append("--list-configuration")
        if flags[3] == "1":
            a.append("--dry-run")
        a.append(self.spell(self.ind / self.spec["root"]))
        return a

    def env(self):
        """Lookup directories handed over through the environment (`DSDL_INCLUDE_PATH`) instead of --lookup-dir."""
        if self.cfg.get("lk", "arg") == "env" and self.spec["lookups"]:
            return {"DSDL_INCLUDE_PATH": os.pathsep.join(self.spell(self.ind / l) for l in self.spec["lookups"])}
        return {}

    def model_line(self, flags, variant="new"):
        c = self.cfg

        def lst(xs, sep=","):
            xs = list(xs)
            return sep.join(xs) if xs else "!"

        def opt(v):
            return "!" if v is None else enc(v)

        def tfiles(d):
            if d is None:
                return "!"
            fs = list_dir_files(d, with_link_flag=True)
            return ",".join(enc(n) + "~" + enc(p) + ("~L" if via else "") for n, p, via in fs) if fs else "@"

        lookup = set()
        for l in getattr(self, "spec", {"lookups": []})["lookups"]:
            for pat in ("*.dsdl", "*.uavcan"):
                lookup |= {os.path.realpath(str(p)) for p in (self.ind / l).rglob(pat) if p.is_file()}
        ents = lst(("1" if e["isNs"] else "0") + "~" + lst(map(enc, e["comps"]), "+") + "~" + enc(e["stem"]) + "~" + enc(e["src"]) + "~" +
                   lst(map(enc, e["cands"]), "+") + "~" + lst(map(enc, e["deps"]), "+") for e in self.entries)
        return " ".join(["run", variant, flags, c["lang"], lst(map(enc, c.get("extra_ser", []))), lst(map(enc, c.get("extra_type", []))),
                         enc(self.pkg_lang_dir), enc(self.outarg), c["gs"], str(c["omit"]), str(c["gnt"]), opt(c.get("ext")),
                         opt(c.get("stem")), tfiles(self.tpl), tfiles(self.stpl), ents, lst(map(enc, sorted(lookup)))])

    def norm(self, p):
        """The file a printed / predicted path names: resolved identity (symbolic links followed component by
        component, `..` taken physically), never a lexical normalisation."""
        return os.path.realpath(os.path.join(str(self.cwd), p))


def nnvg(args, cwd, pythonpath, hashseed=None, env_extra=None):
    env = {k: v for k, v in os.environ.items() if k not in ("DSDL_INCLUDE_PATH", "PYTHONPATH", "PYTHONSTARTUP", "PYTHONHASHSEED")}
    env.update(env_extra or {})
    env["PYTHONPATH"] = str(pythonpath)
    env["PYTHONDONTWRITEBYTECODE"] = "1"
    if hashseed is not None:
        env["PYTHONHASHSEED"] = str(hashseed)
    try:
        p = subprocess.run([common.PY, "-m", "nunavut"] + list(args), cwd=str(cwd), env=env, capture_output=True, text=True,
                           timeout=NNVG_TIMEOUT)
        return p.returncode, p.stdout, p.stderr
    except subprocess.TimeoutExpired:
        return -9, "", "timeout"


def classify(rc, stderr):
    if rc == 0:
        return "ok"
    tail = stderr.strip().splitlines()[-1] if stderr.strip() else ""
    if rc == 2 and "omit-serialization-support" in stderr and "generate-support=always" in stderr:
        return "err:parser-reject"
    if "No template found for type" in tail:
        return "err:no-template"
    if "TemplateNotFound" in tail:
        return "err:template-not-found"
    if "Invalid suffix" in tail:
        return "err:invalid-suffix"
    if "has an empty name" in tail:
        return "err:empty-name"
    return f"err:other rc={rc} {tail[:200]}"


def split_list(stdout):
    return [x for x in stdout.split(";") if x]


def list_format_ok(stdout):
    """What a listing mode may write to stdout: every item followed by one `;`, nothing else (no line of text in front of,
    between or behind the items)."""
    items = split_list(stdout)
    return stdout == "".join(x + ";" for x in items) and not any("\n" in x or "\r" in x for x in items)


# bits: list_outputs list_inputs list_configuration dry_run — `ArgparseRunner.run` tests them in this order
MODE_FLAGS = {"lo": ["1000", "1001", "1100", "1110", "1010", "1111"], "li": ["0100", "0101", "0110", "0111"], "lc": ["0010", "0011"],
              "dry": ["0001"], "gen": ["0000"]}


ALL_STEPS = (("lo", "lo"), ("li", "li"), ("lc", "lc"), ("dry", "dry"), ("gen", "gen"), ("lo2", "lo"), ("li2", "li"), ("dry2", "dry"), ("gen2", "gen"))


def execute(sb, flagsets, pythonpath, skip=()):
    """Run one configuration in all modes with snapshots in between.  Returns raw observations.  `skip`: steps over the
    existing output that the quick tier leaves out for this configuration (alternating)."""
    obs = {}
    snap = fss.snapshot([sb.base])
    for step, mode in ALL_STEPS:
        if step in skip:
            continue
        if step == "gen2":
            # a history: the outputs of the first run are made writable (as `--file-mode 0o644` or a user would), then the
            # same real run again over the existing tree
            for p in obs["gen"]["created_files"]:
                try:
                    os.chmod(p, os.stat(p).st_mode | 0o200)
                except OSError:
                    pass
            snap = fss.snapshot([sb.base])
        flags = flagsets[mode]
        rc, so, se = nnvg(sb.cli_args(flags), sb.cwd, pythonpath, env_extra=sb.env())
        after = fss.snapshot([sb.base])
        d = fss.diff(snap, after)
        obs[step] = {"flags": flags, "rc": rc, "status": classify(rc, se), "stdout": so, "stderr_tail": se.strip()[-600:],
                     "dirs_before": set(fss.dirs(snap)), "diff": d, "created_files": [p for p in d.created if after[p].kind != "d"],
                     "created_dirs": [p for p in d.created if after[p].kind == "d"],
                     "modified_files": [p for p in d.modified if after[p].kind != "d"], "deleted": list(d.deleted)}
        snap = after
    return obs


def parse_answer(ans):
    if ans is None or ans == "bad-op" or " " not in ans:
        return None
    status, *fields = ans.split(" ")
    r = {"status": status}
    for f in fields:
        k, _, v = f.partition("=")
        r[k] = [] if v == "!" else v.split(",")
    r["written"] = [dec(x[1:]) for x in r["ops"] if x[0] in "rc"]
    r["outputs"] = [dec(x) for x in r["outputs"]]
    r["inputs"] = [dec(x) for x in r["inputs"]]
    r["reads"] = [dec(x) for x in r["reads"]]
    return r


def cfg_key(cfg):
    return {k: cfg[k] for k in sorted(cfg) if k not in ("extra_args",)} | ({"extra_args": cfg["extra_args"]} if cfg.get("extra_args") else {})


def evaluate(ctx, sb, obs, model, stream):
    """Correspondence (model vs implementation) and the property itself on the implementation, one configuration."""
    cfg = sb.cfg
    ck = cfg_key(cfg)
    base = str(sb.base)

    def rel(ps):
        return sorted(os.path.relpath(p, base) for p in ps)

    # ---- correspondence ------------------------------------------------------------------------------------
    for step, mode in (("lo", "lo"), ("li", "li"), ("lc", "lc"), ("dry", "dry"), ("gen", "gen")):
        o, m = obs[step], model.get(mode)
        nontrivial = o["status"] != "ok" or bool(o["stdout"]) or bool(o["created_files"])
        ctx.case((stream, json.dumps(ck, sort_keys=True), step), nontrivial)
        ctx.count(f"mode={mode}")
        ctx.count(f"status={o['status'].split(' ')[0]}")
        if m is None:
            continue
        ctx.traces += 1
        inp = {"cfg": ck, "mode": mode, "flags": o["flags"]}
        if m["status"] != o["status"]:
            ctx.disagree(stream + ":status", inp, m["status"], o["status"] + " | " + o["stderr_tail"][-200:])
            continue
        if mode == "lo" and o["rc"] == 0:
            # (a) textually: the listing prints the generator's own path objects (str of a pathlib path), untouched
            tgot, twant = sorted(set(split_list(o["stdout"]))), sorted(set(m["outputs"]))
            if tgot != twant:
                ctx.disagree(stream + ":list-outputs-text", inp, [x.replace(base, "$SB") for x in twant][:8], [x.replace(base, "$SB") for x in tgot][:8])
            # (b) by resolved identity
            got = sorted(set(sb.norm(x) for x in split_list(o["stdout"])))
            want = sorted(set(sb.norm(x) for x in m["outputs"]))
            if got != want:
                old = model.get("lo_old")
                note = " (= runBeforeFix)" if old and sorted(set(sb.norm(x) for x in old["outputs"])) == got else ""
                ctx.disagree(stream + ":list-outputs", inp, rel(want), str(rel(got)) + note)
        if mode == "li" and o["rc"] == 0:
            got = sorted(set(split_list(o["stdout"])))
            want = sorted(set(m["inputs"]))
            if got != want:
                ctx.disagree(stream + ":list-inputs", inp, {"only_model": sorted(set(want) - set(got)), "only_impl": sorted(set(got) - set(want))}, "see model field")
        if mode in ("lo", "li", "lc", "dry") and m["ops"]:
            ctx.disagree(stream + ":ops", inp, m["ops"], "a listing/dry-run mode must not have operations in the model either")
        if mode == "dry" and o["stdout"]:
            ctx.disagree(stream + ":dry-stdout", inp, "", o["stdout"][:200])
        if mode == "gen":
            want = sorted(set(sb.norm(x) for x in m["written"]))
            got = sorted(o["created_files"])
            if got != want:
                ctx.disagree(stream + ":generated-files", inp, rel(want), rel(got))
            # directories: mkdir(parents=True) walks the *textual* parents of every written path (so `a/../b` creates `a`)
            wd = set()
            for t in m["written"]:
                d = os.path.dirname(os.path.join(str(sb.cwd), t))
                while True:
                    r = os.path.realpath(d)
                    if (r == base or r.startswith(base + os.sep)) and r not in o["dirs_before"]:
                        wd.add(r)
                    nd = os.path.dirname(d)
                    if nd == d:
                        break
                    d = nd
            if sorted(wd) != sorted(o["created_dirs"]):
                ctx.disagree(stream + ":generated-dirs", inp, rel(wd), rel(o["created_dirs"]))
    # ---- the property on the implementation ---------------------------------------------------------------
    gen, lo = obs["gen"], obs["lo"]
    if gen["rc"] == 0:
        listed = sorted(set(sb.norm(x) for x in split_list(lo["stdout"])))
        made = sorted(gen["created_files"])
        if lo["rc"] != 0 or listed != made:
            ctx.fail({"kind": "list-outputs-differs-from-generated", "generate_support": cfg["gs"], "omit": cfg["omit"]}
                     | ({"with_list_configuration": 1} if lo["flags"][2] == "1" else {}),
                     "--list-outputs does not print exactly the files the real run creates",
                     {"cfg": ck, "list_outputs_rc": lo["rc"], "compared": "resolved identity (os.path.realpath) of the printed paths vs files found on disk",
                      "printed": [x.replace(base, "$SB") for x in split_list(lo["stdout"])][:6], "listed_not_created": rel(set(listed) - set(made)),
                      "created_not_listed": rel(set(made) - set(listed)), "cli": sb.cli_args(lo["flags"])})
        # listing over the existing output must print the same list again
        lo2 = obs.get("lo2")
        if lo2 is not None and lo2["rc"] == 0 and sorted(set(sb.norm(x) for x in split_list(lo2["stdout"]))) != listed and lo["rc"] == 0:
            ctx.fail({"kind": "list-outputs-depends-on-existing-output"}, "--list-outputs prints another list once the output exists",
                     {"cfg": ck, "before": rel(listed), "after": rel(sb.norm(x) for x in split_list(lo2["stdout"]))})
    # a second real run over the existing (now writable) outputs: the files it creates or rewrites are the listed ones
    gen2 = obs["gen2"]
    if gen["rc"] == 0 and gen2["rc"] == 0 and lo["rc"] == 0:
        listed = sorted(set(sb.norm(x) for x in split_list(lo["stdout"])))
        extra = sorted(set(gen2["created_files"]) - set(listed))
        untouched = sorted(set(listed) - set(gen2["created_files"]) - set(gen2["modified_files"]))
        if extra or gen2["deleted"] or gen2["created_dirs"]:
            ctx.fail({"kind": "rerun-creates-unlisted-files"},
                     "a real run over its own (writable) earlier output creates files --list-outputs does not name",
                     {"cfg": ck, "history": ["generate", "chmod u+w <outputs>", "generate"], "created_not_listed": rel(extra),
                      "deleted": rel(gen2["deleted"]), "created_dirs": rel(gen2["created_dirs"]), "cli": sb.cli_args(gen2["flags"])})
        if untouched:
            ctx.fail({"kind": "rerun-skips-listed-files"} | ({"with_list_configuration": 1} if lo["flags"][2] == "1" else {}), "a real run over its own earlier output does not rewrite a listed file",
                     {"cfg": ck, "not_rewritten": rel(untouched)})
    elif gen["rc"] == 0 and gen2["rc"] != 0:
        ctx.fail({"kind": "rerun-fails"}, "the same real run fails over its own earlier output",
                 {"cfg": ck, "status": gen2["status"], "stderr": gen2["stderr_tail"][-300:]})
    # nothing but the list on stdout
    for step in ("lo", "li", "lo2", "li2"):
        o = obs.get(step)
        if o is not None and o["rc"] == 0 and not list_format_ok(o["stdout"]):
            ctx.fail({"kind": "list-stdout-not-a-list", "mode": step.rstrip("2")},
                     "a listing mode writes something else than `<item>;<item>;…` to stdout",
                     {"cfg": ck, "step": step, "cli": sb.cli_args(o["flags"]), "stdout_head": o["stdout"][:300].replace(base, "$SB")})
    for step in ("li", "li2"):
        o = obs.get(step)
        if o is not None and o["rc"] == 0:
            ghosts = [x for x in split_list(o["stdout"]) if not os.path.exists(os.path.join(str(sb.cwd), x))]
            if ghosts:
                ctx.fail({"kind": "list-inputs-names-nonexistent"}, "--list-inputs prints an item that is not an existing file or directory",
                         {"cfg": ck, "step": step, "items": [g[:200].replace(base, "$SB") for g in ghosts[:4]], "cli": sb.cli_args(o["flags"])})
    for step in ("lo", "li", "lc", "dry", "lo2", "li2", "dry2"):
        o = obs.get(step)
        if o is not None and not o["diff"].empty:
            ctx.fail({"kind": "side-effect", "mode": step.rstrip("2")},
                     f"{step}: a listing / dry-run invocation changed the file system",
                     {"cfg": ck, "step": step, "cli": sb.cli_args(o["flags"]), "diff": o["diff"].as_dict(relative_to=base)})
    # a template in --support-templates that the real run rendered (its text is in a generated file) must be listed
    if sb.stpl is not None and gen["rc"] == 0 and obs["li"]["rc"] == 0:
        printed = set(os.path.realpath(os.path.join(str(sb.cwd), x)) for x in split_list(obs["li"]["stdout"]))
        rendered = set()
        for f in gen["created_files"]:
            try:
                text = pathlib.Path(f).read_text(errors="replace")
            except OSError:
                continue
            for mm in re.finditer(re.escape(SHADOW_MARK) + r" (\S+)", text):
                rendered.add(os.path.realpath(str(sb.stpl / mm.group(1))))
        missing = sorted(rendered - printed)
        if missing:
            ctx.fail({"kind": "unlisted-input", "class": "support-templates-dir"},
                     "a template of --support-templates was rendered into the output but --list-inputs does not print it",
                     {"cfg": ck, "rendered_not_listed": rel(missing), "cli": sb.cli_args(obs["li"]["flags"])})
    gd = obs["gen"]["diff"]
    touched_inputs = [p for p in gd.modified + gd.deleted + gd.created if p.startswith(str(sb.ind) + os.sep) or p == str(sb.ind)]
    if touched_inputs:
        ctx.fail({"kind": "side-effect", "mode": "gen-inputs"}, "the real run changed its input directories",
                 {"cfg": ck, "touched": rel(touched_inputs)})
    # T3, structural part, on the implementation: templates of the active directory and the sources of the root types
    li = obs["li"]
    if li["rc"] == 0 and cfg["gs"] != "only":
        printed = set(split_list(li["stdout"]))
        must = [e["src"] for e in sb.entries if not e["isNs"]]
        linked = []
        if sb.tpl is not None:
            for n, p, via in list_dir_files(sb.tpl, with_link_flag=True):
                if n.endswith(".j2"):
                    (linked if via else must).append(p)
                elif "__pycache__" in n.split("/")[:-1] and p in printed:
                    ctx.fail({"kind": "list-inputs-names-bytecode"}, "--list-inputs prints a file below a __pycache__ directory (changes by itself)",
                             {"cfg": ck, "file": os.path.relpath(p, base)})
        # definitions of the lookup directories that a root type embeds / takes a constant from (the harness wrote them)
        dep_files = sorted({d for e in sb.entries if not e["isNs"] for d in e["deps"]} - set(must))
        missing_deps = sorted(set(dep_files) - printed)
        if missing_deps:
            ctx.fail({"kind": "unlisted-input", "class": "lookup-dsdl", "lookup_through": cfg.get("lk", "arg")},
                     "--list-inputs omits a definition of a lookup directory that a generated type depends on",
                     {"cfg": ck, "missing": rel(missing_deps), "cli": sb.cli_args(li["flags"]), "env": sb.env()})
        missing = sorted(set(must) - printed)
        if missing:
            ctx.fail({"kind": "unlisted-input", "class": "structural"} | ({"with_list_configuration": 1} if li["flags"][2] == "1" else {}),
                     "--list-inputs omits a template or a root DSDL file",
                     {"cfg": ck, "missing": rel(missing)})
        missing = sorted(set(linked) - printed)
        if missing:
            ctx.fail({"kind": "unlisted-input", "class": "template-in-symlinked-dir"},
                     "--list-inputs omits templates below a symbolically linked sub-directory of --templates (Jinja opens them)",
                     {"cfg": ck, "missing": rel(missing)})


def run_stream(ctx, stream, cfgs, specs, drv, pythonpath, pkg_lang_dir, budget_s=None):
    """Execute configurations in parallel sandboxes, then compare with the model."""
    root = ctx.scratch / ("sb_" + stream)
    root.mkdir(exist_ok=True)
    jobs = []
    for i, cfg in enumerate(cfgs):
        sb = Sandbox(root / f"{i:05d}", cfg, specs, pkg_lang_dir)
        flagsets = {m: ctx.rng.choice(v) for m, v in MODE_FLAGS.items()}
        jobs.append((sb, flagsets))
    lines, index = [], []
    for j, (sb, fl) in enumerate(jobs):
        for mode in ("lo", "li", "lc", "dry", "gen"):
            lines.append(sb.model_line(fl[mode]))
            index.append((j, mode))
        lines.append(sb.model_line(fl["lo"], "old"))
        index.append((j, "lo_old"))
    models = [dict() for _ in jobs]
    if drv is not None:
        for (j, mode), ans in zip(index, drv.ask(lines, timeout=1200)):
            r = parse_answer(ans)
            if r is None:
                ctx.disagree(stream + ":driver", {"cfg": cfg_key(jobs[j][0].cfg), "mode": mode}, ans, "request not understood by the driver")
            else:
                models[j][mode] = r
    done = 0
    with concurrent.futures.ThreadPoolExecutor(WORKERS) as ex:
        futs = {}
        for j, (sb, fl) in enumerate(jobs):
            skip = () if not ctx.quick else (("li2",) if j % 2 == 0 else ("lo2", "dry2"))
            futs[ex.submit(execute, sb, fl, pythonpath, skip)] = j
        for fut in concurrent.futures.as_completed(futs):
            j = futs[fut]
            sb = jobs[j][0]
            obs = fut.result()
            evaluate(ctx, sb, obs, models[j], stream)
            if j % 7 == 0:
                ctx.sample({"stream": stream, "cfg": cfg_key(sb.cfg), "list_outputs": sorted(os.path.relpath(sb.norm(x), str(sb.base)) for x in split_list(obs["lo"]["stdout"]))[:6],
                            "gen_status": obs["gen"]["status"]})
            shutil.rmtree(sb.base, ignore_errors=True)
            done += 1
            if budget_s is not None and ctx.over_budget(budget_s):
                for f in futs:
                    f.cancel()
                break
    ctx.count(f"configs:{stream}", done)
    return done


# ---------------------------------------------------------------------------------------------------------------
# mutation search for --list-inputs
# ---------------------------------------------------------------------------------------------------------------
MARK = "MUTATED_BY_C08"


def mutations(path):
    """[(operator name, new content)] for one candidate input file."""
    try:
        text = pathlib.Path(path).read_text()
    except UnicodeDecodeError:
        return []
    out = []
    if path.endswith(DSDL_SUFFIXES):
        out.append(("dsdl-insert-field", "uint8 mutated_field_c08\n" + text))
        m = re.search(r"=\s*(\d+)", text)
        if m:
            out.append(("dsdl-bump-constant", text[:m.start(1)] + str(int(m.group(1)) + 1) + text[m.end(1):]))
    else:
        out.append(("append-text", text + "\n" + MARK + "\n"))
        out.append(("prepend-text", MARK + "\n" + text))
        i = text.find("{{")
        if i >= 0:
            out.append(("mark-first-expression", text[:i] + MARK + text[i:]))
        j = text.find("{% macro")
        if j >= 0:
            k = text.find("%}", j)
            if k >= 0:
                out.append(("mark-first-macro-body", text[:k + 2] + MARK + text[k + 2:]))
    return out


def classify_input(relpath, lang):
    parts = pathlib.PurePosixPath(relpath).parts
    j2 = relpath.endswith(".j2")
    if parts[0] == "in":
        if relpath.endswith(DSDL_SUFFIXES):
            return "root-dsdl" if parts[1] == "ROOT" else "lookup-dsdl"
        if parts[1] == "tpl_linked_dir":
            return "template-in-symlinked-dir" if j2 else "non-j2-template"
        if parts[1] == "stpl":
            return "support-templates-dir"
        return "custom-template" if j2 else "non-j2-template"
    if "templates" in parts:
        return "builtin-template" if j2 else "non-j2-template"
    return "support-resource"


# The Python target embeds `base85(gzip(pickle(model)))`; the gzip header carries the wall-clock time (C07's
# business, not this property's).  For the "did the output change" comparison the blob is replaced by the digest of
# its decompressed payload.
_BLOB = re.compile(rb"_restore_constant_\(\s*((?:'[^'\n]*'\s*)+)\)")


def _canonical_blob(m):
    try:
        raw = b"".join(re.findall(rb"'([^'\n]*)'", m.group(1)))
        return b"_restore_constant_(<" + hashlib.sha256(gzip.decompress(base64.b85decode(raw))).hexdigest().encode() + b">)"
    except Exception:
        return m.group(0)


class MutationSearch:
    def __init__(self, ctx, specs, drv):
        self.ctx, self.specs, self.drv = ctx, specs, drv
        self.slots = queue.Queue()
        self.nslots = 0
        self.root = ctx.scratch / "mut"
        self.root.mkdir(exist_ok=True)

    def new_slot(self):
        s = self.root / f"slot{self.nslots}"
        self.nslots += 1
        shutil.copytree(common.REPO / "src" / "nunavut", s / "pkg" / "nunavut", ignore=shutil.ignore_patterns("__pycache__", "*.pyc"))
        return pathlib.Path(os.path.realpath(s))

    def setup(self, slot, cfg, tag):
        base = slot / tag
        if base.exists():
            shutil.rmtree(base)
        return Sandbox(base, cfg, self.specs, slot / "pkg" / "nunavut" / "lang")

    @staticmethod
    def outputs_of(sb, slot):
        """{relative output path: digest}; the absolute sandbox / package paths the generators embed (source file
        comments) are replaced by placeholders so that runs in different slots compare equal."""
        out = sb.norm(sb.outarg)
        res = {}
        for p in fss.files(fss.snapshot([out], with_digest=False)):
            data = pathlib.Path(p).read_bytes()
            data = _BLOB.sub(_canonical_blob, data)
            data = data.replace(str(sb.base).encode(), b"$SB").replace(str(slot).encode(), b"$SLOT")
            res[os.path.relpath(p, out)] = hashlib.sha256(data).hexdigest()
        return res

    def relname(self, slot, sb, p):
        """slot-independent name of an input file"""
        p = os.path.realpath(p)
        r = os.path.relpath(p, str(sb.base))
        if not r.startswith(".."):
            parts = r.split(os.sep)
            if parts[0] == "in" and parts[1] == sb.spec["root"]:
                parts[1] = "ROOT"
            return "/".join(parts)
        return "PKG/" + os.path.relpath(p, str(slot / "pkg" / "nunavut")).replace(os.sep, "/")

    def run(self, mconfigs):
        ctx = self.ctx
        slot0 = self.new_slot()
        tasks, info = [], {}
        for mi, cfg in enumerate(mconfigs):
            sb = self.setup(slot0, cfg, f"base{mi}")
            pp = slot0 / "pkg"
            rc, so, se = nnvg(sb.cli_args("0100"), sb.cwd, pp, hashseed=0, env_extra=sb.env())
            if rc != 0:
                ctx.disagree("mutation:baseline", cfg_key(cfg), "ok", classify(rc, se) + " " + se[-300:])
                continue
            listed = set(self.relname(slot0, sb, x) for x in split_list(so))
            rc1, _, se1 = nnvg(sb.cli_args("0000"), sb.cwd, pp, hashseed=0, env_extra=sb.env())
            out1 = self.outputs_of(sb, slot0)
            shutil.rmtree(sb.norm(sb.outarg), ignore_errors=True)
            rc2, _, _ = nnvg(sb.cli_args("0000"), sb.cwd, pp, hashseed=0, env_extra=sb.env())
            out2 = self.outputs_of(sb, slot0)
            if rc1 != 0 or rc2 != 0:
                ctx.disagree("mutation:baseline", cfg_key(cfg), "ok", classify(rc1, se1) + " " + se1[-300:])
                continue
            unstable = {k for k in set(out1) | set(out2) if out1.get(k) != out2.get(k)}
            cands = []
            lang = cfg["lang"]
            dirs = [sb.ind] + [slot0 / "pkg" / "nunavut" / "lang" / lang / "templates", slot0 / "pkg" / "nunavut" / "lang" / lang / "support"]
            for d in dirs:
                for n, p in list_dir_files(d):
                    if p.endswith((".py", ".pyc")):
                        continue
                    cands.append(self.relname(slot0, sb, p))
            model_reads = None
            if self.drv is not None:
                r = parse_answer(self.drv.ask([sb.model_line("0100")])[0])
                if r is not None:
                    model_reads = set(self.relname(slot0, sb, x) for x in r["reads"])
            info[mi] = {"cfg": cfg, "listed": listed, "baseline": out1, "unstable": unstable, "reads": model_reads, "influential": {}}
            for c in sorted(set(cands)):
                nm = len(mutations(self.abspath(slot0, sb, c)))
                if ctx.quick and c.startswith("PKG/") and c in listed:
                    nm = min(nm, 1)     # a packaged file that is listed anyway: one operator is enough to tie `reads`
                for k in range(nm):
                    tasks.append((mi, c, k))
            shutil.rmtree(sb.base, ignore_errors=True)
        self.slots.put(slot0)
        for _ in range(WORKERS - 1):
            self.slots.put(None)   # created lazily

        baselines = {}   # (slot, mi) -> outputs of the unmutated run at exactly the paths the mutated runs use

        def work(task):
            mi, c, k = task
            slot = self.slots.get()
            if slot is None:
                slot = self.new_slot()
            try:
                cfg = info[mi]["cfg"]
                if (slot, mi) not in baselines:
                    sb = self.setup(slot, cfg, "w")
                    rc, _, se = nnvg(sb.cli_args("0000"), sb.cwd, slot / "pkg", hashseed=0, env_extra=sb.env())
                    baselines[(slot, mi)] = self.outputs_of(sb, slot) if rc == 0 else None
                    shutil.rmtree(sb.base, ignore_errors=True)
                sb = self.setup(slot, cfg, "w")
                target = self.abspath(slot, sb, c)
                original = pathlib.Path(target).read_bytes()
                name, new = mutations(target)[k]
                try:
                    pathlib.Path(target).write_text(new)
                    rc, _, se = nnvg(sb.cli_args("0000"), sb.cwd, slot / "pkg", hashseed=0, env_extra=sb.env())
                    out = self.outputs_of(sb, slot) if rc == 0 else None
                finally:
                    pathlib.Path(target).write_bytes(original)
                shutil.rmtree(sb.base, ignore_errors=True)
                return mi, c, name, rc, out, se.strip()[-200:], baselines[(slot, mi)]
            finally:
                self.slots.put(slot)

        with concurrent.futures.ThreadPoolExecutor(WORKERS) as ex:
            for mi, c, name, rc, out, tail, base in ex.map(work, tasks):
                inf = info[mi]
                ctx.case(("mutation", json.dumps(cfg_key(inf["cfg"]), sort_keys=True), c, name), True)
                ctx.count("mutation-runs")
                if base is None:
                    ctx.disagree("mutation:baseline", cfg_key(inf["cfg"]), "ok", "the unmutated run failed in a worker slot")
                    continue
                if rc != 0:
                    changed = ["<generation failed: " + tail.splitlines()[-1][:120] + ">"] if tail else ["<generation failed>"]
                else:
                    changed = sorted(k for k in set(base) | set(out) if k not in inf["unstable"] and base.get(k) != out.get(k))
                if changed:
                    inf["influential"].setdefault(c, (name, changed[:4]))
        for mi, inf in info.items():
            cfg = inf["cfg"]
            ck = cfg_key(cfg)
            ctx.count("mutation-influential-files", len(inf["influential"]))
            for c, (name, changed) in sorted(inf["influential"].items()):
                cls = classify_input(c, cfg["lang"])
                ctx.count("influential:" + cls)
                if c not in inf["listed"]:
                    ctx.fail({"kind": "unlisted-input", "class": cls},
                             "a file whose content changes the generated output is not printed by --list-inputs",
                             {"cfg": ck, "file": c, "mutation": name, "outputs_changed": changed})
                # tie of the model's `reads`: what the search finds influential must be something the model says is read
                if inf["reads"] is not None and c not in inf["reads"] and not (cfg.get("tpl", "none") != "none" and cls in ("non-j2-template", "template-in-symlinked-dir")):
                    ctx.traces += 1
                    ctx.disagree("mutation:reads", {"cfg": ck, "file": c}, "not in reads", f"influential ({name}: {changed})")
                else:
                    ctx.traces += 1
            ctx.sample({"stream": "mutation", "cfg": ck, "influential": sorted(inf["influential"])[:8],
                        "unlisted": sorted(c for c in inf["influential"] if c not in inf["listed"])})

    def abspath(self, slot, sb, c):
        if c.startswith("PKG/"):
            return str(slot / "pkg" / "nunavut" / c[4:])
        parts = c.split("/")
        if parts[0] == "in" and parts[1] == "ROOT":
            parts[1] = sb.spec["root"]
        return str(sb.base.joinpath(*parts))


# ---------------------------------------------------------------------------------------------------------------
# in-process API stream: listing and generating methods called repeatedly on the SAME generator objects
# ---------------------------------------------------------------------------------------------------------------
API_SEQUENCES = ["DTG", "DGT", "TDG", "TGD", "GDT", "GTD", "DDG", "DGG", "GDG", "GGD", "TTG", "DGD", "TGT"]


def api_history(lang, omit, seq, work):
    """One pair of generator objects (as ArgparseRunner builds them), the calls of `seq` in order:
    D = generate_all(is_dryrun=True) on both, T = get_templates() on both, G = generate_all() on both (into an emptied
    output directory).  Returns [(op, result sets, file-system diff)]."""
    import pydsdl
    from nunavut._generators import create_default_generators
    from nunavut._namespace import build_namespace_tree
    from nunavut.lang import LanguageContextBuilder
    work = pathlib.Path(os.path.realpath(work))
    root = work / "in" / "api"
    if not root.exists():
        write_namespace({"types": [T("api.One"), T("api.sub.Two", "union")]}, work / "in")
    out = work / "out"
    shutil.rmtree(out, ignore_errors=True)
    lctx = LanguageContextBuilder(include_experimental_languages=True).set_target_language(lang).create()
    tree = build_namespace_tree(pydsdl.read_namespace(str(root), []), str(root), str(out), lctx)
    gen, sup = create_default_generators(tree)
    res = []
    for op in seq:
        if op == "G":
            shutil.rmtree(out, ignore_errors=True)
        before = fss.snapshot([work])
        if op == "D":
            r = {"types": sorted(str(x) for x in gen.generate_all(is_dryrun=True, omit_serialization_support=omit)),
                 "support": sorted(str(x) for x in sup.generate_all(is_dryrun=True, omit_serialization_support=omit))}
        elif op == "T":
            r = {"types": sorted(str(x) for x in gen.get_templates(omit_serialization_support=omit)),
                 "support": sorted(str(x) for x in sup.get_templates(omit_serialization_support=omit))}
        else:
            sup.generate_all(omit_serialization_support=omit)
            gen.generate_all(omit_serialization_support=omit)
            r = None
        after = fss.snapshot([work])
        d = fss.diff(before, after)
        if op == "G":
            made = sorted(x for x in d.created if after[x].kind != "d")
            scomps = [c for c in lctx.get_target_language().support_namespace if c]
            sdir = str(out / pathlib.Path(*scomps)) if (lang != "py" and scomps) else None   # html: no support namespace, no support files
            r = {"support": [m for m in made if (sdir and m.startswith(sdir + os.sep)) or (lang == "py" and os.path.basename(m) == "nunavut_support.py")]}
            r["types"] = [m for m in made if m not in r["support"]]
        res.append((op, r, d))
    return res


def api_stream(ctx_like, quick, work):
    """Runs in a background thread; returns records for the main thread (no ctx mutation here)."""
    records = []
    combos = [("c", False), ("c", True), ("py", False), ("cpp", False)] if quick else [(l, o) for l in ("c", "cpp", "py", "html") for o in (False, True)]
    seqs = API_SEQUENCES if quick else API_SEQUENCES + ["".join(t) for t in itertools.product("DTG", repeat=3) if "".join(t) not in API_SEQUENCES] + ["DGDGTD", "GGGDDD", "TDTGTD"]
    n = 0
    for lang, omit in combos:
        w = pathlib.Path(work) / f"{lang}_{int(omit)}"
        try:
            ref = {op: api_history(lang, omit, op, w)[0][1] for op in "DTG"}   # each op as the FIRST call on fresh objects
        except Exception as e:  # noqa
            records.append(("error", lang, omit, "reference", repr(e)[:300]))
            continue
        for seq in seqs:
            n += 1
            try:
                hist = api_history(lang, omit, seq, w)
            except Exception as e:  # noqa
                records.append(("error", lang, omit, seq, repr(e)[:300]))
                continue
            records.append(("history", lang, omit, seq, ref, hist))
    return records


def evaluate_api(ctx, records, drv, pkg_lang_dir):
    for rec in records:
        if rec[0] == "error":
            ctx.disagree("api:error", {"lang": rec[1], "omit": rec[2], "sequence": rec[3]}, "no exception", rec[4])
            continue
        _, lang, omit, seq, ref, hist = rec
        for i, (op, r, d) in enumerate(hist):
            ctx.case(("api", lang, omit, seq, i), True)
            ctx.count("api-calls")
            ctx.traces += 1
            inp = {"lang": lang, "omit": omit, "sequence": seq, "call": i, "op": op}
            # the model is a function of the arguments only: the i-th call must answer like a first call on fresh objects
            if r != ref[op]:
                ctx.fail({"kind": "api-history-dependence", "op": op},
                         "a listing / generating method answers differently when other calls were made on the same generator objects before",
                         dict(inp, got={k: [os.path.basename(x) for x in v] for k, v in r.items()},
                              first_call_on_fresh_objects={k: [os.path.basename(x) for x in v] for k, v in ref[op].items()}))
            if op in "DT" and not d.empty:
                ctx.fail({"kind": "side-effect", "mode": "api-" + op}, "a dry-run / get_templates call changed the file system", dict(inp, diff=d.as_dict()))
        # the property inside one history: every dry-run list == the files of every real run
        ds = [r for op, r, _ in hist if op == "D"]
        gs = [r for op, r, _ in hist if op == "G"]
        for dr in ds:
            for gr in gs:
                if dr != gr:
                    ctx.fail({"kind": "api-dry-run-differs-from-generated"},
                             "generate_all(is_dryrun=True) and generate_all() on the same objects disagree about the files",
                             {"lang": lang, "omit": omit, "sequence": seq, "dry_run": {k: [os.path.basename(x) for x in v] for k, v in dr.items()},
                              "created": {k: [os.path.basename(x) for x in v] for k, v in gr.items()}})
                    break
    # tie to the model: the first-call answers against the model's listing (types: gs=never; support: gs=only)
    if drv is None:
        return
    done = set()
    for rec in records:
        if rec[0] != "history" or (rec[1], rec[2]) in done:
            continue
        _, lang, omit, seq, ref, hist = rec
        done.add((lang, omit))
        out = None
        for v in ref["D"].values():
            for x in v:
                out = x
        if out is None:
            continue
        work = out[:out.index("/out/")]
        spec = {"root": "api", "lookups": [], "types": [T("api.One"), T("api.sub.Two", "union")]}
        ents = entries_for(spec, work + "/in")
        class _SB:  # the few attributes model_line needs
            pass
        for part, gsv in (("types", "never"), ("support", "only")):
            sb = Sandbox.__new__(Sandbox)
            sb.cfg = {"lang": lang, "gs": gsv, "omit": int(omit), "gnt": 0, "ext": None, "stem": None}
            sb.pkg_lang_dir, sb.outarg, sb.tpl, sb.stpl, sb.entries = str(pkg_lang_dir), work + "/out", None, None, ents
            m = parse_answer(drv.ask([sb.model_line("1000")])[0])
            ctx.traces += 1
            if m is None or sorted(m["outputs"]) != ref["D"][part]:
                ctx.disagree("api:model", {"lang": lang, "omit": omit, "part": part}, None if m is None else sorted(m["outputs"]), ref["D"][part])


# ---------------------------------------------------------------------------------------------------------------
# streams
# ---------------------------------------------------------------------------------------------------------------
def argv_stream(ctx, drv):
    """The command-line layer: real argparse parser + real ArgparseRunner (recording generators) vs Model/CliParse.lean."""
    from . import cliparse_tie as ct
    impl = ct.Impl()
    argvs = [list(a) for a in ct.CORPUS] + ct.exhaustive(impl) + ct.random_argvs(ctx.rng, impl, 2500 if ctx.quick else 40000)
    nsdir = ctx.scratch / "argv_ns"
    nsdir.mkdir(exist_ok=True)
    runnable = ct.runnable_argvs(ctx.rng, 250 if ctx.quick else 4000, str(nsdir))
    ctx.extra.setdefault("domain", {})["argv_vectors"] = {"corpus": len(ct.CORPUS), "exhaustive_prefixes_and_forms": len(ct.exhaustive(impl)),
                                                           "random": len(argvs) - len(ct.CORPUS) - len(ct.exhaustive(impl)), "runnable": len(runnable)}
    if drv is None:
        return
    lines = ["parse " + " ".join(enc(a) for a in argv) for argv in argvs + runnable]
    answers = drv.ask(lines, timeout=1200)
    acc = ct.compare_parse(ctx, "argv", impl, argvs, answers[:len(argvs)])
    acc_run = ct.compare_parse(ctx, "argv-runnable", impl, runnable, answers[len(argvs):])

    def oracle(argv, args, p):
        # the property on the implementation: with a listing / dry-run flag in the namespace no generator may be asked to write
        listing = bool(args.list_outputs or args.list_inputs or args.list_configuration or args.dry_run)
        for target, fn, kw in p.get("calls", []):
            if fn == "generate_all" and listing and not kw.get("is_dryrun", False):
                ctx.fail({"kind": "side-effect", "mode": "cli-flag-not-forwarded"},
                         "a listing / dry-run command line reaches generate_all without is_dryrun",
                         {"argv": argv, "call": [target, fn, {k: repr(v) for k, v in kw.items()}]})
    ct.compare_plan(ctx, "argv-plan", impl, acc_run + acc[: (150 if ctx.quick else 3000)], oracle)


def corpus_cfgs():
    out = []
    d = common.VERIF / "corpus" / "C08"
    if d.exists():
        for f in sorted(d.glob("*.json")):
            for c in json.loads(f.read_text()):
                out.append(c["cfg"])
    return out


def make_augmented_package(ctx):
    """A scratch copy of the package with one copied (non-template) support resource for C and one for C++."""
    dest = ctx.scratch / "augpkg"
    shutil.copytree(common.REPO / "src" / "nunavut", dest / "nunavut", ignore=shutil.ignore_patterns("__pycache__", "*.pyc"))
    (dest / "nunavut" / "lang" / "c" / "support" / "extra_defs.h").write_text("/* copied resource */  \n#define C08_EXTRA 1\n\n\n\n")
    (dest / "nunavut" / "lang" / "cpp" / "support" / "extra_types.hpp").write_text("// copied resource\r\nstruct c08_extra {};\r\n")
    return pathlib.Path(os.path.realpath(dest))


def run(ctx: common.Ctx):
    # ---- translator: the per-language table from the tree under check -----------------------------------------
    try:
        from translate import supportfiles
        tr = supportfiles.main(common.LEAN / "NunavutVerif" / "Gen" / "SupportFiles.lean")
        ctx.extra["translator"] = {"changed": tr["changed"], "rows": {r["name"]: {k: r[k] for k in ("serSupport", "typeSupport", "included")} for r in tr["rows"]}}
    except Exception as e:  # the source can no longer be expressed: tie broken
        ctx.broken.append({"kind": "translator", "error": repr(e)[:500]})
    try:
        from translate import cliargs
        tr2 = cliargs.main(common.REPO)
        ctx.extra.setdefault("translator", {})["cliargs"] = {"changed": tr2["changed"], "actions": tr2["actions"], "rejections": tr2["rejections"],
                                                             "run_chain": tr2["chain"], "calls": tr2["calls"]}
    except Exception as e:  # the parser / runner can no longer be expressed in the tables: tie broken
        ctx.broken.append({"kind": "translator", "translator": "cliargs", "error": repr(e)[:500]})
    drivers = ctx.prove(["C08"], exes=["cli"])
    drv = drivers.get("cli")
    argv_stream(ctx, drv)
    ctx.rule = ("one case = one nnvg subprocess (configuration x mode, or configuration x mutated input file); non-trivial = prints, creates or "
                "fails; configurations: pairwise-covering (quick) / full grid (thorough) over language x generate-support x omit x "
                "namespace-types x templates dir x support-templates dir x extension x stem x namespace x outdir style; distinct by "
                "(stream, configuration, mode)")
    ctx.assumptions = [
        "the namespace tree (which types exist, their names) comes from the harness' own DSDL files and the rule <outdir>/<namespace folders>/<Short>_<major>_<minor><ext> (C11 owns the tree)",
        "template lookup candidates per pydsdl class come from the real class objects (C16 owns the search)",
        "rendering itself (template errors, content) is outside the model: 'generation succeeds' means every template is found",
        "--list-configuration, post-processor options and --no-overwrite are not part of this property (C12/C15)",
    ]
    specs = ns_specs(ctx.rng, not ctx.quick)
    src = common.REPO / "src"
    pkg_lang_dir = pathlib.Path(os.path.realpath(src / "nunavut" / "lang"))
    pkg_before = fss.snapshot([src / "nunavut"])

    # ---- stream 4 (in-process, background thread): repeated API calls on the same generator objects ------------
    api_box = {}
    api_thread = threading.Thread(target=lambda: api_box.setdefault("records", api_stream(None, ctx.quick, ctx.scratch / "api")), daemon=True)
    api_thread.start()

    # ---- stream 1: corpus + grid on the real package -------------------------------------------------------
    corpus = corpus_cfgs()
    if ctx.quick:
        grid = pairwise(FACTORS_QUICK, ctx.rng)
    else:
        grid = wide_cfgs(ctx.rng, 3)
        # the full product of the decision-relevant factors; the remaining ones are drawn per configuration
        f = collections.OrderedDict((k, FACTORS_QUICK[k]) for k in ("lang", "gs", "omit", "gnt", "tpl", "ext", "stem"))
        full = list(full_grid(f))
        ctx.rng.shuffle(full)
        for c in full:
            c.update(stpl=ctx.rng.choice(["none", "shadow"]), ns=ctx.rng.choice(["plain", "lookup", "solo", "random"]),
                     out=ctx.rng.choice(list(OUT_STYLES)), inp=ctx.rng.choice(IN_STYLES), lk=ctx.rng.choice(["arg", "env"]))
        grid += full
    ctx.extra["domain"] = {"corpus": len(corpus), "grid_configurations": len(grid)}
    run_stream(ctx, "corpus", corpus, specs, drv, src, pkg_lang_dir)
    run_stream(ctx, "grid", grid, specs, drv, src, pkg_lang_dir, budget_s=None if ctx.quick else 780)

    pkg_after = fss.snapshot([src / "nunavut"])
    pd = fss.diff(pkg_before, pkg_after)
    if not pd.empty:
        ctx.fail({"kind": "side-effect", "mode": "package-dir"}, "running nnvg changed the installed package directory",
                 {"diff": pd.as_dict(relative_to=str(src))})

    # ---- stream 2: copied support resources (scratch copy of the package) ---------------------------------------
    aug = make_augmented_package(ctx)
    acfgs = []
    for lang, key, name in (("c", "extra_ser", "extra_defs.h"), ("cpp", "extra_type", "extra_types.hpp")):
        for gs in GS:
            for omit in (0, 1):
                c = {"lang": lang, "gs": gs, "omit": omit, "gnt": 0, "tpl": "none", "stpl": "none", "ext": None, "stem": None,
                     "ns": "plain", "out": "rel", key: [name]}
                acfgs.append(c)
                if not ctx.quick or (gs, omit) in (("only", 1), ("as-needed", 0)):
                    acfgs.append(dict(c, extra_args=["--pp-trim-trailing-whitespace"], ext=".inc"))
    if ctx.quick:   # the decision-relevant corners; the thorough tier runs the whole product
        acfgs = [c for c in acfgs if (c["gs"], c["omit"]) in (("as-needed", 0), ("only", 1), ("only", 0), ("never", 0), ("always", 0), ("as-needed", 1))]
    run_stream(ctx, "copied-resource", acfgs, specs, drv, aug, aug / "nunavut" / "lang")

    # ---- stream 3: mutation search ------------------------------------------------------------------------------
    def mc(lang, ns, tpl="none", stpl="none", gs="as-needed", gnt=0):
        return {"lang": lang, "gs": gs, "omit": 0, "gnt": gnt, "tpl": tpl, "stpl": stpl, "ext": None, "stem": None, "ns": ns, "out": "rel"}
    if ctx.quick:
        mcfgs = [dict(mc("c", "lookup"), lk="env"), mc("html", "plain"), mc("py", "lookup", tpl="copy", stpl="shadow"), mc("c", "plain", tpl="tree", gnt=1),
                 dict(mc("c", "plain", stpl="shadow"), inp="rel")]
    else:
        mcfgs = []
        for l in LANGS:
            mcfgs += [mc(l, "plain"), dict(mc(l, "lookup"), lk="env"), mc(l, "lookup", "copy", "shadow")]
            mcfgs.append(mc(l, "random", "copy", "shadow") if l in ("c", "py") else mc(l, "random"))
            mcfgs.append(mc(l, "plain", tpl="tree", gnt=1))
            mcfgs.append(dict(mc(l, "plain", tpl="copy" if l in ("cpp", "py") else "none", stpl="shadow"), inp="rel"))
    ctx.extra["domain"]["mutation_configurations"] = len(mcfgs)
    MutationSearch(ctx, specs, drv).run(mcfgs)
    api_thread.join(timeout=600)
    if "records" not in api_box:
        ctx.disagree("api:error", {}, "finished", "the in-process API stream did not finish in time")
    else:
        evaluate_api(ctx, api_box["records"], drv, pkg_lang_dir)
    ctx.exhaustive = False
    if ctx.disagreements:
        ctx.extra["disagreement_samples"] = ctx.disagreements[:8]


def replay(ctx, path):
    r = json.loads(open(path).read())
    rp = r.get("replay", {})
    cfg = rp.get("cfg")
    if rp.get("argv") is not None and not cfg:
        # command-line stream: the argument vector through the real parser and the real runner (recording generators)
        from . import cliparse_tie as ct
        impl = ct.Impl()
        a = impl.answer(rp["argv"])
        out = {"argv": rp["argv"], "parser": a["status"]}
        bad = False
        if a["status"] == "ok":
            p = impl.plan(a["args"])
            args = a["args"]
            listing = bool(args.list_outputs or args.list_inputs or args.list_configuration or args.dry_run)
            out["calls"] = [[t, fn, {k: repr(v) for k, v in kw.items()}] for t, fn, kw in p.get("calls", [])]
            bad = any(fn == "generate_all" and listing and not kw.get("is_dryrun", False) for t, fn, kw in p.get("calls", []))
        print(json.dumps(out, indent=1))
        ctx.cleanup()
        return 1 if bad else 0
    if not cfg:
        print("nothing to replay (no failing input in the file)")
        return 1
    cfg = dict(cfg)
    if cfg.get("ns") == "random":
        print("the random namespace is derived from the seed; re-run ./check C08 --tier thorough --seed", r.get("seed"))
    specs = ns_specs(common.random.Random(r.get("seed", 0)), True)
    src = common.REPO / "src"
    pythonpath, pkg = src, pathlib.Path(os.path.realpath(src / "nunavut" / "lang"))
    if cfg.get("extra_ser") or cfg.get("extra_type"):
        pythonpath = make_augmented_package(ctx)
        pkg = pythonpath / "nunavut" / "lang"
    if r.get("key", {}).get("kind") == "unlisted-input" and "file" in rp:
        before = len(ctx.failures)
        MutationSearch(ctx, specs, None).run([cfg])
        hits = [f for f in ctx.failures[before:] if f["replay"].get("file") == rp["file"]]
        print(json.dumps({"unlisted_influential_files": sorted(f["replay"]["file"] for f in ctx.failures[before:])}, indent=1))
        ctx.cleanup()
        return 1 if hits else 0
    sb = Sandbox(ctx.scratch / "replay", cfg, specs, pkg)
    obs = execute(sb, {m: v[0] for m, v in MODE_FLAGS.items()}, pythonpath)
    base = str(sb.base)
    listed = sorted(os.path.relpath(sb.norm(x), base) for x in split_list(obs["lo"]["stdout"]))
    made = sorted(os.path.relpath(p, base) for p in obs["gen"]["created_files"])
    side = {s: obs[s]["diff"].as_dict(relative_to=base) for s in ("lo", "li", "lc", "dry", "lo2", "li2", "dry2") if s in obs and not obs[s]["diff"].empty}
    before = len(ctx.failures)
    evaluate(ctx, sb, obs, {}, "replay")
    found = [f for f in ctx.failures[before:]]
    print(json.dumps({"cli": sb.cli_args("1000"), "list_outputs": listed, "created_by_real_run": made, "gen_status": obs["gen"]["status"],
                      "side_effects": side, "property_failures": [{"key": f["key"], "what": f["what"]} for f in found]}, indent=1, default=str))
    ctx.cleanup()
    want = r.get("key", {}).get("kind")
    return 1 if any(f["key"].get("kind") == want or want is None for f in found) else 0
