"""
C11 - types map one-to-one onto files in the output tree; the namespace model is a tree.

Proof: lean/NunavutVerif/Properties/C11.lean (model: Model/Namespace.lean).
Tie: DSDL namespaces written into scratch -> the real front end (pydsdl.read_namespace) -> the real
`build_namespace_tree`, `Namespace` traversals / lookups, `IncludeGenerator.make_path`, the real generators in
dry-run (and real runs snapshotted against a sandbox directory that encloses the output directory) versus the
compiled Lean model (`nstree` driver) fed with the same type list, the `filter_id(., "path")` table sampled from
the real language object and the order in which the real second pass walks its `set`.  A second stream ties the
model's pathlib fragment to `pathlib.PurePosixPath`.
Failing-input search: the statements of the property as independent predicates on the real objects.
"""
import itertools
import json
import os
import pathlib
import shutil
import sys

from . import common
from .common import enc, dec
from . import dsdlgen_simple
from . import c11_watch as watch

LANGS = ["c", "cpp", "py", "html"]
EXT_OVERRIDES = [".hh", ".x", ".tar.gz", ".h.in", ".PY", ".._", ""]
EXT_INVALID = ["h", ".", ".a/b"]
STEM_OVERRIDES = ["nsfile", "__ns__", "x.y", "_0", "index.v2"]


# ------------------------------------------------------------------------------------------------------------
# names
# ------------------------------------------------------------------------------------------------------------
def tkey(t):
    return (tuple(t.full_namespace.split(".")), t.short_name, int(t.version.major), int(t.version.minor))


def kstr(k):
    return ".".join(k)


def tstr(t):
    return f"{kstr(t[0])}.{t[1]}.{t[2]}.{t[3]}"


def short_ver(t):
    return f"{t[1]}_{t[2]}_{t[3]}"


def parts_of(p):
    return list(pathlib.PurePosixPath(p).parts)


# ------------------------------------------------------------------------------------------------------------
# the real implementation
# ------------------------------------------------------------------------------------------------------------
def make_lctx(lang, ext=None, stem=None, enable=None, config_files=()):
    """The API route of the path glue: the same builder calls `ArgparseRunner._create_language_context` makes - both
    overrides are handed over whether given or not (`None` = not given; the empty string is a value)."""
    from nunavut.lang import LanguageContextBuilder, Language
    b = LanguageContextBuilder(include_experimental_languages=True).set_target_language(lang)
    if config_files:
        b.add_config_files(*[pathlib.Path(f) for f in config_files])
    b.set_target_language_extension(ext)
    b.set_target_language_configuration_override(Language.WKCV_NAMESPACE_FILE_STEM, stem)
    if enable is not None:
        b.set_target_language_configuration_override(Language.WKCV_ENABLE_STROPPING, enable)
    return b.create()


def read_root(root):
    import pydsdl
    return pydsdl.read_namespace(root["dir"], root["lookup"], allow_unregulated_fixed_port_id=True)


def direct_deps(language, t):
    return list(language.get_dependency_builder(t).direct().composite_types)


def second_pass_order(types):
    """The order in which `for full_namespace in namespace_index` walks its set: the same strings added to a
    fresh set in the same sequence (same process => same hashes => same table).  Only the *order* is taken from
    here; the model recomputes the members and answers err:order if they differ."""
    index, made = set(), set()
    for t in types:
        if t.full_namespace not in made:
            made.add(t.full_namespace)
            nc = t.name_components
            for i in range(len(nc) - 1, 0, -1):
                a = ".".join(nc[0:i])
                if a in index:
                    break
                index.add(a)
    return [tuple(s.split(".")) for s in index]


_MISSING = object()
_ROOT_PARENT = [None]      # resolved parent directory of the root namespace directory of the tree being looked at
_PRIVATE_NOTES = {}        # private attribute -> why the optional cross-check could not be made (reported once per run)


def priv(obj, name):
    """A private attribute, for optional cross-checks only; never raises."""
    try:
        return getattr(obj, name)
    except Exception as ex:  # renamed / removed / re-typed: the public walk goes on
        _PRIVATE_NOTES.setdefault(name, f"{type(ex).__name__}: {ex}"[:200])
        return _MISSING


_KEY_CACHE = {}            # id(namespace object) -> (object, key); valid for the tree currently looked at


def set_root_dir(root_dir):
    _ROOT_PARENT[0] = pathlib.Path(root_dir).resolve().parent
    _KEY_CACHE.clear()


def is_namespace(x):
    import nunavut
    return isinstance(x, nunavut.Namespace)


def nested_of(ns):
    """Directly nested namespaces through the public API."""
    return [c for c in ns.get_nested_namespaces() if is_namespace(c)]


def walk_nodes(root):
    """Namespace objects reachable from the root through get_nested_namespaces(), each object once."""
    out, seen, todo = [], set(), [root]
    while todo:
        n = todo.pop()
        if id(n) in seen:
            continue
        seen.add(id(n))
        out.append(n)
        todo.extend(nested_of(n))
    return out


def nskey(ns):
    """Unstropped name components of a namespace: from the public `source_file_path` (the DSDL directory) relative to
    the root namespace's parent directory; `Namespace("")` (no types) is the single empty component.  The private
    `_namespace_components` is only a cross-check."""
    hit = _KEY_CACHE.get(id(ns))
    if hit is not None and hit[0] is ns:
        return hit[1]
    key = _nskey_uncached(ns)
    _KEY_CACHE[id(ns)] = (ns, key)
    return key


def _nskey_uncached(ns):
    key = None
    try:
        if ns.full_namespace == "":
            key = ("",)
        elif _ROOT_PARENT[0] is not None:
            key = tuple(pathlib.Path(ns.source_file_path).resolve().relative_to(_ROOT_PARENT[0]).parts)
    except Exception as ex:
        _PRIVATE_NOTES.setdefault("source_file_path", f"{type(ex).__name__}: {ex}"[:200])
    c = priv(ns, "_namespace_components")
    if c is not _MISSING and isinstance(c, (list, tuple)) and all(isinstance(x, str) for x in c):
        if key is None:
            key = tuple(c)
        elif tuple(c) != key:
            _PRIVATE_NOTES.setdefault("_namespace_components!=source_file_path", f"{tuple(c)} vs {key}")
    if key is None:
        raise RuntimeError(f"cannot name namespace {ns.full_namespace!r}")
    return key


def parent_map(root):
    """child object id -> list of parent objects, from the public nested-namespace view."""
    pm = {}
    for n in walk_nodes(root):
        for c in nested_of(n):
            pm.setdefault(id(c), []).append(n)
    return pm


def impl_extract(types, every, root_dir, out_dir, lctx, with_support=True):
    """Everything the property talks about, from the real objects, canonicalised."""
    from nunavut import build_namespace_tree
    from nunavut.jinja import DSDLCodeGenerator
    from nunavut.lang._common import IncludeGenerator
    language = lctx.get_target_language()
    try:
        root = build_namespace_tree(types, root_dir, out_dir, lctx)
    except ValueError:
        return {"error": "err:value"}, None
    set_root_dir(root_dir)
    res = {"root": kstr(nskey(root))}
    nodes = {}
    pm = parent_map(root)
    for n in walk_nodes(root):
        ps = pm.get(id(n), [])
        nodes[kstr(nskey(n))] = {
            "parent": None if not ps else kstr(nskey(ps[0])),
            "nested": sorted(kstr(nskey(c)) for c in nested_of(n)),
            "path": parts_of(n.find_output_path_for_type(n)),
            "types": sorted([tstr(tkey(t)), parts_of(p)] for t, p in n.get_nested_types()),
        }
    res["nodes"] = nodes
    nss = list(root.get_all_namespaces())
    res["namespaces"] = sorted(kstr(nskey(n)) for n, _ in nss)
    res["datatypes"] = sorted([tstr(tkey(t)), parts_of(p)] for t, p in root.get_all_datatypes())
    al = []
    for x, p in root.get_all_types():
        if is_namespace(x):
            al.append(["N", kstr(nskey(x))])
        else:
            al.append(["T", tstr(tkey(x)), parts_of(p)])
    res["alltypes"] = sorted(al)
    find = []
    for n, _ in nss:
        for t in every:
            try:
                r = parts_of(n.find_output_path_for_type(t))
            except KeyError:
                r = "K"
            find.append([kstr(nskey(n)), tstr(tkey(t)), r])
    res["find"] = sorted(find, key=repr)
    gen = DSDLCodeGenerator(root)
    inc = {}
    for t in every:
        a = IncludeGenerator.make_path(t, language, language.extension).as_posix()
        try:
            b = gen.filter_type_to_include_path(t)
        except KeyError:
            b = "Ekey-error"
        except ValueError:
            b = "Enot-relative"
        inc[tstr(tkey(t))] = [a, b]
    res["inc"] = inc
    from nunavut.jinja import SupportGenerator
    res["support_folders"] = sorted(parts_of(n.get_support_output_folder()) for n, _ in nss)
    sup_paths = None      # the support generator compiles its templates even in a dry run (~50 ms): optional per case
    if with_support:
        try:
            sup_paths = list(SupportGenerator(root).generate_all(is_dryrun=True))
            res["support_files"] = sorted((parts_of(p) for p in sup_paths), key=repr)
        except ValueError:
            res["support_files"] = "Ebad-suffix"
    else:
        res["support_files"] = None
    return res, (root, gen, sup_paths)


# ------------------------------------------------------------------------------------------------------------
# the model
# ------------------------------------------------------------------------------------------------------------
def ty_enc(k):
    return "/".join(enc(c) for c in k[0]) + ":" + enc(k[1]) + f":{k[2]}:{k[3]}"


def key_enc(k):
    return "/".join(enc(c) for c in k)


def support_inputs(language):
    """(parts of support_namespace, file names of the support resources) through the public language API."""
    from nunavut._utilities import ResourceType
    names = [p.name for p in language.get_support_files(ResourceType.SERIALIZATION_SUPPORT)] + \
            [p.name for p in language.get_support_files(ResourceType.TYPE_SUPPORT)]
    return list(language.support_namespace), names


def opt_enc(x):
    return "~" if x is None else enc(x)


def section_enc(d):
    return ",".join(f"{enc(k)}={opt_enc(v)}" for k, v in d.items()) or "!"


def glue_fields(route, lang, files, outdir, ext, stem):
    """The six `<glue>` fields of the driver protocol: the language's section by name (`Gen/NsGlue.lean`), the sections of
    the configuration files, and the three arguments exactly as given (`None` = not given)."""
    return [route, "@" + enc(lang), ";".join(section_enc(f) for f in files) or "!", opt_enc(outdir), opt_enc(ext), opt_enc(stem)]


def tree_tail(enable, order, table, types, refs, subs=(), names=()):
    tab = ",".join(f"{enc(a)}>{enc(b)}" for a, b in sorted(table.items())) or "!"
    if isinstance(order, str):
        o = order
    else:
        o = ",".join(key_enc(k) for k in order) or "!"
    return ["1" if enable else "0", o, tab,
            ",".join(ty_enc(t) for t in types) or "!", ",".join(ty_enc(t) for t in refs) or "!",
            ",".join(enc(x) for x in subs) or "!", ",".join(enc(x) for x in names) or "!"]


def request(glue, enable, order, table, types, refs, subs=(), names=()):
    """`gtree`: the model derives extension, stem and base path from the arguments itself (`cfgOfApi` / `cfgOfCli`)."""
    return " ".join(["gtree"] + glue + tree_tail(enable, order, table, types, refs, subs, names))


def _key(s):
    return kstr(tuple(dec(x) for x in s.split("/")))


def _ty(s):
    k, sh, ma, mi = s.split(":")
    return f"{_key(k)}.{dec(sh)}.{ma}.{mi}"


def _parts(s):
    if s == "~":
        return []
    if s.startswith("E"):
        return s
    return [dec(x) for x in s.split("/")]


def _posix(s):
    return s if s.startswith("E") else dec(s)


def _lst(s, sep):
    return [] if s == "~" else s.split(sep)


def parse_answer(ans, every):
    """Model answer -> the same canonical structure as impl_extract (nodes restricted to those reachable
    from the root through `nested`, as on the real side)."""
    if not ans.startswith("ok "):
        return {"error": ans}
    _, root, nodes_s, nss_s, dts_s, all_s, find_s, inc_s, sup_s = ans.split(" ")
    res = {"root": _key(root)}
    store = {}
    for rec in _lst(nodes_s, ";"):
        k, parent, nested, path, tys = rec.split("=")
        store[_key(k)] = {
            "parent": None if parent == "~" else _key(parent),
            "nested": sorted(_key(x) for x in _lst(nested, "+")),
            "path": _parts(path),
            "types": sorted([_ty(e.split("@")[0]), _parts(e.split("@")[1])] for e in _lst(tys, "+")),
        }
    reach, todo = {}, [res["root"]]
    while todo:
        k = todo.pop()
        if k in reach or k not in store:
            continue
        reach[k] = store[k]
        todo.extend(store[k]["nested"])
    res["nodes"] = reach
    yielded = [_key(x) for x in _lst(nss_s, ";")]
    res["namespaces"] = sorted(yielded)
    res["datatypes"] = sorted([_ty(e.split("@")[0]), _parts(e.split("@")[1])] for e in _lst(dts_s, ";"))
    al = []
    for e in _lst(all_s, ";"):
        if e[0] == "N":
            al.append(["N", _key(e[1:])])
        else:
            a, b = e[1:].split("@")
            al.append(["T", _ty(a), _parts(b)])
    res["alltypes"] = sorted(al)
    fl = _lst(find_s, ";")
    find, i = [], 0
    for n in yielded:
        for t in every:
            f = fl[i]; i += 1
            find.append([n, tstr(t), "K" if f == "K" else ("F" if f == "F" else _parts(f[1:]))])
    res["find"] = sorted(find, key=repr)
    inc = {}
    for t, e in zip(every, _lst(inc_s, ";")):
        a, b = e.split("@")
        inc[tstr(t)] = [_posix(a), _posix(b)]
    res["inc"] = inc
    folders, targets = sup_s.split("|")
    res["support_folders"] = sorted(_parts(x) for x in folders.split(";"))   # one per yielded namespace, "~" = the path "."
    res["support_files"] = sorted((_parts(x) for x in _lst(targets, ";")), key=repr)
    return res


def first_diff(a, b):
    if a.keys() != b.keys():
        return {"keys": [sorted(a.keys()), sorted(b.keys())]}
    for k in a:
        if a[k] != b[k]:
            x, y = a[k], b[k]
            if isinstance(x, dict) and isinstance(y, dict):
                for kk in sorted(set(x) | set(y)):
                    if x.get(kk) != y.get(kk):
                        return {"field": k, "at": kk, "model": x.get(kk), "impl": y.get(kk)}
            if isinstance(x, list) and isinstance(y, list):
                for i, (p, q) in enumerate(itertools.zip_longest(x, y)):
                    if p != q:
                        return {"field": k, "at": i, "model": p, "impl": q}
            return {"field": k, "model": x, "impl": y}
    return None


# ------------------------------------------------------------------------------------------------------------
# the property itself, on the real objects
# ------------------------------------------------------------------------------------------------------------
def search(ctx, case, types, every, root_dir, clean_out, lctx, built, own_paths):
    """
    `built` = (root Namespace, generator); `own_paths` maps every type of the universe to the relative posix path it
    gets in the tree of its *own* root namespace under the same language configuration.
    """
    root, gen, sup_paths = built
    set_root_dir(root_dir)
    language = lctx.get_target_language()
    strop = lambda s: language.filter_id(s, "path")  # noqa: E731
    estrop = strop if language.enable_stropping else (lambda s: s)
    ext = language.extension
    tks = [tkey(t) for t in types]
    wanted_ns = set()
    for k in tks:
        for i in range(1, len(k[0]) + 1):
            wanted_ns.add(k[0][:i])
    # which names does the one-way stropping fold together?  (the documented exclusion)
    folded_ns = set()
    for a, b in itertools.combinations(sorted(wanted_ns), 2):
        if a != b and [strop(x) for x in a] == [strop(x) for x in b]:
            folded_ns.add(a); folded_ns.add(b)
    affected = lambda k: any(k[:i] in folded_ns for i in range(1, len(k) + 1))  # noqa: E731
    rep = lambda **kw: dict(case, **kw)  # noqa: E731

    dts = list(root.get_all_datatypes())
    got = [tkey(t) for t, _ in dts]
    # -- every type exactly once
    for k in tks:
        c = got.count(k)
        if c != 1:
            if affected(k[0]):
                ctx.fail({"kind": "folded-namespace-drops-types"},
                         "two sibling namespaces whose names strop to one identifier: one of them silently disappears from the tree "
                         "and its types are not generated at all",
                         rep(type=tstr(k), times_yielded=c, folded=sorted(kstr(x) for x in folded_ns)))
            else:
                ctx.fail({"kind": "type-not-once"}, "a type of the root namespace is not yielded exactly once by get_all_datatypes",
                         rep(type=tstr(k), times_yielded=c))
    for k in set(got) - set(tks):
        ctx.fail({"kind": "alien-type"}, "get_all_datatypes yields a type that was not handed in", rep(type=tstr(k)))
    # -- every namespace on the way exactly once, including empty intermediate ones
    nss = list(root.get_all_namespaces())
    gotns = [nskey(n) for n, _ in nss]
    if tks:
        for k in wanted_ns:
            c = gotns.count(k)
            if c != 1 and not affected(k):
                ctx.fail({"kind": "namespace-not-once"}, "a namespace between the root and a type is not yielded exactly once",
                         rep(namespace=kstr(k), times_yielded=c))
        for k in set(gotns) - wanted_ns:
            ctx.fail({"kind": "alien-namespace"}, "a namespace is yielded that is no prefix of a type's namespace", rep(namespace=kstr(k)))
    # -- links
    pm = parent_map(root)
    if pm.get(id(root)) or root.get_root_namespace() is not root or priv(root, "_parent") not in (None, _MISSING):
        ctx.fail({"kind": "root-has-parent"}, "the root namespace has a parent", rep())
    for n, _ in nss:
        k = nskey(n)
        if n is root:
            continue
        ps = pm.get(id(n), [])
        p = ps[0] if len(ps) == 1 else None
        pp = priv(n, "_parent")      # optional cross-check of the private link against the public view
        if p is None or nskey(p) != k[:-1] or (pp is not _MISSING and pp is not p):
            if not affected(k):
                ctx.fail({"kind": "parent-child-link"}, "parent/child links are inconsistent",
                         rep(namespace=kstr(k), listed_as_nested_by=[kstr(nskey(x)) for x in ps],
                             private_parent=None if pp in (None, _MISSING) or not is_namespace(pp) else kstr(nskey(pp))))
        if n.get_root_namespace() is not root and not affected(k):
            ctx.fail({"kind": "root-not-reached"}, "get_root_namespace of a node is not the root", rep(namespace=kstr(k)))
    # -- path formula, containment, lookup, injectivity
    base = clean_out
    seen_path = {}
    for t, p in dts:
        k = tkey(t)
        expected = "/".join(([base] if base != "." else []) + [estrop(c) for c in k[0]] + [estrop(short_ver(k)) + ext])
        if base == "/":
            expected = expected[1:]
        actual = p.as_posix()
        if actual != expected:
            ctx.fail({"kind": "path-formula"}, "the output path is not outDir/strop(ns).../strop(Short_M_m)+ext",
                     rep(type=tstr(k), path=actual, expected=expected))
        try:
            rel = pathlib.PurePosixPath(actual).relative_to(pathlib.PurePosixPath(base))
            inside = ".." not in rel.parts and len(rel.parts) > 0
        except ValueError:
            inside = False
        if not inside:
            ctx.fail({"kind": "outside-outdir"}, "an output path leaves the output directory", rep(type=tstr(k), path=actual, outdir=base))
        if actual in seen_path and seen_path[actual] != k:
            o = seen_path[actual]
            name_fold = (estrop(short_ver(k)) == estrop(short_ver(o)) and short_ver(k) != short_ver(o)) or \
                        ([estrop(c) for c in k[0]] == [estrop(c) for c in o[0]] and k[0] != o[0])
            if not name_fold:
                ctx.fail({"kind": "two-types-one-file"}, "two distinct types map to one file although stropping does not fold their names",
                         rep(types=[tstr(k), tstr(o)], path=actual))
            else:
                ctx.count("search_shared_file_by_documented_folding")
        seen_path[actual] = k
        if not affected(k[0]):
            for n, _ in nss:
                try:
                    q = n.find_output_path_for_type(t)
                except KeyError:
                    q = None
                if q != p:
                    ctx.fail({"kind": "lookup"}, "find_output_path_for_type is not total / disagrees with the yielded path",
                             rep(type=tstr(k), start=kstr(nskey(n)), found=None if q is None else q.as_posix(), path=actual))
    # -- the documented template filter `type_to_include_path`: total on the tree's types, = the path relative to outDir
    #    (whatever the spelling of the output directory: relative, through a symbolic link, ...)
    for t, p in dts:
        k = tkey(t)
        want = "/".join([estrop(c) for c in k[0]] + [estrop(short_ver(k)) + ext])
        try:
            got_inc = gen.filter_type_to_include_path(t)
        except Exception as ex:  # noqa: BLE001 - any exception is the finding
            got_inc = f"raises {type(ex).__name__}: {str(ex)[:120]}"
        if got_inc != want and not affected(k[0]):
            ctx.fail({"kind": "type-to-include-path"}, "the template filter type_to_include_path does not give the type's path relative to the output directory",
                     rep(type=tstr(k), filter_result=got_inc, expected=want, cwd=os.getcwd()))
        ctx.count("search_type_to_include_path_checked")
    # -- the same relative path when generated and when merely referenced (also from another root)
    for t in types:
        for d in direct_deps(language, t):
            dk = tkey(d)
            from nunavut.lang._common import IncludeGenerator
            inc = IncludeGenerator.make_path(d, language, ext).as_posix()
            own = own_paths.get(dk)
            if own is not None and own != inc:
                ctx.fail({"kind": "include-path"}, "a referenced type is included under another path than the one it is generated to",
                         rep(type=tstr(tkey(t)), dependency=tstr(dk), include=inc, generated_as=own))
            ctx.count("search_include_paths_checked")
            if language.name in ("c", "cpp"):
                lst = gen._env.filters["includes"](gen._env, t)   # the registered filter (language bound), as a template calls it
                if f'"{inc}"' not in lst and f"<{inc}>" not in lst:
                    ctx.fail({"kind": "include-list"}, "filter_includes does not list the dependency under its output path",
                             rep(type=tstr(tkey(t)), dependency=tstr(dk), include=inc, includes=lst))
    # -- support files: every namespace names the output directory itself as support folder; support files inside it
    want_folder = pathlib.PurePosixPath(base)
    for n, _ in nss:
        f = pathlib.PurePosixPath(pathlib.Path(n.get_support_output_folder()).as_posix())
        if f != want_folder:
            ctx.fail({"kind": "support-folder"}, "get_support_output_folder() is not the output directory",
                     rep(namespace=kstr(nskey(n)), support_folder=f.as_posix(), outdir=base))
    for p in (sup_paths or []):
        q = pathlib.PurePosixPath(p.as_posix())
        try:
            rel = q.relative_to(want_folder)
            ok = len(rel.parts) > 0 and ".." not in rel.parts
        except ValueError:
            ok = False
        if not ok:
            ctx.fail({"kind": "support-file-outside-outdir"}, "a support file is announced outside the output directory",
                     rep(path=q.as_posix(), outdir=base))
        ctx.count("search_support_files_checked")
    # -- the generators consume exactly these paths (dry run)
    dry = [p.as_posix() for p in gen.generate_all(is_dryrun=True)]
    prov = root.get_all_types() if gen.generate_namespace_types else root.get_all_datatypes()
    want = [p.as_posix() for _, p in prov]
    if sorted(dry) != sorted(want):
        ctx.fail({"kind": "dry-run-paths"}, "the generator's dry run does not return the tree's paths", rep(dry=sorted(dry), tree=sorted(want)))
    return dry


def search_history(ctx, case, types, root_dir, out_spelled, lctx, res):
    """`history_check` + correspondence: the complete iterations after the history are put into `res["history"]`; the model (stateless:
    a traversal is a function of the tree) must give the same for every round - see the comparison loop in `run`."""
    h = history_check(ctx, case, types, root_dir, out_spelled, lctx, res)
    if h is not None and "error" not in res:
        res["history"] = [h[1], h[2]]


def history_check(ctx, case, types, root_dir, out_dir, lctx, first_res):
    """The namespace model under *histories of calls* on ONE tree: a fresh tree whose generator-returning methods
    (get_all_datatypes, get_all_namespaces, get_all_types, get_nested_namespaces, get_nested_types) are first iterated
    partially and abandoned - at every node, in random order, possibly several times - and then iterated completely, twice.
    Every complete iteration must yield every type / namespace below the node exactly once (independent predicate) and the root's
    must equal what the untouched tree gave (`first_res`, the structure the model is compared with)."""
    from nunavut import build_namespace_tree
    rng = ctx.rng
    try:
        root = build_namespace_tree(types, root_dir, out_dir, lctx)
    except ValueError:
        return None
    set_root_dir(root_dir)
    folded = len({kstr(nskey(n)) for n in walk_nodes(root)}) != len(first_res.get("namespaces", []))
    methods = ["get_all_datatypes", "get_all_namespaces", "get_all_types", "get_nested_namespaces", "get_nested_types"]
    tks = [tkey(t) for t in types]
    nodes = walk_nodes(root)
    calls = [(n, m) for n in nodes for m in methods]
    rng.shuffle(calls)
    for n, m in calls[: 40]:                       # partial iterations: take k items, abandon the iterator
        it = iter(getattr(n, m)())
        for _ in range(rng.choice([0, 1, 1, 2, 3])):
            try:
                next(it)
            except StopIteration:
                break
        if hasattr(it, "close") and rng.random() < 0.5:
            it.close()
        del it
        ctx.count("history_partial_iterations")
    rep = lambda **kw: dict(case, history="partial iterations of " + ", ".join(methods) + " at every node, then complete ones", **kw)  # noqa: E731
    out = {}
    for rnd in (1, 2):
        for n in nodes:
            k = nskey(n)
            below = sorted(tstr(t) for t in tks if t[0][:len(k)] == k)
            got = sorted(tstr(tkey(t)) for t, _ in n.get_all_datatypes())
            got_all = sorted(tstr(tkey(x)) for x, _ in n.get_all_types() if not is_namespace(x))
            own = sorted(tstr(tkey(t)) for t, _ in n.get_nested_types())
            want_own = sorted(tstr(t) for t in tks if t[0] == k)
            ctx.count("history_complete_iterations", 3)
            if not folded and (got != below or got_all != below or own != want_own):
                ctx.fail({"kind": "type-not-once-after-history"}, "after abandoned (partial) iterations of the tree's generators a complete iteration "
                         "no longer yields every type below the namespace exactly once", rep(namespace=kstr(k), round=rnd, get_all_datatypes=got[:12],
                                                                                             get_all_types=got_all[:12], get_nested_types=own[:12], expected=below[:12]))
                return None
        out[rnd] = {"datatypes": sorted([tstr(tkey(t)), parts_of(p)] for t, p in root.get_all_datatypes()),
                    "namespaces": sorted(kstr(nskey(n)) for n, _ in root.get_all_namespaces()),
                    "alltypes": sorted((["N", kstr(nskey(x))] if is_namespace(x) else ["T", tstr(tkey(x)), parts_of(p)]) for x, p in root.get_all_types())}
    return out


def snapshot(d):
    out = set()
    for r, dirs, files in os.walk(d):
        for f in files + dirs:
            out.add(os.path.relpath(os.path.join(r, f), d))
    return out


FAILING_TEMPLATE = ("// generated for {{ T | type_to_include_path }}\n// line two\n"
                    "{% if (T.short_name | default('')) == '@SHORT@' %}{{ 1 // 0 }}{% endif %}\n// end\n")


def prepare_templates(sandbox, failing_short=None):
    """The harness' own template directories (written before the observers are armed): `user_templates/Any.j2` renders
    `{{ T | type_to_include_path }}`; `failing_templates/Any.j2` raises ZeroDivisionError half way through the type whose
    short name is `failing_short`."""
    top = pathlib.Path(sandbox).parent
    tdir = top / "user_templates"
    tdir.mkdir(exist_ok=True)
    (tdir / "Any.j2").write_text("{{ T | type_to_include_path }}")
    fdir = top / "failing_templates"
    fdir.mkdir(exist_ok=True)
    (fdir / "Any.j2").write_text(FAILING_TEMPLATE.replace("@SHORT@", failing_short or "~nothing~"))
    return tdir, fdir


def user_template_run(ctx, case, root, tdir):
    """A user template directory (`--templates`) whose only template renders `{{ T | type_to_include_path }}`: a real run
    (cwd and output directory as in the case) must succeed and every type's file must contain the type's path relative
    to the output directory.  Overwrites the files of the preceding run, creates no new ones."""
    from nunavut.jinja import DSDLCodeGenerator
    base = pathlib.PurePosixPath(root.get_support_output_folder().as_posix())
    try:
        ug = DSDLCodeGenerator(root, templates_dir=tdir)
        ug.generate_all(is_dryrun=False)
    except Exception as ex:  # noqa: BLE001
        ctx.fail({"kind": "user-template-type-to-include-path"}, "a user template that uses type_to_include_path cannot be generated",
                 dict(case, error=f"{type(ex).__name__}: {str(ex)[:200]}", cwd=os.getcwd()))
        return
    for t, p in root.get_all_datatypes():
        want = pathlib.PurePosixPath(p.as_posix()).relative_to(base).as_posix()
        got = pathlib.Path(p).read_text().strip()
        if got != want:
            ctx.fail({"kind": "user-template-type-to-include-path"}, "type_to_include_path rendered by a user template is not the path relative to the output directory",
                     dict(case, type=tstr(tkey(t)), rendered=got, expected=want))
    ctx.count("real_runs_user_template")


PY_FOREIGN_IMPORTS = ("numpy", "pydsdl", "nunavut_support", "__future__", "typing")


def check_code_tokens(ctx, case, lang, root, language, types):
    """The path formula pinned to the generated CODE (built-in templates, read right after a real run): the directories of the
    output tree must be the namespace tokens the files themselves use.
    C++: the `namespace X` blocks a header opens, outermost first, are the directory components of its path below the output
    directory; the file's stem is declared in it.  Python: every `import a.b.c` of generated code names the package directory
    `a/b/c` of a generated type (packages *are* directories); C: every `#include <...>`/`"..."` of a generated type's header that
    is not a support header names the output path of a type (relative to the output directory)."""
    import re
    base = pathlib.PurePosixPath(root.get_support_output_folder().as_posix())
    dts = list(root.get_all_datatypes())
    rels = {}
    for t, p in dts:
        try:
            rels[tkey(t)] = pathlib.PurePosixPath(pathlib.Path(p).as_posix()).relative_to(base)
        except ValueError:
            return
    for t, p in dts:
        k = tkey(t)
        try:
            text = pathlib.Path(p).read_text()
        except OSError:
            continue
        dirs = list(rels[k].parts[:-1])
        rep = dict(case, type=tstr(k), file=rels[k].as_posix())
        if lang == "cpp":
            opened = re.findall(r"^\s*namespace\s+([A-Za-z_]\w*)\s*(?:\{\s*)?$", text, re.M)
            if opened[:len(dirs)] != dirs:
                ctx.fail({"kind": "path-vs-code-namespace"}, "the directories of a generated C++ header are not the namespaces the header opens "
                         "(the output tree does not consist of the stropped namespace components the code uses)",
                         dict(rep, directories=dirs, namespaces_opened=opened[:len(dirs) + 2]))
            # The declared NAME is not pinned: the file is strop(Short_M_m) (stropped as a whole, the property's formula) while the
            # header declares strop(Short)_M_m - for a keyword short name (`do` -> struct _do_255_0 in do_255_0.hpp) they differ on
            # the unchanged code by design of the two filters; only observed and counted.
            stem = rels[k].name[: -len(language.extension)] if language.extension and rels[k].name.endswith(language.extension) else rels[k].name
            if not re.search(r"\b(struct|class|namespace|using)\s+" + re.escape(stem) + r"\b", text):
                ctx.count("observed_cpp_file_stem_differs_from_declared_name")
            ctx.count("code_tokens_checked_cpp")
        elif lang == "py":
            pkgs = {".".join(r.parts[:-1]) for r in rels.values()}
            for mod in re.findall(r"^import\s+([A-Za-z_][\w.]*)\s*$", text, re.M):
                if mod.split(".")[0] in PY_FOREIGN_IMPORTS:
                    continue
                if mod.split(".")[0] == dirs[0] and mod not in pkgs and not any(q.startswith(mod + ".") for q in pkgs):
                    ctx.fail({"kind": "path-vs-code-namespace"}, "generated Python imports a package that is not a directory of the output tree",
                             dict(rep, imported=mod, packages=sorted(pkgs)[:12]))
            ctx.count("code_tokens_checked_py")
        elif lang == "c":
            known = {r.as_posix() for r in rels.values()}
            for inc in re.findall(r'^#include\s+[<"]([^>"]+)[>"]', text, re.M):
                if inc.split("/")[0] == dirs[0] and inc not in known:
                    ctx.fail({"kind": "path-vs-code-namespace"}, "a generated C header includes a path below the root namespace that is not the output path of a type",
                             dict(rep, included=inc, outputs=sorted(known)[:12]))
            ctx.count("code_tokens_checked_c")


def check_operations(ctx, case, events, named_dir, how):
    """The clause "nothing is created outside the output directory" on the *operations* of a run: every creating operation
    (open for writing, mkdir, rename/link target, scratch name handed out by tempfile) acts, physically, below the named
    output directory - or is the `mkdir` of that directory / one of its missing ancestors."""
    bad = []
    for kind, q in events:
        if kind == "observer-error":
            ctx.extra.setdefault("observer_errors", [])
            if len(ctx.extra["observer_errors"]) < 5:
                ctx.extra["observer_errors"].append(q)
            continue
        ctx.count("operations_observed")
        if watch.inside(q, named_dir) or (kind == "mkdir" and watch.ancestor_or_self(q, named_dir)):
            continue
        bad.append([kind, q])
    if bad:
        ctx.fail({"kind": "operation-outside-outdir"}, "a generation run performs a creating operation (open for writing / mkdir / rename / "
                 "scratch file) outside the output directory", dict(case, observer=how, outdir_physical=named_dir, operations=bad[:8]))
    return not bad


def check_created(ctx, case, new_entries, named_dir, what="a real run created something outside the output directory"):
    """The same on the resulting file system: every new directory entry of the sandbox (which encloses the output directory,
    the working directory and TMPDIR) lies below the physical output directory or is one of its ancestors."""
    outside = sorted(p for p in new_entries if not (watch.inside(p, named_dir) or watch.ancestor_or_self(p, named_dir)))
    if outside:
        ctx.fail({"kind": "created-outside-outdir"}, what, dict(case, outside=outside[:10], outdir_physical=named_dir))
    return not outside


def real_run(ctx, case, sandbox, cwd, out_spelled, out_abs, types, root_dir, lctx):
    """A real (non-dry) generation watched by the audit-hook observer, TMPDIR inside the sandbox; afterwards everything new
    below `sandbox` must lie below the output directory and be exactly what the dry run announced; every creating operation
    must have acted below the output directory.  Then the same tree once more through a template directory whose template
    fails half way through one type: the run must fail and still leave nothing outside."""
    from nunavut import build_namespace_tree
    from nunavut.jinja import DSDLCodeGenerator, SupportGenerator
    sandbox = os.path.realpath(sandbox)
    tmpdir = os.path.join(sandbox, "tmp_c11")
    os.makedirs(tmpdir, exist_ok=True)
    failing = sorted(tkey(t)[1] for t in types)[len(types) // 2] if types else None
    tdir, fdir = prepare_templates(sandbox, failing)
    before = watch.snapshot(sandbox)
    named_dir = os.path.realpath(os.path.join(cwd, out_spelled))     # the directory the caller named, resolved by the OS
    if named_dir != os.path.realpath(out_abs):
        raise RuntimeError(f"harness: {out_spelled!r} in {cwd} is {named_dir}, expected {out_abs}")
    old = os.getcwd()
    os.chdir(cwd)
    try:
        root = build_namespace_tree(types, root_dir, out_spelled, lctx)
        g, s = DSDLCodeGenerator(root), SupportGenerator(root)
        announced = [pathlib.Path(p) for p in list(g.generate_all(is_dryrun=True)) + list(s.generate_all(is_dryrun=True))]
        announced = sorted({os.path.realpath(os.path.abspath(p)) for p in announced})  # a set: folded names share a file
        aborted = None
        with watch.Watch(tmpdir) as w:
            try:
                g.generate_all(is_dryrun=False)
                s.generate_all(is_dryrun=False)
                if case.get("enable_stropping") is None:
                    check_code_tokens(ctx, case, case["lang"], root, lctx.get_target_language(), types)
                user_template_run(ctx, case, root, tdir)
            except ValueError:
                raise
            except Exception as ex:  # a template that cannot render under this configuration: not C11's subject,
                aborted = type(ex).__name__  # but whatever was created before the crash must still lie inside
                ctx.count("real_run_aborted_by_template_error:" + aborted)
                ctx.extra.setdefault("real_run_template_errors", [])
                if len(ctx.extra["real_run_template_errors"]) < 5:
                    ctx.extra["real_run_template_errors"].append({"lang": case["lang"], "enable_stropping": case["enable_stropping"],
                                                                  "error": f"{aborted}: {str(ex)[:120]}"})
        check_operations(ctx, case, w.events, named_dir, "audit-hook")
        new = watch.snapshot(sandbox) - before
        check_created(ctx, case, new, named_dir)
        files = sorted(p for p in new if os.path.isfile(p))
        if aborted is None and files != announced:
            ctx.fail({"kind": "run-vs-dry-run"}, "the files a real run creates are not the paths the dry run announces",
                     dict(case, created=files[:40], announced=announced[:40]))
        # ---- a history of runs on ONE fresh tree: generate_all(allow_overwrite=False) over the existing outputs fails on the first
        #      file (PermissionError, the walk over the tree is abandoned half-way); after the type files are removed a retried
        #      generate_all() must write every file again
        if types and aborted is None:
            root2 = build_namespace_tree(types, root_dir, out_spelled, lctx)
            g2 = DSDLCodeGenerator(root2, templates_dir=tdir)
            # (the expected files come from the FIRST tree's generator: nothing may touch root2 before the refused run)
            want2 = sorted({os.path.realpath(os.path.abspath(p)) for p in g.generate_all(is_dryrun=True)})
            refused = False
            try:
                g2.generate_all(is_dryrun=False, allow_overwrite=False)
            except PermissionError:
                refused = True
            for f in want2:
                if os.path.isfile(f):
                    os.unlink(f)
            g2.generate_all(is_dryrun=False)
            missing = [f for f in want2 if not os.path.isfile(f)]
            ctx.count("run_histories_refused_then_retried" if refused else "run_histories_not_refused")
            if missing:
                ctx.fail({"kind": "retry-after-failed-run-loses-files"}, "after a generate_all() that failed on its first file (allow_overwrite=False over "
                         "existing outputs) a retried generate_all() on the same tree does not write every type's file",
                         dict(case, missing=missing[:10], expected_files=len(want2), first_run_refused=refused))
        # ---- the same tree through a template that fails half way through one type
        if failing is not None and aborted is None:
            raised = None
            with watch.Watch(tmpdir) as w2:
                try:
                    DSDLCodeGenerator(root, templates_dir=fdir).generate_all(is_dryrun=False)
                except ZeroDivisionError:
                    raised = True
                except Exception as ex:  # noqa: BLE001
                    raised = type(ex).__name__
            if raised is not True:
                ctx.extra.setdefault("failing_template_unexpected", []).append({"case": case.get("universe"), "raised": raised})
            fcase = dict(case, failing_template_for=failing)
            check_operations(ctx, fcase, w2.events, named_dir, "audit-hook")
            check_created(ctx, fcase, watch.snapshot(sandbox) - before, named_dir,
                          "a run that fails inside a template leaves something outside the output directory")
            ctx.count("real_runs_failing_template")
    finally:
        os.chdir(old)
    ctx.count("real_runs")
    ctx.count("real_run_files", len(files))
    return files


# ------------------------------------------------------------------------------------------------------------
# cases
# ------------------------------------------------------------------------------------------------------------
def write_corpus_universe(base, spec):
    roots = []
    for ri, r in enumerate(spec["roots"]):
        rdir = pathlib.Path(base) / f"roots{ri}" / r["name"]
        rdir.mkdir(parents=True)
        for rel, body in r["files"].items():
            f = rdir / rel
            f.parent.mkdir(parents=True, exist_ok=True)
            f.write_text(body)
        for rel in r.get("dirs", []):
            (rdir / rel).mkdir(parents=True, exist_ok=True)
        roots.append({"name": r["name"], "dir": str(rdir), "lookup": [x["dir"] for x in roots]})
    return roots


def _symlink_to(d):
    """`<d>_link` -> `<d>` (created on first use): an absolute output directory that traverses a symbolic link."""
    link = d.rstrip("/") + "_link"
    if not os.path.islink(link):
        os.symlink(d, link)
    return link


def out_spellings(rng, sandbox_work, rel=None):
    """(spelled, clean form the formula uses, absolute location) - relative, absolute, trailing slash, ./, doubled slash."""
    rel = rel or rng.choice(["out", "gen/out", "o.d/x", "out_1"])
    ab = os.path.join(sandbox_work, rel)
    return [
        (rel, rel, ab),
        (rel + "/", rel, ab),
        ("./" + rel, rel, ab),
        (rel.replace("/", "//") + "//", rel, ab),
        (ab, ab, ab),
        (ab + "/", ab, ab),
        (".", ".", sandbox_work),
        ("", ".", sandbox_work),
        (os.path.join(_symlink_to(sandbox_work), rel), os.path.join(_symlink_to(sandbox_work), rel), ab),
    ]


def variants(rng, n_extra, with_invalid=True):
    """(lang, ext override, stem override, enable_stropping override)."""
    vs = [(l, None, None, None) for l in LANGS]
    for _ in range(n_extra):
        l = rng.choice(LANGS)
        r = rng.random()
        ext = rng.choice(EXT_OVERRIDES) if r < 0.6 else (rng.choice(EXT_INVALID) if (r < 0.68 and with_invalid) else None)
        stem = rng.choice(STEM_OVERRIDES) if rng.random() < 0.4 else None
        enable = rng.choice([True, False]) if rng.random() < 0.15 else None
        vs.append((l, ext, stem, enable))
    return vs


def run_pathlib_tie(ctx, drv):
    P = pathlib.PurePosixPath
    rng = ctx.rng
    alpha = ["a", "b", ".", "/", "_", "1", ".", "/"]

    def seg(maxlen=6):
        while True:
            s = "".join(rng.choice(alpha) for _ in range(rng.randint(0, maxlen)))
            if not (s.startswith("//") and not s.startswith("///")):   # pathlib's implementation-defined '//' root
                return s
    exts = ["", ".h", ".", "h", "..", ".a.b", ".a/b", "/", "._", ".h."]
    reqs, want = [], []
    n = 1500 if ctx.quick else 20000
    for _ in range(n):
        op = rng.choice(["join", "join", "suffix", "suffix", "rel", "posix", "parent"])
        if op == "join":
            segs = [seg() for _ in range(rng.randint(0, 4))]
            reqs.append("path join " + (",".join(enc(s) for s in segs) or "!"))
            want.append(list(P(*segs).parts))
        elif op == "suffix":
            s, e = seg(), rng.choice(exts)
            reqs.append(f"path suffix {enc(s)} {enc(e)}")
            try:
                want.append(list(P(s).with_suffix(e).parts))
            except ValueError as ex:
                want.append("Ebad-suffix" if "Invalid suffix" in str(ex) else "Eempty-name")
        elif op == "rel":
            a = seg(8)
            b = rng.choice([seg(3), a[: rng.randint(0, len(a))]])
            if b.startswith("//") and not b.startswith("///"):
                b = b[1:]
            reqs.append(f"path rel {enc(a)} {enc(b)}")
            try:
                want.append(list(P(a).relative_to(P(b)).parts))
            except ValueError:
                want.append("Enot-relative")
        elif op == "posix":
            s = seg(8)
            reqs.append(f"path posix {enc(s)}")
            want.append(("posix", P(s).as_posix()))
        else:
            s = seg(8)
            reqs.append(f"path parent {enc(s)}")
            want.append(list(P(s).parent.parts))
    ans = drv.ask(reqs)
    for r, a, w in zip(reqs, ans, want):
        m = dec(a) if isinstance(w, tuple) else _parts(a)
        w2 = w[1] if isinstance(w, tuple) else w
        ctx.traces += 1
        if m != w2:
            ctx.disagree("pathlib", r, m, w2)
    ctx.extra["pathlib_ops_compared"] = len(reqs)


def one_tree(ctx, pending, case, types, deps, root_dir, out_spelled, lctx, with_support=True):
    """Real side of one case: build + extract, sample the strop table, queue the model request."""
    language = lctx.get_target_language()
    every = list(types) + list(deps)
    res, built = impl_extract(types, every, root_dir, out_spelled, lctx, with_support)
    names = set([""]) if not types else set()
    for t in every:
        k = tkey(t)
        names.update(k[0]); names.add(short_ver(k))
    table = {n: language.filter_id(n, "path") for n in names}
    line = request(glue_fields("api", case["lang"], [], out_spelled, case.get("ext"), case.get("stem")),
                   language.enable_stropping, second_pass_order(types), table, [tkey(t) for t in types],
                   [tkey(t) for t in deps], *support_inputs(language))
    if built is not None:
        search_history(ctx, case, types, root_dir, out_spelled, lctx, res)
    pending.append((line, res, case, [tkey(t) for t in every]))
    return res, built


def count_case(ctx, case, types, res, language, lang, ext, stem, enable, out_spelled):
    nontrivial = len(types) >= 2 or len(res.get("namespaces", [])) >= 2
    ctx.case((case["types"], lang, ext, stem, enable, out_spelled), nontrivial)
    ctx.count("lang=" + lang)
    ctx.count("outdir=" + ("absolute" if out_spelled.startswith("/") else "relative") + ("+slash" if out_spelled.endswith("/") else ""))
    if ext is not None: ctx.count("ext_override")
    if stem is not None: ctx.count("stem_override")
    if enable is not None: ctx.count("stropping_override")
    if case["refs"]: ctx.count("has_refs_outside_the_tree")
    if not types: ctx.count("empty_type_list")
    depth = max([len(tkey(t)[0]) for t in types] or [0])
    ctx.count(f"max_depth={min(depth, 6)}")
    holders = {tkey(t)[0] for t in types}
    if any(k not in holders for k in (tuple(n.split(".")) for n in res.get("namespaces", []))):
        ctx.count("has_empty_intermediate_namespace")
    if len({(tkey(t)[0], tkey(t)[1]) for t in types}) < len(types): ctx.count("has_several_versions")
    if any(language.filter_id(n, "path") != n for t in types for n in tkey(t)[0] + (short_ver(tkey(t)),)):
        ctx.count("has_stropped_name")


EXH_SPEC = {"roots": [{"name": "r", "files": dict(
    [(f"{d}X.1.0.dsdl", "uint8 x\n@sealed\n") for d in ("", "a/", "b/", "a/a/", "a/b/", "b/a/", "b/b/")] +
    [(f"{d}X.1.1.dsdl", "uint8 x\n@sealed\n") for d in ("", "a/", "b/", "a/a/", "a/b/", "b/a/", "b/b/")] +
    [(f"{d}Y.0.1.dsdl", "r.a.b.X.1.0 f\n@sealed\n") for d in ("", "a/", "b/", "a/a/", "a/b/", "b/a/", "b/b/")])}]}


def run_exhaustive(ctx, pending):
    """Every subset of <= k types of a 21-type universe (7 namespaces of depth <= 3, two versions of X, a Y that
    references r.a.b.X.1.0), handed to the real build_namespace_tree as real PyDSDL objects."""
    rng = ctx.rng
    ubase = ctx.scratch / "exh"
    roots = write_corpus_universe(ubase / "dsdl", EXH_SPEC)
    types = read_root(roots[0])
    assert len(types) == 21, len(types)
    types = sorted(types, key=lambda t: tkey(t))
    kmax = 2 if ctx.quick else 3
    subsets = [c for k in range(0, kmax + 1) for c in itertools.combinations(range(21), k)]
    extra = 250 if ctx.quick else 3000
    for _ in range(extra):
        subsets.append(tuple(rng.sample(range(21), rng.choice([kmax + 1, kmax + 2, 6, 9, 21]))))
    work = ubase / "work"
    work.mkdir(parents=True)
    lctxs = {l: make_lctx(l) for l in LANGS}
    old = os.getcwd()
    os.chdir(work)
    try:
        for i, sub in enumerate(subsets):
            lang = LANGS[i % 4]
            lctx = lctxs[lang]
            language = lctx.get_target_language()
            sel = [types[j] for j in sub]
            rng.shuffle(sel)
            deps = []
            for t in sel:
                for d in direct_deps(language, t):
                    if d not in sel and d not in deps:
                        deps.append(d)
            case = {"universe": "exhaustive", "root": "r", "lang": lang, "ext": None, "stem": None, "enable_stropping": None,
                    "outdir": "out", "types": [tstr(tkey(t)) for t in sel], "refs": [tstr(tkey(t)) for t in deps]}
            res, built = one_tree(ctx, pending, case, sel, deps, roots[0]["dir"], "out", lctx, with_support=(i % 8 == 0))
            count_case(ctx, case, sel, res, language, lang, None, None, None, "out")
            ctx.count("stream=exhaustive")
            if built is not None:
                search(ctx, case, sel, sel + deps, roots[0]["dir"], "out", lctx, built, {})
    finally:
        os.chdir(old)
    ctx.extra["exhaustive_small_domain"] = {"universe_types": 21, "all_subsets_up_to": kmax, "subsets": len(subsets) - extra,
                                            "sampled_larger_subsets": extra}
    shutil.rmtree(ubase, ignore_errors=True)


def run_support_only(ctx, pending):
    """Real runs with an EMPTY tree (`--generate-support only`, a root namespace directory without types, and the
    explicit empty type list) for every language and every spelling of the output directory: the support files must be
    created inside the output directory and be what the dry run announces; the tree goes through the tie as well."""
    rng = ctx.rng
    ubase = ctx.scratch / "support_only"
    src = ubase / "dsdl" / "emptyroot"
    src.mkdir(parents=True)
    sandbox = ubase / "sandbox"
    for lang in LANGS:
        lctx = make_lctx(lang)
        language = lctx.get_target_language()
        for rel in (["out", "gen/out"] if ctx.quick else ["out", "gen/out", "o.d/x"]):
            work = sandbox / "work"
            work.mkdir(parents=True, exist_ok=True)
            for out_spelled, out_clean, out_abs in out_spellings(rng, str(work), rel):
                case = {"universe": "support-only", "root": "emptyroot", "lang": lang, "ext": None, "stem": None, "enable_stropping": None,
                        "outdir": out_spelled, "types": [], "refs": []}
                old = os.getcwd()
                os.chdir(work)
                try:
                    res, built = one_tree(ctx, pending, case, [], [], str(src), out_spelled, lctx)
                    count_case(ctx, case, [], res, language, lang, None, None, None, out_spelled)
                    ctx.count("stream=support-only")
                    if built is not None:
                        search(ctx, case, [], [], str(src), out_clean, lctx, built, {})
                finally:
                    os.chdir(old)
                real_run(ctx, case, str(sandbox), str(work), out_spelled, out_abs, [], str(src), lctx)
                ctx.count("real_runs_with_empty_tree")
                shutil.rmtree(work, ignore_errors=True)
                work.mkdir(parents=True)
    shutil.rmtree(ubase, ignore_errors=True)


ROOT_SPEC = {"roots": [{"name": "vendor", "files": {
    "Top.1.0.dsdl": "uint8 x\n@sealed\n", "a/b/Deep.1.0.dsdl": "uint8 x\n@sealed\n", "a/b/Deep.1.1.dsdl": "uint8 x\n@sealed\n",
    "register/User.2.0.dsdl": "vendor.a.b.Deep.1.0 d\n@sealed\n"}}]}


def run_root_spellings(ctx, pending):
    """The ROOT NAMESPACE directory argument spelled plainly, with a trailing slash, with a trailing `/.`, relative to the
    working directory, with `..` and as `.` / `./` from inside the directory (the CLI default): the same tree and the same
    files every time - through the API (tie + predicates) and through the CLI (`python -m nunavut`)."""
    import subprocess
    ubase = ctx.scratch / "rootspell"
    roots = write_corpus_universe(ubase / "dsdl", ROOT_SPEC)
    rdir = roots[0]["dir"]
    types = read_root(roots[0])
    sandbox = ubase / "sandbox"
    work = sandbox / "work"
    work.mkdir(parents=True)
    out_abs = str(work / "out")
    parent = os.path.dirname(rdir)
    spellings = [(rdir, None), (rdir + "/", None), (rdir + "/.", None), (rdir + "//", None), ("vendor", parent), ("vendor/", parent),
                 ("./vendor/.", parent), ("../" + os.path.basename(parent) + "/vendor", parent), (".", rdir), ("./", rdir), ("a/..", rdir)]
    expected = {}
    for li, lang in enumerate(LANGS):
        lctx = make_lctx(lang)
        language = lctx.get_target_language()
        for si, (spelled, cwd) in enumerate(spellings):
            case = {"universe": "root-spelling", "root": "vendor", "lang": lang, "ext": None, "stem": None, "enable_stropping": None,
                    "outdir": out_abs, "types": [tstr(tkey(t)) for t in types], "refs": [], "root_dir_spelled": spelled,
                    "cwd": "<tmp>" if cwd is None else ("<parent of the root>" if cwd == parent else "<the root namespace directory>")}
            old = os.getcwd()
            os.chdir(cwd or str(work))
            try:
                res, built = one_tree(ctx, pending, case, types, [], spelled, out_abs, lctx, with_support=(si % 4 == 0))
                count_case(ctx, case, types, res, language, lang, None, None, None, out_abs)
                ctx.count("stream=root-spelling")
                if built is not None:
                    search(ctx, case, types, list(types), spelled, out_abs, lctx, built, {})
                    expected[lang] = sorted(p.as_posix() for _, p in (built[0].get_all_types() if built[1].generate_namespace_types
                                                                      else built[0].get_all_datatypes()))
            finally:
                os.chdir(old)
            # the CLI with the same spelling (quick: two languages)
            if ctx.quick and li >= 2:
                continue
            env = dict(os.environ, PYTHONPATH=str(common.REPO / "src"), PYTHONDONTWRITEBYTECODE="1")
            p = subprocess.run([common.PY, "-m", "nunavut", "--target-language", lang, "--outdir", out_abs, "--list-outputs",
                                "--experimental-languages", "--generate-support", "never", spelled], cwd=cwd or str(work), env=env, capture_output=True, text=True, timeout=120)
            listed = sorted(x for x in p.stdout.strip().split(";") if x)
            # the plain spelling through the API is the reference
            tkeys = [tkey(t) for t in types]
            strop = lambda x: language.filter_id(x, "path")  # noqa: E731
            want_types = sorted("/".join([out_abs] + [strop(c) for c in k[0]] + [strop(short_ver(k)) + language.extension]) for k in tkeys)
            got_types = sorted(x for x in listed if os.path.basename(x) != language.get_config_value("namespace_file_stem", "_") + language.extension)
            if p.returncode != 0 or got_types != want_types:
                ctx.fail({"kind": "cli-root-spelling"}, "the CLI does not list one file per type for this spelling of the root namespace directory",
                         dict(case, rc=p.returncode, listed=listed[:12], expected_type_files=want_types, stderr=p.stderr[-300:]))
            ctx.count("cli_root_spellings_checked")
    shutil.rmtree(ubase, ignore_errors=True)


# ------------------------------------------------------------------------------------------------------------
# the path glue: command line / builder API -> output directory, extension, stem; where the files really are
# ------------------------------------------------------------------------------------------------------------
GLUE_EXT_ARGS = [None, "", "h", ".h", ".hh", "tar.gz", ".tar.gz", "x.y", "..x", ".", "a/b", ".a/b", "PY", "0"]
GLUE_STEM_ARGS = [None, "", "nsfile", "__ns__", "x.y", "_0", "index.v2", "_"]
GLUE_OUT_ARGS = [None, "out", "out/", "a/../b", "/abs/x//", ".", "", "link/../out"]
GLUE_CFG_VALUES = [".cfg", "", None, "cfg.x"]


def cli_extension_oracle(raw):
    """What `-e raw` asks for, written down independently of the code: the argument with a leading dot supplied unless it
    is empty or has one."""
    return raw if (raw == "" or raw.startswith(".")) else "." + raw


def write_config_file(path, lang, values):
    """A `--configuration` YAML file that sets keys of the language's section (`None` = YAML null)."""
    import yaml
    path.write_text(yaml.safe_dump({"nunavut.lang." + lang: dict(values)}))
    return path


_LANG_DEFAULTS = {}


def lang_defaults(lang):
    if lang not in _LANG_DEFAULTS:
        language = make_lctx(lang).get_target_language()
        from nunavut.lang import Language
        _LANG_DEFAULTS[lang] = (language.extension, language.get_config_value(Language.WKCV_NAMESPACE_FILE_STEM, "_"))
    return _LANG_DEFAULTS[lang]


def parse_cli(argv):
    import nunavut.cli
    return nunavut.cli._make_parser().parse_args(argv)   # pylint: disable=protected-access


def glue_one(ctx, cfgdir, tag, route, lang, ext, stem, out, files, short_option=False):
    """One case of the stream "glue" on the real code: (request line for the model, real answer, case description); the
    property's own predicate (what was asked for arrives) is evaluated here."""
    from nunavut.cli.runners import ArgparseRunner
    from nunavut.lang import Language
    paths = [write_config_file(cfgdir / f"g{tag}_{j}.yaml", lang, v) for j, v in enumerate(files)]
    dext, dstem = lang_defaults(lang)
    case = {"universe": "glue", "route": route, "lang": lang, "ext_arg": ext, "stem_arg": stem, "outdir_arg": out,
            "configuration_files": files}
    api_out = out if out is not None else "api-out"
    try:
        if route == "cli":
            argv = (["--configuration"] + [str(pth) for pth in paths] if paths else []) + ["--target-language", lang, "--experimental-languages"]
            if out is not None: argv += ["--outdir", out]
            if ext is not None: argv += ["-e", ext] if short_option else ["--output-extension=" + ext]
            if stem is not None: argv += ["--namespace-output-stem=" + stem]
            args = parse_cli(argv)
            runner = ArgparseRunner.__new__(ArgparseRunner)
            runner._args = args                                   # pylint: disable=protected-access
            lctx = runner._create_language_context()              # pylint: disable=protected-access
            got_out = args.outdir
            want_ext = None if ext is None else cli_extension_oracle(ext)
        else:
            lctx = make_lctx(lang, ext, stem, None, paths)
            got_out = api_out
            want_ext = ext
        language = lctx.get_target_language()
        real = ["ok", got_out, language.extension, language.get_config_value(Language.WKCV_NAMESPACE_FILE_STEM, "_")]
    except KeyError:
        real = ["err:key"]
    req = " ".join(["glue"] + glue_fields(route, lang, files, out if route == "cli" else api_out, ext, stem))
    # ---- the property's own predicate: what was asked for arrives
    if real[0] == "ok":
        exp_ext, exp_stem = dext, dstem
        for f in files:                      # later files win; null means the empty string
            if "extension" in f: exp_ext = f["extension"] or ""
            if "namespace_file_stem" in f: exp_stem = f["namespace_file_stem"] or ""
        if want_ext is not None: exp_ext = want_ext
        if stem is not None: exp_stem = stem
        if real[2] != exp_ext:
            ctx.fail({"kind": "extension-override-not-applied"}, "the output extension the caller asked for (an empty one included) "
                     "is not the extension the language object generates with", dict(case, extension=real[2], expected=exp_ext))
        if real[3] != exp_stem:
            ctx.fail({"kind": "stem-override-not-applied"}, "the namespace file stem the caller asked for is not the one Namespace uses",
                     dict(case, stem=real[3], expected=exp_stem))
        # (the spelling of the output directory is compared with the model only: whether another spelling names the same
        #  directory is for the operating system to say - stream "cli" creates the links and looks where the files are)
    return req, real, case


def run_glue_values(ctx, drv):
    """Stream "glue": random (language, configuration files, -O / -e / --namespace-output-stem given or not, empty or not)
    through the real parser + `ArgparseRunner._create_language_context` (CLI route) and through the builder calls (API route)
    versus `cfgOfCli` / `cfgOfApi`; compared: `args.outdir`, `language.extension`, the stem `Namespace.__init__` reads.
    Failing-input search: a given override (the empty string is one) must arrive; an absent one must leave the default."""
    rng = ctx.rng
    cfgdir = ctx.scratch / "glue_cfg"
    cfgdir.mkdir(parents=True, exist_ok=True)
    n = 90 if ctx.quick else 1200
    combos = [(l, e, st) for l in LANGS for e in (None, "", "hh") for st in (None, "", "s")]     # the None/empty/value grid
    reqs, reals, cases = [], [], []
    for i in range(len(combos) + n):
        if i < len(combos):
            lang, ext, stem = combos[i]
            out, files = None, []
        else:
            lang = rng.choice(LANGS)
            ext, stem, out = rng.choice(GLUE_EXT_ARGS), rng.choice(GLUE_STEM_ARGS), rng.choice(GLUE_OUT_ARGS)
            files = []
            for _ in range(rng.choice([0, 0, 1, 2])):
                vals = {}
                if rng.random() < 0.7:
                    vals["extension"] = rng.choice(GLUE_CFG_VALUES)
                if rng.random() < 0.4:
                    vals["namespace_file_stem"] = rng.choice(["cfgstem", "", None])
                files.append(vals)
        short = rng.random() < 0.5
        for route in ("cli", "api"):
            req, real, case = glue_one(ctx, cfgdir, i, route, lang, ext, stem, out, files, short)
            reqs.append(req); reals.append(real); cases.append(case)
            ctx.case(("glue", route, lang, ext, stem, out, repr(files)), ext is not None or stem is not None or bool(files))
            ctx.count("stream=glue")
            ctx.count(f"glue_ext={'absent' if ext is None else 'empty' if ext == '' else 'given'}")
            ctx.count(f"glue_stem={'absent' if stem is None else 'empty' if stem == '' else 'given'}")
            if len(files) > 1: ctx.count("glue_several_configuration_files")
    if drv is not None:
        for line, real, case, ans in zip(reqs, reals, cases, drv.ask(reqs)):
            ctx.traces += 1
            m = ans.split(" ")
            m = [m[0]] + [dec(x) for x in m[1:]] if m[0] == "ok" else m
            if m != real:
                ctx.disagree("glue", dict(case, request=line), m, real)
        # extension_type on its own
        raws = GLUE_EXT_ARGS[1:] + ["".join(rng.choice(".h/a_.") for _ in range(rng.randint(0, 5))) for _ in range(60 if ctx.quick else 600)]
        for raw, ans in zip(raws, drv.ask(["exttype " + enc(r) for r in raws])):
            ctx.traces += 1
            real = parse_cli(["--output-extension=" + raw]).output_extension
            if dec(ans) != real:
                ctx.disagree("exttype", raw, dec(ans), real)
    shutil.rmtree(cfgdir, ignore_errors=True)


CLI_SPEC = {"roots": [{"name": "vendor", "files": {
    "Top.1.0.dsdl": "uint8 x\n@sealed\n", "a/b/Deep.1.0.dsdl": "uint8 x\n@sealed\n", "a/b/Deep.1.1.dsdl": "uint8 x\n@sealed\n",
    "register/User.2.0.dsdl": "vendor.a.b.Deep.1.0 d\n@sealed\n"}}]}

# (spelling relative to the working directory `work`, or None = the CLI default) - the sandbox layout is
#   work/                      the working directory
#   work/link  -> ../real/deep     work/alink -> <sandbox>/real (absolute)     real/deep/back -> ../../work
#   work/gen/                  an existing plain directory
CLI_SPELLINGS = [None, "out", "out/", "out/.", "./out//sub/", "gen/../out", "link/../out", "link/../../work/out2", "link/out", "alink/deep/../o.d",
                 "link/back/o", "@ABS@/work/link/../out", "@ABS@/real//o2/", "link/../out/./x//", "alink/../work/gen/../o3"]


def make_cli_sandbox(base):
    sb = pathlib.Path(os.path.realpath(base))
    for d in ("work/gen", "real/deep", "tmp_c11"):
        (sb / d).mkdir(parents=True)
    os.symlink("../real/deep", sb / "work" / "link")
    os.symlink(str(sb / "real"), sb / "work" / "alink")
    os.symlink("../../work", sb / "real" / "deep" / "back")
    links = {}
    for l in (sb / "work" / "link", sb / "work" / "alink", sb / "real" / "deep" / "back"):
        links[str(l)] = os.path.realpath(l)
    return sb, links


def cli_inproc(argv, cwd):
    """`nnvg argv` in this process (the whole route: `main()`, parser, runner), stdout captured."""
    import contextlib
    import io
    import logging
    import nunavut.cli
    old, old_argv = os.getcwd(), sys.argv
    out = io.StringIO()
    os.chdir(cwd)
    sys.argv = ["nnvg"] + list(argv)
    os.environ.pop("DSDL_INCLUDE_PATH", None)
    try:
        with contextlib.redirect_stdout(out), contextlib.redirect_stderr(io.StringIO()):
            try:
                rc = nunavut.cli.main()
            except SystemExit as e:
                rc = e.code if isinstance(e.code, int) else 2
            except Exception as e:  # noqa: BLE001 - nnvg lets exceptions escape: exit status 1 with a traceback
                rc = type(e).__name__
    finally:
        os.chdir(old)
        sys.argv = old_argv
        logging.getLogger().handlers[:] = []
    return rc, out.getvalue()


def parts_enc(p):
    ps = [x for x in p.split("/") if x]
    return "/".join([enc("/")] + [enc(x) for x in ps])


def cli_case(ctx, drv, roots, types, case, ubase, idx):
    """One CLI case: `--list-outputs`, then a real run observed by the audit hook (in-process) or strace (subprocess) in a
    fresh sandbox with symbolic links; predicates on the real run, then the model (`grun`, `resolve`)."""
    import subprocess
    lang = case["lang"]
    sb, links = make_cli_sandbox(ubase / f"sb{idx}")
    cwd = str(sb / "work")
    tmpdir = str(sb / "tmp_c11")
    rdir = roots[0]["dir"]
    language = make_lctx(lang).get_target_language()
    by_short = sorted(tkey(t)[1] for t in types)
    failing = by_short[len(by_short) // 2] if case["templates"] == "failing" else None
    tdir, fdir = prepare_templates(str(sb), failing)
    spelled = None if case["outdir"] is None else case["outdir"].replace("@ABS@", str(sb))
    files_cfg = case["configuration_files"]
    cfg_paths = [write_config_file(sb / f"cfg{j}.yaml", lang, v) for j, v in enumerate(files_cfg)]
    argv = (["--configuration"] + [str(x) for x in cfg_paths] if cfg_paths else []) + \
        ["--target-language", lang, "--experimental-languages", "--generate-support", case["support"]]
    if spelled is not None: argv += ["--outdir", spelled]
    if case["ext_arg"] is not None: argv += ["--output-extension=" + case["ext_arg"]]
    if case["stem_arg"] is not None: argv += ["--namespace-output-stem=" + case["stem_arg"]]
    if case["gnt"]: argv += ["--generate-namespace-types"]
    if case["templates"] != "builtin": argv += ["--templates", str(tdir if case["templates"] == "user" else fdir)]
    argv += [rdir]
    rep = dict(case, argv=argv[:-1] + ["<root namespace dir>"], cwd="<sandbox>/work", sandbox_links={k.replace(str(sb), "<sandbox>"): v.replace(str(sb), "<sandbox>") for k, v in links.items()})
    named_dir = os.path.realpath(os.path.join(cwd, spelled if spelled is not None else "nunavut_out"))
    ns_types = case["gnt"] or bool(language.has_standard_namespace_files)
    # ---- 1. the listing
    rc1, out1 = cli_inproc(argv[:-1] + ["--list-outputs", rdir], cwd)
    listed = sorted(x for x in out1.split(";") if x.strip())
    # ---- 2. the real run, observed
    before = watch.snapshot(str(sb))
    if case["how"] == "inproc":
        with watch.Watch(tmpdir) as w:
            rc2, _ = cli_inproc(argv, cwd)
        events = w.events
    else:
        env = dict(os.environ, PYTHONPATH=str(common.REPO / "src"), PYTHONDONTWRITEBYTECODE="1", TMPDIR=tmpdir)
        env.pop("DSDL_INCLUDE_PATH", None)
        tf = sb / "trace.txt"
        pr = watch.strace_run([common.PY, "-m", "nunavut"] + argv, cwd, env, tf)
        rc2 = pr.returncode if pr.returncode in (0, 2) else "error"
        events = watch.strace_events(tf, cwd)
        tf.unlink()
        ctx.count("cli_runs_under_strace")
    new = watch.snapshot(str(sb)) - before
    new_files = sorted(p for p in new if os.path.isfile(p))
    ctx.count("cli_runs")
    ctx.count("cli_outdir=" + ("default" if spelled is None else "through-link" if "link" in spelled else "dotdot" if ".." in spelled else "plain"))
    ctx.count("cli_templates=" + case["templates"])
    ctx.case(("cli", lang, case["outdir"], case["ext_arg"], case["stem_arg"], case["gnt"], case["templates"], case["support"], repr(files_cfg), case["how"]), True)
    ctx.count("stream=cli")
    # ---- predicates on the real run ---------------------------------------------------------------------------
    check_operations(ctx, rep, events, named_dir, "audit-hook" if case["how"] == "inproc" else "strace")
    check_created(ctx, rep, new, named_dir, "nnvg created something outside the directory its --outdir argument names "
                  "(symbolic links and '..' resolved by the operating system)")
    ok_run = rc2 == 0
    eff_ext = lang_defaults(lang)[0]
    for f in files_cfg:
        if "extension" in f: eff_ext = f["extension"] or ""
    if case["ext_arg"] is not None: eff_ext = cli_extension_oracle(case["ext_arg"])
    ext_rejected = not (eff_ext == "" or (eff_ext.startswith(".") and eff_ext != "." and "/" not in eff_ext))   # pathlib's with_suffix
    expect_fail = case["templates"] == "failing" or ext_rejected
    if ext_rejected: ctx.count("cli_extension_rejected_by_with_suffix")
    if ok_run and expect_fail:
        ctx.extra.setdefault("cli_unexpected_success", []).append(rep["argv"])
    if not ok_run and not expect_fail:
        ctx.fail({"kind": "cli-run-fails"}, "nnvg fails on a plain request", dict(rep, rc=rc2))
    if ok_run:
        # every type has exactly one new file: <named dir>/<stropped namespace>/<stropped Short_M_m><requested extension>
        dext, dstem = lang_defaults(lang)
        exp_ext = dext
        for f in files_cfg:
            if "extension" in f: exp_ext = f["extension"] or ""
        if case["ext_arg"] is not None: exp_ext = cli_extension_oracle(case["ext_arg"])
        strop = lambda x: language.filter_id(x, "path")  # noqa: E731
        for t in types:
            k = tkey(t)
            want = os.path.join(named_dir, *[strop(c) for c in k[0]], strop(short_ver(k)) + exp_ext)
            if want not in new_files:
                ctx.fail({"kind": "cli-path-formula"}, "the file of a type is not <output directory>/<stropped namespace>/<stropped Short_M_m><requested extension>",
                         dict(rep, type=tstr(k), expected=want.replace(str(sb), "<sandbox>"), created=[x.replace(str(sb), "<sandbox>") for x in new_files][:12]))
                break
        if rc1 == 0 and sorted(os.path.realpath(os.path.join(cwd, x)) for x in listed) != new_files:
            ctx.fail({"kind": "cli-list-vs-run"}, "--list-outputs does not name the files the run creates",
                     dict(rep, listed=listed[:12], created=[x.replace(str(sb), "<sandbox>") for x in new_files][:12]))
    # ---- the model ------------------------------------------------------------------------------------------------
    if drv is not None:
        names = set()
        for t in types:
            k = tkey(t)
            names.update(k[0]); names.add(short_ver(k))
        table = {n: language.filter_id(n, "path") for n in names}
        subs, supn = support_inputs(language) if case["support"] != "never" else ([], [])
        glue = glue_fields("cli", lang, files_cfg, spelled, case["ext_arg"], case["stem_arg"])
        line = " ".join(["grun", "1" if ns_types else "0"] + glue +
                        tree_tail(language.enable_stropping, second_pass_order(types), table, [tkey(t) for t in types], [], subs, supn))
        link_s = ",".join(f"{parts_enc(k)}>{parts_enc(v)}" for k, v in sorted(links.items())) or "!"
        rline = " ".join(["resolve", parts_enc(cwd), link_s, enc(spelled if spelled is not None else "nunavut_out")])
        ans, rans = drv.ask([line, rline])
        ctx.traces += 2
        model_dir = "/" + "/".join(dec(x) for x in rans.split("/")[1:]) if rans != "~" else "?"
        if model_dir != named_dir:
            ctx.disagree("resolve", dict(rep, request=rline), model_dir.replace(str(sb), "<sandbox>"), named_dir.replace(str(sb), "<sandbox>"))
        if ans.startswith("ok "):
            _, fs_, ds_ = ans.split(" ")
            mfiles = sorted(dec(x) for x in _lst(fs_, ";"))
            mdirs = sorted(dec(x) for x in _lst(ds_, ";"))
            if rc1 != 0 and not (case["templates"] == "builtin" and ns_types):
                ctx.disagree("cli-list", dict(rep, request=line), mfiles[:10], f"rc={rc1}")
            elif rc1 == 0 and mfiles != listed:
                ctx.disagree("cli-list", dict(rep, request=line), mfiles[:12], listed[:12])
            mphys = sorted({os.path.realpath(os.path.join(cwd, x)) for x in mfiles})
            mdirs_phys = {os.path.realpath(os.path.join(cwd, x)) for x in mdirs}
            if ok_run and mphys != new_files:
                ctx.disagree("cli-run", dict(rep, request=line), [x.replace(str(sb), "<sandbox>") for x in mphys][:12],
                             [x.replace(str(sb), "<sandbox>") for x in new_files][:12])
            if not ok_run and not set(new_files) <= set(mphys):
                ctx.disagree("cli-run-aborted", dict(rep, request=line), [x.replace(str(sb), "<sandbox>") for x in mphys][:12],
                             [x.replace(str(sb), "<sandbox>") for x in new_files][:12])
            opened = sorted({q for kind, q in events if kind == "open-w"})
            made = {q for kind, q in events if kind == "mkdir"}
            if ok_run and opened != mphys:
                ctx.disagree("cli-ops-open", dict(rep, request=line), [x.replace(str(sb), "<sandbox>") for x in mphys][:12],
                             [x.replace(str(sb), "<sandbox>") for x in opened][:12])
            if not made <= mdirs_phys:
                ctx.disagree("cli-ops-mkdir", dict(rep, request=line), sorted(x.replace(str(sb), "<sandbox>") for x in mdirs_phys)[:12],
                             sorted(x.replace(str(sb), "<sandbox>") for x in made - mdirs_phys)[:12])
        else:
            # the model says the run raises (ValueError of with_suffix / KeyError): so must the CLI, listing and run
            if rc1 == 0 or ok_run:
                ctx.disagree("cli-error", dict(rep, request=line), ans, f"list rc={rc1} run rc={rc2}")
    shutil.rmtree(sb, ignore_errors=True)


def cli_cases(ctx, spellings=CLI_SPELLINGS):
    """The quick tier's deterministic slice (every spelling, every -e / stem / configuration-file class, failing templates,
    built-in templates, two runs under strace) plus random combinations."""
    rng = ctx.rng
    def mk(**kw):
        c = {"universe": "cli-glue", "lang": "c", "outdir": "out", "ext_arg": None, "stem_arg": None, "gnt": True, "templates": "user",
             "support": "never", "configuration_files": [], "how": "inproc"}
        c.update(kw)
        return c
    cases = []
    for i, sp in enumerate(spellings):
        cases.append(mk(lang=LANGS[i % 4], outdir=sp, ext_arg=[None, "", ".hh"][i % 3], gnt=(i % 2 == 0)))
    for i, e in enumerate(["", "h", ".tar.gz", "x.y", "..x", ".", "a/b"]):
        cases.append(mk(lang=LANGS[i % 4], ext_arg=e, outdir=["out", "link/../out"][i % 2], support=["never", "as-needed"][i % 2]))
    for i, st in enumerate(["nsfile", "x.y", "__ns__", "_0"]):
        cases.append(mk(lang=LANGS[(i + 1) % 4], stem_arg=st, ext_arg=[None, ""][i % 2]))
    cases.append(mk(lang="c", configuration_files=[{"extension": ".cfg"}]))
    cases.append(mk(lang="cpp", configuration_files=[{"extension": None}], gnt=False))
    cases.append(mk(lang="py", configuration_files=[{"extension": ".cfg", "namespace_file_stem": "cfgstem"}], ext_arg=""))
    cases.append(mk(lang="html", configuration_files=[{"extension": ".one"}, {"extension": ".two"}], stem_arg="s"))
    for i, l in enumerate(LANGS):
        cases.append(mk(lang=l, templates="failing", outdir=["out", "link/../out", "gen/x", "alink/o"][i], gnt=(i % 2 == 1)))
    cases.append(mk(lang="c", templates="builtin", gnt=False, support="as-needed", outdir="link/../out"))
    cases.append(mk(lang="py", templates="builtin", gnt=False, support="as-needed", ext_arg=None, outdir="alink/deep/../py out"))
    cases.append(mk(lang="html", templates="builtin", gnt=False, outdir="out/"))
    cases.append(mk(lang="cpp", templates="builtin", gnt=False, support="always", ext_arg="hh"))
    cases.append(mk(lang="c", how="strace", outdir="link/../out", ext_arg=""))
    cases.append(mk(lang="c", how="strace", templates="failing", outdir="out"))
    for _ in range(0 if ctx.quick else 400):
        files = [{"extension": rng.choice(GLUE_CFG_VALUES)}] if rng.random() < 0.2 else []
        tpl = rng.choice(["user", "user", "user", "failing", "builtin"])
        cases.append(mk(lang=rng.choice(LANGS), outdir=rng.choice(spellings), ext_arg=rng.choice(GLUE_EXT_ARGS), stem_arg=rng.choice([None, None, "nsfile", "x.y", "_0"]),
                        gnt=(tpl != "builtin" and rng.random() < 0.5), templates=tpl, support=rng.choice(["never", "never", "as-needed", "always"]),
                        configuration_files=files, how="strace" if rng.random() < 0.05 else "inproc"))
    return cases


def run_cli_glue(ctx, drv):
    """Stream "cli": real `nnvg` runs (in-process `main()`, a few as subprocesses under strace) in sandboxes with symbolic
    links, the output directory spelled through links + `..`, with `/.`, `//`, absolute, default; -e / stem / --configuration
    overrides given, empty or absent; user, built-in and failing templates."""
    ubase = ctx.scratch / "cli"
    roots = write_corpus_universe(ubase / "dsdl", CLI_SPEC)
    types = read_root(roots[0])
    for idx, case in enumerate(cli_cases(ctx)):
        cli_case(ctx, drv, roots, types, case, ubase, idx)
    if not ctx.quick:       # random universes as well
        for u in range(12):
            rs = dsdlgen_simple.make_universe(ctx.rng, ubase / f"u{u}", n_roots=1)
            try:
                ts = read_root(rs[0])
            except Exception:  # noqa: BLE001 - rejected by the front end
                continue
            if not ts:
                continue
            for idx, case in enumerate(ctx.rng.sample(cli_cases(ctx)[:40], 10)):
                # built-in templates only on the fixed namespace: whether they render arbitrary keyword names is not C11's subject
                tpl = "user" if case["templates"] == "builtin" else case["templates"]
                cli_case(ctx, drv, rs, ts, dict(case, universe=f"cli-glue-random:{u}", templates=tpl), ubase, 1000 + u * 100 + idx)
    shutil.rmtree(ubase, ignore_errors=True)


def run(ctx: common.Ctx):
    # ---- translator: keys, defaults and language sections of the path glue from the tree under check; the shape of the
    #      transcribed code (parser options, _create_language_context, the builder's overrides) is checked by AST
    try:
        from translate import nsglue
        tr = nsglue.main(common.REPO)
        ctx.extra["translator"] = {"nsglue": {"changed": tr["changed"], "outdir_default": tr["outdir_default"],
                                              "languages": [n for n, _ in tr["langs"]]}}
    except Exception as e:  # the source can no longer be expressed: tie broken
        ctx.broken.append({"kind": "translator", "translator": "nsglue", "error": repr(e)[:500]})
    drivers = ctx.prove(["C11"], exes=["nstree"])
    drv = drivers.get("nstree")
    ctx.rule = ("one case = (type list read by the real front end, language, extension/stem/stropping overrides, output directory "
                "spelling); non-trivial = >= 2 namespaces or >= 2 types; distinct by (type list in order, configuration, spelling); "
                "streams: corpus universes, every subset of <= k types of a 21-type universe, random universes of 1-3 roots with "
                "gaps, versions, keyword names, nested and cross-root references, universes with names the stropping folds; "
                "stream glue: (language, configuration files, -O/-e/--namespace-output-stem absent/empty/given) through the parser and "
                "_create_language_context and through the builder API; stream cli: one case = one nnvg run (listing + real run observed by "
                "an audit hook or strace) in a sandbox with symbolic links, the output directory spelled through links and '..'")
    ctx.assumptions = [
        "pathlib.PurePosixPath is modelled for the operations used (tie stream 'pathlib'); a segment starting with exactly two slashes is excluded",
        "containment is judged by physical location (os.path.realpath of what was created vs realpath of the named output directory); "
        "symbolic links *below* the output directory are not considered (hypothesis NoLinkBelow of the theorems)",
        "an output directory spelled with '..' after a component that does not exist is not exercised (mkdir -p would have to create that component)",
        "the observers see Python-level creating operations (sys.addaudithook: open for writing, mkdir, rename/link/symlink, shutil, tempfile) "
        "and, for the runs under strace, the creating system calls of the process tree",
        "the namespace directories exist (Namespace.__init__ raises FileNotFoundError otherwise): true for types read from them",
        "filter_id(., 'path') is a function of the name alone (sampled once per name into the strop table)",
        "the model iterates sets in insertion order; the second pass gets the real set's walk order, traversal results are compared as multisets",
    ]
    import pydsdl
    import time
    timing = ctx.extra.setdefault("timing_s", {})
    t_mark = [ctx.t0]

    def lap(name):
        timing[name] = round(timing.get(name, 0) + time.time() - t_mark[0], 2)
        t_mark[0] = time.time()
    lap("prove")
    if drv is not None:
        run_pathlib_tie(ctx, drv)
    lap("pathlib_tie")
    run_glue_values(ctx, drv)
    lap("glue_values")
    run_cli_glue(ctx, drv)
    lap("cli_glue")

    rng = ctx.rng
    n_random = 60 if ctx.quick else 700
    n_collide = 12 if ctx.quick else 120
    n_real = 24 if ctx.quick else 250
    universes = []
    corpus = common.VERIF / "corpus" / "C11"
    for f in sorted(corpus.glob("*.json")):
        universes.append(("corpus:" + f.name, json.loads(f.read_text())))
    ncorpus = len(universes)
    for i in range(n_random):
        universes.append((f"random:{i}", None))
    for i in range(n_collide):
        universes.append((f"collide:{i}", None))

    pending = []   # (request line, impl result, case description, every)
    real_budget = n_real
    for ui, (uname, spec) in enumerate(universes):
        if ui == ncorpus:
            lap("corpus")
            run_exhaustive(ctx, pending)
            lap("exhaustive")
            run_support_only(ctx, pending)
            lap("support_only")
            run_root_spellings(ctx, pending)
            lap("root_spellings")
        ubase = ctx.scratch / f"u{ui}"
        src = ubase / "dsdl"
        sandbox = ubase / "sandbox"
        work = sandbox / "work"
        work.mkdir(parents=True)
        if spec is not None:
            roots = write_corpus_universe(src, spec)
        else:
            roots = dsdlgen_simple.make_universe(rng, src, p_collide=0.5 if uname.startswith("collide") else 0.0)
        all_dirs = [r["dir"] for r in roots]
        read = []
        try:
            for r in roots:
                r["lookup"] = [d for d in all_dirs if d != r["dir"]]
                read.append(read_root(r))
        except pydsdl.FrontendError as ex:
            ctx.count("universe_rejected_by_frontend")
            ctx.extra.setdefault("frontend_rejections", []).append(f"{uname}: {str(ex)[:160]}")
            shutil.rmtree(ubase, ignore_errors=True)
            continue
        ctx.count("universes")
        ctx.count("stream=" + uname.split(":")[0], 0)
        vs = variants(rng, 2 if ctx.quick else 3) if spec is None else \
            [tuple(v) for v in spec.get("variants", [])] or variants(rng, 1)
        for (lang, ext, stem, enable) in vs:
            try:
                lctx = make_lctx(lang, ext, stem, enable)
            except Exception as ex:  # a configuration the builder itself refuses
                ctx.count("config_rejected:" + type(ex).__name__)
                continue
            language = lctx.get_target_language()
            out_spelled, out_clean, out_abs = rng.choice(out_spellings(rng, str(work)))
            # the relative path every type gets in the tree of its own root (same configuration)
            own_paths, trees = {}, []
            old = os.getcwd()
            os.chdir(work)
            try:
                for r, types in zip(roots, read):
                    deps = []
                    for t in types:
                        for d in direct_deps(language, t):
                            if d not in types and d not in deps:
                                deps.append(d)
                    case = {"universe": uname, "root": r["name"], "lang": lang, "ext": ext, "stem": stem, "enable_stropping": enable,
                            "outdir": out_spelled, "types": [tstr(tkey(t)) for t in types], "refs": [tstr(tkey(t)) for t in deps]}
                    res, built = one_tree(ctx, pending, case, types, deps, r["dir"], out_spelled, lctx,
                                          with_support=(ctx.quick or not types or rng.random() < 0.2))
                    trees.append((r, types, deps, case, res, built))
                    if built is not None:
                        base = pathlib.PurePosixPath(out_spelled)
                        for t, p in built[0].get_all_datatypes():
                            try:
                                own_paths[tkey(t)] = pathlib.PurePosixPath(p.as_posix()).relative_to(base).as_posix()
                            except ValueError:
                                own_paths[tkey(t)] = p.as_posix()
                for (r, types, deps, case, res, built) in trees:
                    count_case(ctx, case, types, res, language, lang, ext, stem, enable, out_spelled)
                    ctx.count("stream=" + uname.split(":")[0])
                    if built is None:
                        ctx.count("build_raises_ValueError")
                        continue
                    search(ctx, case, types, list(types) + deps, r["dir"], out_clean, lctx, built, own_paths)
            finally:
                os.chdir(old)
            # a real run for some of the cases
            if ext not in EXT_INVALID and (spec is not None or (real_budget > 0 and rng.random() < (0.5 if ctx.quick else 0.3))):
                for r, types in zip(roots, read):
                    if real_budget <= 0 and spec is None:
                        continue
                    real_budget -= 1
                    case = {"universe": uname, "root": r["name"], "lang": lang, "ext": ext, "stem": stem, "enable_stropping": enable,
                            "outdir": out_spelled, "types": [tstr(tkey(t)) for t in types]}
                    try:
                        real_run(ctx, case, str(sandbox), str(work), out_spelled, out_abs, types, r["dir"], lctx)
                    except ValueError:
                        ctx.count("real_run_raises_ValueError")
                    shutil.rmtree(work, ignore_errors=True)
                    work.mkdir(parents=True)
        shutil.rmtree(ubase, ignore_errors=True)

    ctx.extra["domain"] = {"corpus_universes": ncorpus, "random_universes": n_random, "collision_universes": n_collide,
                           "tree_cases": len(pending), "real_runs_budget": n_real}
    ctx.exhaustive = False
    lap("universes")
    # ---- model side ----------------------------------------------------------------------------------------
    if drv is not None:
        answers = []
        for i in range(0, len(pending), 500):
            answers += drv.ask([p[0] for p in pending[i:i + 500]], timeout=900)
        for (line, res, case, every), ans in zip(pending, answers):
            ctx.traces += 1
            try:
                m = parse_answer(ans, every)
            except Exception as ex:  # malformed answer = disagreement, never a crash
                m = {"error": f"unparsable: {ans[:200]} ({ex})"}
            if isinstance(m.get("support_files"), list) and m["support_files"] and all(isinstance(x, str) for x in m["support_files"]) \
                    and res.get("support_files") == "Ebad-suffix":
                m["support_files"] = "Ebad-suffix"
            if res.get("support_files", 0) is None:
                m["support_files"] = None
            if "history" in res and "error" not in m:      # the model is stateless: every round = the traversal of the tree
                m["history"] = [{k: m[k] for k in ("datatypes", "namespaces", "alltypes")}] * 2
            if m != res:
                d = first_diff(m, res) or {}
                ctx.disagree("nstree", dict(case, request=line, where=d.get("field"), at=d.get("at")),
                             d.get("model", m.get("error", "?")), d.get("impl", res.get("error", "?")))
    lap("model_and_compare")
    if _PRIVATE_NOTES:
        ctx.broken.append({"kind": "optional-cross-check-unavailable", "what": "a private attribute used only for cross-checking the public "
                           "view changed representation or disagrees with it; the public walk and all predicates still ran", "details": dict(_PRIVATE_NOTES)})
        _PRIVATE_NOTES.clear()
    for line, res, case, every in pending[:2] + pending[len(pending) // 2: len(pending) // 2 + 2] + pending[-2:]:
        ctx.sample({"case": {k: case[k] for k in ("universe", "root", "lang", "ext", "stem", "outdir")}, "types": case["types"][:6],
                    "paths": ["/".join(e[1]) for e in res.get("datatypes", [])][:6], "namespaces": res.get("namespaces", res.get("error"))})


def replay(ctx, path):
    """Re-run the failing input of a replay file on the real code.  Corpus and exhaustive-stream inputs are rebuilt
    directly from their description; inputs of the random streams are regenerated by re-running the recorded
    (seed, tier) without the Lean side."""
    r = json.loads(open(path).read())
    rp = r.get("replay") or {}
    print(json.dumps({"what": r.get("what"), "key": r.get("key"), "replay": rp}, indent=1)[:3000])
    uname = rp.get("universe", "")
    probe = common.Ctx("C11", r.get("tier", "quick"), r.get("seed", 0))
    try:
        if uname == "glue":
            cfgdir = probe.scratch / "glue_cfg"
            cfgdir.mkdir(parents=True)
            glue_one(probe, cfgdir, 0, rp["route"], rp["lang"], rp.get("ext_arg"), rp.get("stem_arg"), rp.get("outdir_arg"),
                     rp.get("configuration_files") or [], short_option=True)
        elif uname == "cli-glue":
            roots = write_corpus_universe(probe.scratch / "cli" / "dsdl", CLI_SPEC)
            case = {k: rp.get(k) for k in ("universe", "lang", "outdir", "ext_arg", "stem_arg", "gnt", "templates", "support", "configuration_files", "how")}
            cli_case(probe, None, roots, read_root(roots[0]), case, probe.scratch / "cli", 0)
        elif uname.startswith("corpus:") or uname in ("exhaustive", "support-only"):
            spec = EXH_SPEC if uname == "exhaustive" else {"roots": [{"name": "emptyroot", "files": {}, "dirs": ["."]}]} if uname == "support-only" \
                else json.loads((common.VERIF / "corpus" / "C11" / uname[7:]).read_text())
            roots = write_corpus_universe(probe.scratch / "dsdl", spec)
            dirs = [x["dir"] for x in roots]
            for x in roots:
                x["lookup"] = [d for d in dirs if d != x["dir"]]
            root = [x for x in roots if x["name"] == rp["root"]][0]
            by_name = {tstr(tkey(t)): t for t in read_root(root)}
            types = [by_name[n] for n in rp["types"]]
            lctx = make_lctx(rp["lang"], rp.get("ext"), rp.get("stem"), rp.get("enable_stropping"))
            language = lctx.get_target_language()
            deps = []
            for t in types:
                for d in direct_deps(language, t):
                    if d not in types and d not in deps:
                        deps.append(d)
            work = probe.scratch / "sandbox" / "work"
            work.mkdir(parents=True)
            old = os.getcwd()
            os.chdir(work)
            try:
                case = {k: rp.get(k) for k in ("universe", "root", "lang", "ext", "stem", "enable_stropping", "outdir", "types", "refs")}
                res, built = impl_extract(types, types + deps, root["dir"], rp["outdir"], lctx)
                if built is not None:
                    clean = str(pathlib.PurePosixPath(rp["outdir"]))
                    search(probe, case, types, types + deps, root["dir"], clean, lctx, built, {})
                    real_run(probe, case, str(probe.scratch / "sandbox"), str(work), rp["outdir"],
                             os.path.abspath(rp["outdir"] or "."), types, root["dir"], lctx)
            finally:
                os.chdir(old)
        else:
            probe.prove = lambda *a, **k: {}
            run(probe)
        hit = [f for f in probe.failures if f["key"] == r.get("key")]
        print(f"failures with the recorded key on {common.REPO}: {len(hit)}")
        for f in hit[:1]:
            print(json.dumps(f["replay"], indent=1)[:2000])
        return 1 if hit else 0
    finally:
        probe.cleanup()
