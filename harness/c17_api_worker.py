"""
C17 in-process API worker: executes ONE history of Nunavut API calls inside ONE Python process (so that whatever state
the implementation carries between calls -- cached builders, cached Jinja modules, shared configuration objects -- is
in force) and leaves every run's output in its own directory.

usage: /venv/bin/python c17_api_worker.py <history.json>        (PYTHONPATH = <tree>/src)
history.json: {"ns": <root namespace dir>, "steps": [step, ...]}
  {"op": "generate_types", "lang", "options": {..}|null, "omit": bool, "embed": bool, "out": dir}
        nunavut.generate_types(lang, ns, out, omit_serialization_support=omit, language_options=options, ...)
  {"op": "new_generators", "id", "lang", "options": {..}, "out": dir}
        LanguageContextBuilder -> read_namespace -> build_namespace_tree -> create_default_generators (kept under id)
  {"op": "pass", "id", "omit": bool, "embed": bool, "which": "both"|"types"|"support", "snapshot": dir}
        support_generator.generate_all / generator.generate_all on the kept generator objects, then the output
        directory of the generators is moved to `snapshot` (so a later pass starts from an empty directory)
  {"op": "new_dict", "name", "value": {..}}
        a caller-owned dict object kept for the rest of the process (a project's shared option dict)
  {"op": "build_generate", "lang", "files": [yaml paths], "overrides": [{"ref": name} | {"value": {..}}, ...], "omit", "out"}
        LanguageContextBuilder().set_target_language(lang).add_config_files(*files), then one
        set_target_language_configuration_override("options", d) per entry -- `ref` passes the kept dict OBJECT itself --,
        create(), namespace, default generators, one pass of each
Prints one JSON list: per step {"ok": bool, "error": "<Type>: <message>"}.
"""
import json
import pathlib
import shutil
import sys


def main():
    h = json.loads(pathlib.Path(sys.argv[1]).read_text())
    ns = h["ns"]
    import pydsdl
    from nunavut import build_namespace_tree, generate_types
    from nunavut._generators import create_default_generators
    from nunavut.lang import LanguageContextBuilder

    kept = {}
    dicts = {}
    out = []
    for st in h["steps"]:
        try:
            if st["op"] == "generate_types":
                generate_types(st["lang"], pathlib.Path(ns), pathlib.Path(st["out"]),
                               omit_serialization_support=st["omit"],
                               language_options=(None if st["options"] is None else dict(st["options"])),
                               include_experimental_languages=True, embed_auditing_info=bool(st.get("embed")))
            elif st["op"] == "new_dict":
                dicts[st["name"]] = dict(st["value"])
            elif st["op"] == "build_generate":
                b = LanguageContextBuilder(include_experimental_languages=True).set_target_language(st["lang"])
                b.add_config_files(*[pathlib.Path(f) for f in st["files"]])
                for ov in st["overrides"]:
                    b.set_target_language_configuration_override("options", dicts[ov["ref"]] if "ref" in ov else dict(ov["value"]))
                lctx = b.create()
                types = pydsdl.read_namespace(ns, [])
                root = build_namespace_tree(types, ns, st["out"], lctx)
                gen, sup = create_default_generators(root)
                sup.generate_all(False, True, st["omit"], False)
                gen.generate_all(False, True, st["omit"], False)
            elif st["op"] == "new_generators":
                lctx = (LanguageContextBuilder(include_experimental_languages=True)
                        .set_target_language(st["lang"])
                        .set_target_language_configuration_override("options", dict(st["options"]))
                        .create())
                types = pydsdl.read_namespace(ns, [])
                root = build_namespace_tree(types, ns, st["out"], lctx)
                kept[st["id"]] = create_default_generators(root) + (st["out"],)
            elif st["op"] == "pass":
                gen, sup, outdir = kept[st["id"]]
                if st["which"] in ("both", "support"):
                    sup.generate_all(False, True, st["omit"], bool(st.get("embed")))
                if st["which"] in ("both", "types"):
                    gen.generate_all(False, True, st["omit"], bool(st.get("embed")))
                snap = pathlib.Path(st["snapshot"])
                snap.parent.mkdir(parents=True, exist_ok=True)
                if pathlib.Path(outdir).exists():
                    shutil.move(outdir, str(snap))
                else:
                    snap.mkdir()
            else:
                raise RuntimeError("unknown op " + str(st["op"]))
            out.append({"ok": True})
        except Exception as e:  # pylint: disable=broad-except
            out.append({"ok": False, "error": f"{type(e).__name__}: {e}"[:600]})
    print(json.dumps(out))
    return 0


if __name__ == "__main__":
    sys.exit(main())
