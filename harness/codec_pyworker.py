"""
Worker process of the Python codec target (started by harness/codec_targets.py under /venv/bin/python with
PYTHONPATH = <generated package dir>:<numpy dir>).  It is the Python "shim": it walks a description of each type
that codec_targets.py derived from the PyDSDL model (NOT from Nunavut's templates), builds instances of the
generated classes from protocol values, calls ``nunavut_support.serialize`` / ``deserialize`` and prints protocol
answers, one per request line, flushed.

argv[1] = JSON file: [{"cls": "pkg.mod:Class.Attr", "node": NODE}, ...] indexed by type index.
NODE = {"k": "u"|"i"|"f"|"b", "n": bits} | {"k": "v"} | {"k": "a"|"l", "el": NODE, "cap": N}
     | {"k": "s"|"n", "cls": "pkg.mod:Class", "fields": [[attr name or null, NODE], ...]}

Mapping of Python outcomes to protocol answers (documented here as CODEC_PROTOCOL.md asks):
* ``ValueError`` raised by a generated constructor/setter because a variable-length array is longer than its
  capacity                                                       -> ``err:bad-array-length`` (rejected, no bytes)
* a number outside the DSDL range of its field (the setters refuse these regardless of cast mode; array elements are
  checked here against the same range because NumPy would wrap/overflow silently), an option index >= option count
  (not expressible with the generated constructor), ``serbuf`` (the Python API owns the buffer)      -> ``n/a``
* ``deserialize`` returning ``None``                              -> ``err:invalid`` (the API does not tell which of the
  three representation errors it was; the engine accepts it for any of them)
* consumed size is not reported by the Python API                 -> ``?``
* any other exception                                             -> ``err:exception:<class name>``
"""
import importlib
import json
import math
import os
import struct
import sys
import warnings

warnings.simplefilter("ignore")

import numpy as np  # noqa: E402
import nunavut_support  # noqa: E402


class NotApplicable(Exception):
    pass


class BadLength(Exception):
    pass


def tokens(s):
    out, i, n = [], 0, len(s)
    while i < n:
        c = s[i]
        if c == " ":
            i += 1
        elif c in "[]{}<>":
            out.append(c); i += 1
        else:
            j = i
            while j < n and s[j] != " " and s[j] not in "[]{}<>":
                j += 1
            out.append(s[i:j]); i = j
    return out


_CLS = {}


def get_cls(path):
    c = _CLS.get(path)
    if c is None:
        mod, _, attrs = path.partition(":")
        c = importlib.import_module(mod)
        for a in attrs.split("."):
            c = getattr(c, a)
        _CLS[path] = c
    return c


_FMAX = {16: 65504.0, 32: 3.4028234663852886e38, 64: 1.7976931348623157e308}


NDARRAY = os.environ.get("CODEC_PY_NDARRAY") == "1"


def _as_ndarray(el, out):
    """CODEC_PY_NDARRAY=1: primitive arrays reach the generated setter as ndarrays of exactly the field's dtype (the
    setters' zero-copy fast path), not as lists (their copying slow path)."""
    k = el["k"]
    if k == "u":
        return np.array(out, dtype=getattr(np, "uint%d" % _storage_bits(el["n"])))
    if k == "i":
        return np.array(out, dtype=getattr(np, "int%d" % _storage_bits(el["n"])))
    if k == "b":
        return np.array(out, dtype=np.bool_)
    if k == "f":
        return np.array(out, dtype=getattr(np, "float%d" % el["n"]))
    return out


def _storage_bits(n):
    return 8 if n <= 8 else 16 if n <= 16 else 32 if n <= 32 else 64


def build(node, toks, pos, in_array=False):
    """
    tokens -> Python object for the generated API; returns (object, new position).
    Scalars must be inside the DSDL range (the setters refuse anything else); array elements live in a NumPy array whose
    dtype is the next standard width, so anything that dtype holds is a legitimate in-memory value (it must be
    saturated / truncated by the serializer).
    """
    k = node["k"]
    if k == "u":
        v = int(toks[pos])
        if not 0 <= v < (1 << (_storage_bits(node["n"]) if in_array else node["n"])):
            raise NotApplicable()
        return v, pos + 1
    if k == "i":
        v = int(toks[pos])
        w = _storage_bits(node["n"]) if in_array else node["n"]
        if not -(1 << (w - 1)) <= v < (1 << (w - 1)):
            raise NotApplicable()
        return v, pos + 1
    if k == "b":
        return bool(int(toks[pos])), pos + 1
    if k == "f":
        x = struct.unpack("<d", struct.pack("<Q", int(toks[pos][1:], 16)))[0]
        if math.isfinite(x) and abs(x) > _FMAX[node["n"]]:
            raise NotApplicable()
        return x, pos + 1
    if k == "v":
        return None, pos + 1
    if k in "al":
        assert toks[pos] == "["
        pos += 1
        out = []
        while toks[pos] != "]":
            x, pos = build(node["el"], toks, pos, in_array=True)
            out.append(x)
        pos += 1
        if k == "l" and len(out) > node["cap"]:
            raise BadLength(out)
        return (_as_ndarray(node["el"], out) if NDARRAY else out), pos
    if k == "s":
        assert toks[pos] == "{"
        pos += 1
        kw = {}
        for name, fn in node["fields"]:
            x, pos = build(fn, toks, pos)
            if name is not None:
                kw[name] = x
        assert toks[pos] == "}"
        return get_cls(node["cls"])(**kw), pos + 1
    if k == "n":
        assert toks[pos] == "<"
        kk = int(toks[pos + 1])
        if not 0 <= kk < len(node["fields"]):
            raise NotApplicable()
        name, fn = node["fields"][kk]
        x, pos = build(fn, toks, pos + 2)
        assert toks[pos] == ">"
        return get_cls(node["cls"])(**{name: x}), pos + 1
    raise ValueError(k)


def build_unchecked(node, toks, pos, in_array=False):
    k = node["k"]
    if k in "al":
        pos += 1
        out = []
        while toks[pos] != "]":
            x, pos = build_unchecked(node["el"], toks, pos, in_array=True)
            out.append(x)
        return (_as_ndarray(node["el"], out) if NDARRAY else out), pos + 1
    if k == "s":
        pos += 1
        kw = {}
        for name, fn in node["fields"]:
            x, pos = build_unchecked(fn, toks, pos)
            if name is not None:
                kw[name] = x
        return get_cls(node["cls"])(**kw), pos + 1
    if k == "n":
        kk = int(toks[pos + 1])
        if not 0 <= kk < len(node["fields"]):
            raise NotApplicable()
        name, fn = node["fields"][kk]
        x, pos = build_unchecked(fn, toks, pos + 2)
        return get_cls(node["cls"])(**{name: x}), pos + 1
    return build(node, toks, pos, in_array)


def has_bad_length(node, toks):
    try:
        build(node, toks, 0)
    except BadLength:
        return True
    except Exception:
        return False
    return False


def fmt_float(x):
    x = float(x)
    if x != x:
        return "xNaN"
    return "x%016x" % struct.unpack("<Q", struct.pack("<d", x))[0]


def dump(node, obj, out):
    k = node["k"]
    if k in "ui":
        out.append(str(int(obj)))
    elif k == "b":
        out.append("1" if bool(obj) else "0")
    elif k == "f":
        out.append(fmt_float(obj))
    elif k == "v":
        out.append("_")
    elif k in "al":
        out.append("[")
        el = node["el"]
        ek = el["k"]
        if ek in "ui":
            out.extend(str(int(x)) for x in obj)
        elif ek == "b":
            out.extend("1" if bool(x) else "0" for x in obj)
        elif ek == "f":
            out.extend(fmt_float(x) for x in obj)
        else:
            for x in obj:
                dump(el, x, out)
        out.append("]")
    elif k == "s":
        out.append("{")
        for name, fn in node["fields"]:
            dump(fn, None if name is None else getattr(obj, name), out)
        out.append("}")
    elif k == "n":
        sel = [(i, name, fn) for i, (name, fn) in enumerate(node["fields"]) if getattr(obj, name) is not None]
        if len(sel) != 1:
            raise RuntimeError(f"union with {len(sel)} active options")
        i, name, fn = sel[0]
        out.append("<")
        out.append(str(i))
        dump(fn, getattr(obj, name), out)
        out.append(">")
    else:
        raise ValueError(k)


def join(out):
    s = " ".join(out)
    for a, b in (("[ ", "["), (" ]", "]"), ("{ ", "{"), (" }", "}"), ("< ", "<"), (" >", ">")):
        s = s.replace(a, b)
    return s


def do_ser(t, text):
    toks = tokens(text)
    bad_len = has_bad_length(t["node"], toks)
    try:
        # no length check of our own here: an over-long array must be refused by the generated setter (ValueError)
        obj = build_unchecked(t["node"], toks, 0)[0]
    except ValueError:
        if bad_len:
            raise BadLength()
        raise
    data = b"".join(bytes(f) for f in nunavut_support.serialize(obj))
    return data


def handle(types, line):
    op, idx, rest = (line.split(" ", 2) + ["", ""])[:3]
    t = types[int(idx)]
    cls = get_cls(t["cls"])
    try:
        if op == "ser":
            data = do_ser(t, rest)
            return "ok " + (data.hex() or "-")
        if op == "serbuf":
            return "n/a"
        if op == "de":
            data = b"" if rest == "-" else bytes.fromhex(rest)
            obj = nunavut_support.deserialize(cls, [memoryview(bytearray(data))])
            if obj is None:
                return "err:invalid"
            out = []
            dump(t["node"], obj, out)
            return "ok " + join(out) + " ?"
        if op == "rt":
            data = do_ser(t, rest)
            obj = nunavut_support.deserialize(cls, [memoryview(bytearray(data))])
            if obj is None:
                return "ok " + (data.hex() or "-") + " err:invalid"
            out = []
            dump(t["node"], obj, out)
            data2 = b"".join(bytes(f) for f in nunavut_support.serialize(obj))
            return "ok " + (data.hex() or "-") + " " + join(out) + " ? " + (data2.hex() or "-")
        return "err:bad-op"
    except NotApplicable:
        return "n/a"
    except BadLength:
        return "err:bad-array-length"
    except Exception as ex:  # noqa
        return "err:exception:" + type(ex).__name__ + ":" + str(ex)[:120].replace("\n", " ")


def probe(types):
    """C05: exported metadata of every generated class, one JSON line per type."""
    out = []
    for t in types:
        cls = get_cls(t["cls"])
        d = {"extent_bytes": getattr(cls, "_EXTENT_BYTES_", None), "fixed_port_id": getattr(cls, "_FIXED_PORT_ID_", None)}
        parent = get_cls(t["parent"]) if t.get("parent") else None
        if parent is not None:
            d["fixed_port_id"] = getattr(parent, "_FIXED_PORT_ID_", None)
        m = nunavut_support.get_model(cls)
        d["model_full_name"] = m.full_name
        d["model_version"] = [m.version.major, m.version.minor]
        consts = {}
        for name in t.get("constants", []):
            v = getattr(cls, name, None)
            if isinstance(v, bool):
                consts[name] = ["b", int(v)]
            elif isinstance(v, int):
                consts[name] = ["i", str(v)]
            elif isinstance(v, float):
                consts[name] = ["f", "%016x" % struct.unpack("<Q", struct.pack("<d", v))[0]]
            else:
                consts[name] = ["?", repr(v)]
        d["constants"] = consts
        out.append(d)
    return out


def main():
    types = json.load(open(sys.argv[1]))
    sys.stdout.write("ready\n")
    sys.stdout.flush()
    for line in sys.stdin:
        line = line.rstrip("\n")
        if line == "probe":
            sys.stdout.write(json.dumps(probe(types)) + "\n")
        else:
            sys.stdout.write(handle(types, line) + "\n")
        sys.stdout.flush()


if __name__ == "__main__":
    main()
