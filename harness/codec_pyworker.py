"""
Worker process of the Python codec target (started by harness/codec_targets.py under /venv/bin/python with
PYTHONPATH = <generated package dir>:<numpy dir>).  It is the Python "shim": it walks a description of each type
that codec_targets.py derived from the PyDSDL model (NOT from Nunavut's templates), builds instances of the
generated classes from protocol values, calls ``nunavut_support.serialize`` / ``deserialize`` and prints protocol
answers, one per request line, flushed.

argv[1] = JSON file: [{"cls": "pkg.mod:Class.Attr", "node": NODE}, ...] indexed by type index.
NODE = {"k": "u"|"i"|"f"|"b", "n": bits} | {"k": "v"} | {"k": "a"|"l", "el": NODE, "cap": N}
     | {"k": "s"|"n", "cls": "pkg.mod:Class", "fields": [[attr name or null, NODE], ...]}

Mapping of Python outcomes to protocol answers (documented here as CODEC_PROTOCOL.md asks):
* ``ValueError`` raised by a generated constructor/setter because a variable-length array is longer than its
  capacity                                                       -> ``err:bad-array-length`` (rejected, no bytes)
* a SCALAR outside the DSDL range of its field is handed to the generated constructor / setter: if that refuses it
  (ValueError; the shipped setters do, regardless of cast mode) -> ``n/a``; if it ACCEPTS it, the request goes on and the bytes
  must be the saturated / truncated ones of the specification.  Array elements outside their NumPy storage dtype (NumPy would
  wrap/overflow silently), an option index >= option count (not expressible with the generated constructor), ``serbuf`` (the
  Python API owns the buffer)      -> ``n/a``
* ``deserialize`` returning ``None``                              -> ``err:invalid`` (the API does not tell which of the
  three representation errors it was; the engine accepts it for any of them)
* consumed size is not reported by the Python API                 -> ``?``
* any other exception                                             -> ``err:exception:<class name>``

Input spellings (round 2).  The generated API accepts the same abstract input in several spellings; every request is
answered for the *primary* spelling (compared with the model by the engine) and, in the same breath, for a few
*alternative* spellings of the same input chosen by a CRC of the request line (so that a replay of the line picks the same
ones).  All of them must give the primary's answer; the first that does not is reported as
``err:spelling:<name>:<its answer>`` (the engine turns that into a failing input of kind ``<op>:input-spelling``).
* serialized representation handed to ``deserialize`` (``de``, decoding step of ``rt``): primary = one writeable
  memoryview; alternatives = FRAGMENT_SPELLINGS (no fragment at all for the empty string, read-only / bytes / bytearray /
  ndarray fragments, tuple instead of list, two and many fragments, empty fragments first / in the middle / last, one
  fragment per byte, the fragments exactly as ``serialize`` returned them);
* primitive-array fields handed to the constructor (``ser``, ``rt``): primary = list (target ``py``) or ndarray of the
  exact dtype (``+ndarray``); alternatives = ARRAY_SPELLINGS (tuple, exact, non-native byte order, strided and
  negative-stride views, read-only, wider / narrower dtype of the same kind, unaligned memory, 2-d, object dtype,
  bytes / bytearray / memoryview for uint8-like elements);
* ``rtreuse``: the object is REUSED: built from the first value, then every field re-assigned through the generated
  setters from the second value (for a union: the option of the second value is selected) before serializing;
* ``serialize`` must return at least one fragment, each a one-dimensional memoryview of unsigned bytes.
``stats`` answers a JSON object with the number of times each spelling was exercised.
"""
import collections
import importlib
import json
import math
import os
import struct
import sys
import warnings
import zlib

warnings.simplefilter("ignore")

import numpy as np  # noqa: E402
import nunavut_support  # noqa: E402


class NotApplicable(Exception):
    pass


class BadLength(Exception):
    pass


def tokens(s):
    out, i, n = [], 0, len(s)
    while i < n:
        c = s[i]
        if c == " ":
            i += 1
        elif c in "[]{}<>":
            out.append(c); i += 1
        else:
            j = i
            while j < n and s[j] != " " and s[j] not in "[]{}<>":
                j += 1
            out.append(s[i:j]); i = j
    return out


_CLS = {}


def get_cls(path):
    c = _CLS.get(path)
    if c is None:
        mod, _, attrs = path.partition(":")
        c = importlib.import_module(mod)
        for a in attrs.split("."):
            c = getattr(c, a)
        _CLS[path] = c
    return c


_FMAX = {16: 65504.0, 32: 3.4028234663852886e38, 64: 1.7976931348623157e308}


NDARRAY = os.environ.get("CODEC_PY_NDARRAY") == "1"
N_ALT_ARRAY = int(os.environ.get("CODEC_PY_ALT_ARRAY", "2"))        # alternative array spellings tried per ser / rt request
N_ALT_FRAG = int(os.environ.get("CODEC_PY_ALT_FRAG", "3"))          # alternative fragment spellings per de / rt request
STATS = collections.Counter()

PRIMARY_ARRAY = "exact" if NDARRAY else "list"
ARRAY_SPELLINGS = ["list", "tuple", "exact", "swapped", "strided", "negstride", "readonly", "wider", "narrower", "unaligned", "2d",
                   "object", "bytes", "bytearray", "memoryview"]
_SPELL = {"array": PRIMARY_ARRAY, "applied": 0,       # the spelling build() uses for primitive arrays right now
          "pass_oor": False, "oor": 0}                  # pass_oor: scalars outside the DSDL range go to the generated setter (it decides); oor: how many did


class _Inapplicable(Exception):
    pass


def _storage_bits(n):
    return 8 if n <= 8 else 16 if n <= 16 else 32 if n <= 32 else 64


def _exact_dtype(el):
    k = el["k"]
    if k == "u":
        return np.dtype("uint%d" % _storage_bits(el["n"]))
    if k == "i":
        return np.dtype("int%d" % _storage_bits(el["n"]))
    if k == "b":
        return np.dtype(np.bool_)
    if k == "f":
        return np.dtype("float%d" % el["n"])
    return None


def _as_ndarray(el, out):
    """Primitive arrays as ndarrays of exactly the field's dtype (the setters' zero-copy fast path)."""
    dt = _exact_dtype(el)
    return out if dt is None else np.array(out, dtype=dt)


def _fits(dt, out):
    if dt.kind == "f":
        try:
            return all(x != x or float(np.array([x], dtype=dt)[0]) == x for x in out)
        except OverflowError:
            return False
    info = np.iinfo(dt)
    return all(info.min <= int(x) <= info.max for x in out)


def spell_array(el, out, spelling):
    """The list `out` of element values in the named spelling; _Inapplicable when it does not exist for this array."""
    if spelling == "list":
        return out
    if spelling == "tuple":
        return tuple(out)
    dt = _exact_dtype(el)
    if dt is None:
        raise _Inapplicable()
    n = len(out)
    if spelling == "exact":
        return np.array(out, dtype=dt)
    if spelling == "swapped":               # same values, non-native byte order
        if dt.itemsize == 1:
            raise _Inapplicable()
        return np.array(out, dtype=dt).astype(dt.newbyteorder())
    if spelling == "strided":               # every other element of a larger array; junk in between
        big = np.empty(2 * n, dtype=dt)
        big.view(np.uint8)[:] = 0xA5
        big[::2] = np.array(out, dtype=dt)
        return big[::2]
    if spelling == "negstride":
        return np.array(out[::-1], dtype=dt)[::-1]
    if spelling == "readonly":
        a = np.array(out, dtype=dt)
        a.flags.writeable = False
        return a
    if spelling == "wider":
        if dt.kind == "b":
            return np.array([1 if x else 0 for x in out], dtype=np.uint8)
        if dt.itemsize == 8:
            if dt.kind == "u" and _fits(np.dtype(np.int64), out):
                return np.array(out, dtype=np.int64)
            raise _Inapplicable()
        return np.array(out, dtype=np.dtype("%s%d" % (dt.kind, dt.itemsize * 2)))
    if spelling == "narrower":
        if dt.kind == "b" or dt.itemsize == 1 or (dt.kind == "f" and dt.itemsize == 2):
            raise _Inapplicable()
        small = np.dtype("%s%d" % (dt.kind, dt.itemsize // 2))
        if not _fits(small, out):
            raise _Inapplicable()
        return np.array(out, dtype=small)
    if spelling == "unaligned":             # exact dtype, data pointer off by one byte
        raw = bytearray(1 + n * dt.itemsize)
        a = np.frombuffer(raw, dtype=dt, count=n, offset=1)
        a[:] = np.array(out, dtype=dt)
        return a
    if spelling == "2d":
        return np.array(out, dtype=dt).reshape(1, n)
    if spelling == "object":
        a = np.empty(n, dtype=object)
        for i, x in enumerate(out):
            a[i] = x
        return a
    if spelling in ("bytes", "bytearray", "memoryview"):
        if el["k"] != "u" or el["n"] > 8:
            raise _Inapplicable()
        b = bytes(out)
        return b if spelling == "bytes" else bytearray(b) if spelling == "bytearray" else memoryview(b)
    raise _Inapplicable()


def _array(el, out):
    """What build() hands to the generated setter for a primitive array under the current spelling."""
    sp = _SPELL["array"]
    if sp != PRIMARY_ARRAY:
        try:
            r = spell_array(el, out, sp)
            _SPELL["applied"] += 1
            return r
        except _Inapplicable:
            pass
    return _as_ndarray(el, out) if NDARRAY else out


def build(node, toks, pos, in_array=False):
    """
    tokens -> Python object for the generated API; returns (object, new position).
    Scalars must be inside the DSDL range (the setters refuse anything else); array elements live in a NumPy array whose
    dtype is the next standard width, so anything that dtype holds is a legitimate in-memory value (it must be
    saturated / truncated by the serializer).
    """
    k = node["k"]
    if k == "u":
        v = int(toks[pos])
        if not 0 <= v < (1 << (_storage_bits(node["n"]) if in_array else node["n"])):
            if in_array or not _SPELL["pass_oor"]:
                raise NotApplicable()
            _SPELL["oor"] += 1           # a scalar: the generated setter decides; if it accepts, the value must serialize as the cast mode says
        return v, pos + 1
    if k == "i":
        v = int(toks[pos])
        w = _storage_bits(node["n"]) if in_array else node["n"]
        if not -(1 << (w - 1)) <= v < (1 << (w - 1)):
            if in_array or not _SPELL["pass_oor"]:
                raise NotApplicable()
            _SPELL["oor"] += 1
        return v, pos + 1
    if k == "b":
        return bool(int(toks[pos])), pos + 1
    if k == "f":
        x = struct.unpack("<d", struct.pack("<Q", int(toks[pos][1:], 16)))[0]
        if math.isfinite(x) and abs(x) > _FMAX[node["n"]]:
            if in_array or not _SPELL["pass_oor"]:
                raise NotApplicable()
            _SPELL["oor"] += 1
        return x, pos + 1
    if k == "v":
        return None, pos + 1
    if k in "al":
        assert toks[pos] == "["
        pos += 1
        out = []
        while toks[pos] != "]":
            x, pos = build(node["el"], toks, pos, in_array=True)
            out.append(x)
        pos += 1
        if k == "l" and len(out) > node["cap"]:
            raise BadLength(out)
        return _array(node["el"], out), pos
    if k == "s":
        assert toks[pos] == "{"
        pos += 1
        kw = {}
        for name, fn in node["fields"]:
            x, pos = build(fn, toks, pos)
            if name is not None:
                kw[name] = x
        assert toks[pos] == "}"
        return get_cls(node["cls"])(**kw), pos + 1
    if k == "n":
        assert toks[pos] == "<"
        kk = int(toks[pos + 1])
        if not 0 <= kk < len(node["fields"]):
            raise NotApplicable()
        name, fn = node["fields"][kk]
        x, pos = build(fn, toks, pos + 2)
        assert toks[pos] == ">"
        return get_cls(node["cls"])(**{name: x}), pos + 1
    raise ValueError(k)


def build_unchecked(node, toks, pos, in_array=False):
    k = node["k"]
    if k in "al":
        pos += 1
        out = []
        while toks[pos] != "]":
            x, pos = build_unchecked(node["el"], toks, pos, in_array=True)
            out.append(x)
        return _array(node["el"], out), pos + 1
    if k == "s":
        pos += 1
        kw = {}
        for name, fn in node["fields"]:
            x, pos = build_unchecked(fn, toks, pos)
            if name is not None:
                kw[name] = x
        return get_cls(node["cls"])(**kw), pos + 1
    if k == "n":
        kk = int(toks[pos + 1])
        if not 0 <= kk < len(node["fields"]):
            raise NotApplicable()
        name, fn = node["fields"][kk]
        x, pos = build_unchecked(fn, toks, pos + 2)
        return get_cls(node["cls"])(**{name: x}), pos + 1
    return build(node, toks, pos, in_array)


def has_bad_length(node, toks):
    try:
        build(node, toks, 0)
    except BadLength:
        return True
    except Exception:
        return False
    return False


def fmt_float(x):
    x = float(x)
    if x != x:
        return "xNaN"
    return "x%016x" % struct.unpack("<Q", struct.pack("<d", x))[0]


def dump(node, obj, out):
    k = node["k"]
    if k in "ui":
        out.append(str(int(obj)))
    elif k == "b":
        out.append("1" if bool(obj) else "0")
    elif k == "f":
        out.append(fmt_float(obj))
    elif k == "v":
        out.append("_")
    elif k in "al":
        out.append("[")
        el = node["el"]
        ek = el["k"]
        if ek in "ui":
            out.extend(str(int(x)) for x in obj)
        elif ek == "b":
            out.extend("1" if bool(x) else "0" for x in obj)
        elif ek == "f":
            out.extend(fmt_float(x) for x in obj)
        else:
            for x in obj:
                dump(el, x, out)
        out.append("]")
    elif k == "s":
        out.append("{")
        for name, fn in node["fields"]:
            dump(fn, None if name is None else getattr(obj, name), out)
        out.append("}")
    elif k == "n":
        sel = [(i, name, fn) for i, (name, fn) in enumerate(node["fields"]) if getattr(obj, name) is not None]
        if len(sel) != 1:
            raise RuntimeError(f"union with {len(sel)} active options")
        i, name, fn = sel[0]
        out.append("<")
        out.append(str(i))
        dump(fn, getattr(obj, name), out)
        out.append(">")
    else:
        raise ValueError(k)


def join(out):
    s = " ".join(out)
    for a, b in (("[ ", "["), (" ]", "]"), ("{ ", "{"), (" }", "}"), ("< ", "<"), (" >", ">")):
        s = s.replace(a, b)
    return s


class Contract(Exception):
    """The generated API broke a promise of its own documentation."""


def _serialize(obj):
    """nunavut_support.serialize -> (bytes, fragments as returned); the documented shape of the result is checked."""
    frs = list(nunavut_support.serialize(obj))
    if not frs:
        raise Contract("serialize() returned no fragment")
    for f in frs:
        if not isinstance(f, memoryview) or f.ndim != 1 or f.itemsize != 1 or f.format not in ("B", "<B", "@B", "=B"):
            raise Contract("serialize() fragment is not a flat memoryview of unsigned bytes: %r" % (f,))
    return b"".join(bytes(f) for f in frs), frs


def build_object(t, toks, pos=0):
    """Protocol value -> generated object, over-long arrays left to the generated setter.  -> (object, new position)"""
    bad_len = has_bad_length(t["node"], toks[pos:])
    _SPELL["pass_oor"], _SPELL["oor"] = True, 0
    try:
        # no length / range check of our own here: an over-long array must be refused by the generated setter (ValueError);
        # a scalar outside the DSDL range MAY be refused by it (-> n/a: not expressible on this target) — but if the setter
        # accepts it, the object is serialized and the bytes must be the cast-adjusted ones of the specification
        r = build_unchecked(t["node"], toks, pos)
        if _SPELL["oor"]:
            STATS["out-of-range-scalars:accepted-by-setter"] += 1
        return r
    except (ValueError, OverflowError):
        if bad_len:
            raise BadLength()
        if _SPELL["oor"]:
            STATS["out-of-range-scalars:refused-by-setter"] += 1
            raise NotApplicable()
        raise
    finally:
        _SPELL["pass_oor"] = False


def do_ser(t, text):
    return _serialize(build_object(t, tokens(text))[0])[0]


def _guard(fn):
    """Run fn() -> answer text, mapping the outcomes as documented at the top."""
    try:
        return fn()
    except NotApplicable:
        return "n/a"
    except BadLength:
        return "err:bad-array-length"
    except Exception as ex:  # noqa
        return "err:exception:" + type(ex).__name__ + ":" + str(ex)[:120].replace("\n", " ")


def _with_array_spelling(name, fn):
    """fn() with primitive arrays built in spelling `name`; None when the spelling applied to no array of the value."""
    _SPELL["array"], _SPELL["applied"] = name, 0
    try:
        a = _guard(fn)
        return a if _SPELL["applied"] else None
    finally:
        _SPELL["array"] = PRIMARY_ARRAY


def _has_prim_array(node):
    k = node["k"]
    if k in "al":
        return True          # list / tuple apply to arrays of composites as well
    if k in "sn":
        return any(_has_prim_array(fn) for _, fn in node["fields"])
    return False


def _text_has_nan(text):
    for tok in text.replace("[", " ").replace("]", " ").replace("{", " ").replace("}", " ").replace("<", " ").replace(">", " ").split():
        if tok[0] == "x":
            if tok == "xNaN":
                return True
            b = int(tok[1:], 16)
            if (b >> 52) & 0x7FF == 0x7FF and b & ((1 << 52) - 1):
                return True
    return False


def _same_up_to_nan_payload(t, a, b):
    """Two 'ok <hex>' answers of equal length that decode to the same dump (every NaN printed alike): NaN payloads are
    outside the specification, and the conversions of NumPy keep different parts of them."""
    if not (a.startswith("ok ") and b.startswith("ok ")) or len(a) != len(b):
        return False
    cls = get_cls(t["cls"])
    da = _guard(lambda: _decode(t, cls, [memoryview(bytearray(bytes.fromhex(a[3:].replace("-", ""))))])[1])
    db = _guard(lambda: _decode(t, cls, [memoryview(bytearray(bytes.fromhex(b[3:].replace("-", ""))))])[1])
    return da == db and da.startswith("ok ")


def array_alternatives(t, salt, primary, fn, has_nan=False):
    """Answers of fn() under N_ALT_ARRAY other array spellings; -> None or 'err:spelling:…' for the first that differs."""
    if N_ALT_ARRAY <= 0 or primary == "n/a":
        return None
    if "_arr" not in t:
        t["_arr"] = _has_prim_array(t["node"])
    if not t["_arr"]:
        return None
    names = [n for n in ARRAY_SPELLINGS if n != PRIMARY_ARRAY]
    for j in range(N_ALT_ARRAY):
        name = names[(salt + j) % len(names)]
        a = _with_array_spelling(name, fn)
        if a is None:
            STATS["array-inapplicable:" + name] += 1
            continue
        STATS["array:" + name] += 1
        if a != primary and not (has_nan and _same_up_to_nan_payload(t, a, primary)):
            return "err:spelling:array=%s:%s" % (name, a[:600])
    return None


# ---- the serialized representation in several spellings -----------------------------------------------------------

def _cuts(data, salt, k):
    n = len(data)
    pts = sorted((salt * 2654435761 + i * 40503) % (n + 1) for i in range(k))     # k cut points -> k + 1 pieces, some possibly empty
    out, last = [], 0
    for c in pts + [n]:
        out.append(data[last:c])
        last = c
    return out


FRAGMENT_SPELLINGS = {
    "no-fragments": lambda d, s: [] if not d else None,
    "no-fragments-tuple": lambda d, s: () if not d else None,
    "readonly": lambda d, s: [memoryview(bytes(d))],
    "bytes-object": lambda d, s: [bytes(d)],
    "bytearray-object": lambda d, s: [bytearray(d)],
    "ndarray": lambda d, s: [np.frombuffer(bytearray(d), dtype=np.uint8)],
    "ndarray-memoryview": lambda d, s: [memoryview(np.frombuffer(bytearray(d), dtype=np.uint8))],
    "tuple": lambda d, s: (memoryview(bytearray(d)),),
    "two": lambda d, s: [memoryview(bytearray(x)) for x in _cuts(d, s, 1)],
    "two-readonly-tuple": lambda d, s: tuple(memoryview(bytes(x)) for x in _cuts(d, s + 1, 1)),
    "many": lambda d, s: [memoryview(bytearray(x)) for x in _cuts(d, s, 4)],
    "empty-first": lambda d, s: [memoryview(bytearray()), memoryview(bytearray(d))],
    "empty-last": lambda d, s: [memoryview(bytearray(d)), memoryview(b"")],
    "empty-middle": lambda d, s: [memoryview(bytearray(x)) for x in (_cuts(d, s, 1)[0], b"", b"", _cuts(d, s, 1)[1])],
    "only-empties": lambda d, s: [memoryview(b""), memoryview(bytearray())] if not d else None,
    "bytewise": lambda d, s: [memoryview(bytearray(d[i:i + 1])) for i in range(len(d))] if 0 < len(d) <= 64 else None,
    "mixed-kinds": lambda d, s: [memoryview(bytes(_cuts(d, s, 2)[0])), bytearray(_cuts(d, s, 2)[1]), np.frombuffer(bytes(_cuts(d, s, 2)[2]), dtype=np.uint8)],
}
_FRAG_NAMES = sorted(FRAGMENT_SPELLINGS)
_FRAG_EMPTY = [n for n in _FRAG_NAMES if n in ("no-fragments", "no-fragments-tuple", "only-empties", "readonly", "ndarray", "empty-first")]


def _decode(t, cls, fragments):
    obj = nunavut_support.deserialize(cls, fragments)
    if obj is None:
        return None, "err:invalid"
    out = []
    dump(t["node"], obj, out)
    return obj, "ok " + join(out) + " ?"


def decode_all_spellings(t, cls, data, salt, extra=()):
    """-> (object or None, answer) of the primary spelling, or (None, 'err:spelling:…') when an alternative differs."""
    obj, primary = _decode(t, cls, [memoryview(bytearray(data))])
    STATS["frag:primary"] += 1
    if N_ALT_FRAG <= 0:
        return obj, primary
    if not data:
        names = _FRAG_EMPTY
    else:
        names = [_FRAG_NAMES[(salt + j) % len(_FRAG_NAMES)] for j in range(min(N_ALT_FRAG, len(_FRAG_NAMES)))]
    alts = [(n, FRAGMENT_SPELLINGS[n](data, salt)) for n in names] + list(extra)
    for name, frs in alts:
        if frs is None:
            continue
        STATS["frag:" + name] += 1
        a = _guard(lambda: _decode(t, cls, frs)[1])
        if a != primary:
            return None, "err:spelling:fragments=%s:%s" % (name, a[:600])
    return obj, primary


def reassign(t, dst, src):
    """Every field of the generated object dst re-assigned through the setters from src (union: src's option selected)."""
    node = t["node"]
    if node["k"] == "n":
        for name, _ in node["fields"]:
            v = getattr(src, name)
            if v is not None:
                setattr(dst, name, v)
    else:
        for name, _ in node["fields"]:
            if name is not None:
                setattr(dst, name, getattr(src, name))
    return dst


def handle(types, line):
    op, idx, rest = (line.split(" ", 2) + ["", ""])[:3]
    t = types[int(idx)]
    cls = get_cls(t["cls"])
    salt = zlib.crc32((op + " " + rest).encode())       # not the type index: a replay renumbers the types

    def ser_answer():
        return "ok " + (do_ser(t, rest).hex() or "-")

    def rt_tail(data, frs):
        """' <dump> ? <hex2>' or ' err:…' of the decoding half of a round trip."""
        obj, a = decode_all_spellings(t, cls, data, salt, extra=[("as-returned-by-serialize", frs)])
        if a.startswith("err:spelling:"):
            return None, a
        if obj is None:
            return None, "ok " + (data.hex() or "-") + " err:invalid"
        data2 = _serialize(obj)[0]
        return obj, "ok " + (data.hex() or "-") + " " + a[3:] + " " + (data2.hex() or "-")

    def run():
        if op == "ser":
            a = _guard(ser_answer)
            return array_alternatives(t, salt, a, ser_answer, _text_has_nan(rest)) or a
        if op == "serbuf":
            return "n/a"
        if op == "de":
            data = b"" if rest == "-" else bytes.fromhex(rest)
            return decode_all_spellings(t, cls, data, salt)[1]
        if op == "dereuse":
            first, _, second = rest.partition(" ")
            _guard(lambda: nunavut_support.deserialize(cls, [memoryview(bytearray(b"" if first == "-" else bytes.fromhex(first)))]))
            data = b"" if second == "-" else bytes.fromhex(second)
            return decode_all_spellings(t, cls, data, salt)[1]
        if op == "rt":
            data, frs = _serialize(build_object(t, tokens(rest))[0])
            alt = array_alternatives(t, salt, "ok " + (data.hex() or "-"), ser_answer, _text_has_nan(rest))
            return alt or rt_tail(data, frs)[1]
        if op == "rtreuse":
            toks = tokens(rest)
            bar = toks.index("|")
            try:
                old = build_object(t, toks[:bar])[0]
                _serialize(old)
            except Exception:    # noqa - the first value only provides prior state; if it cannot be built the object is fresh
                old = None
            new = build_object(t, toks[bar + 1:])[0]
            obj = new if old is None else reassign(t, old, new)
            STATS["rtreuse:reused" if old is not None else "rtreuse:fresh"] += 1
            data, frs = _serialize(obj)
            return rt_tail(data, frs)[1]
        return "err:bad-op"
    return _guard(run)


def probe(types):
    """C05: exported metadata of every generated class, one JSON line per type."""
    out = []
    for t in types:
        cls = get_cls(t["cls"])
        d = {"extent_bytes": getattr(cls, "_EXTENT_BYTES_", None), "fixed_port_id": getattr(cls, "_FIXED_PORT_ID_", None)}
        parent = get_cls(t["parent"]) if t.get("parent") else None
        if parent is not None:
            d["fixed_port_id"] = getattr(parent, "_FIXED_PORT_ID_", None)
        m = nunavut_support.get_model(cls)
        d["model_full_name"] = m.full_name
        d["model_version"] = [m.version.major, m.version.minor]
        consts = {}
        for name in t.get("constants", []):
            v = getattr(cls, name, None)
            if isinstance(v, bool):
                consts[name] = ["b", int(v)]
            elif isinstance(v, int):
                consts[name] = ["i", str(v)]
            elif isinstance(v, float):
                consts[name] = ["f", "%016x" % struct.unpack("<Q", struct.pack("<d", v))[0]]
            else:
                consts[name] = ["?", repr(v)]
        d["constants"] = consts
        out.append(d)
    return out


def main():
    types = json.load(open(sys.argv[1]))
    sys.stdout.write("ready\n")
    sys.stdout.flush()
    for line in sys.stdin:
        line = line.rstrip("\n")
        if line == "probe":
            sys.stdout.write(json.dumps(probe(types)) + "\n")
        elif line == "stats":
            sys.stdout.write(json.dumps(STATS) + "\n")
        else:
            sys.stdout.write(handle(types, line) + "\n")
        sys.stdout.flush()


if __name__ == "__main__":
    main()
