"""
C12, stream "fsx": `_generate_code` / `_copy_header` in-process under strace over trees with directories and symbolic links —
symbolically linked output files (to an existing file, dangling with / without an existing target directory), a symbolic link
to a directory in directory position, a dangling link / a regular file in directory position, a directory at an output path,
missing parent chains — versus the extended model `Model/OverwriteFs.lean` (`fsx` request of the `overwrite` driver):
per step the status class, the operations on the tree (chmod / successful mkdir / open / failed open / exec, paths as passed)
and every entry of the tree (files with content and mode, directories with mode, links with target).

The property's own reading on the implementation, per step:
  * `--no-overwrite` (allow=False): every entry that existed before the run is unchanged — files (content, mode), directories
    (mode), links (target) — and no chmod / open was issued on a path that resolved to something existing;
  * overwrite allowed, run succeeded: every written path reads (through links) as the content of that write (after the
    programs) with the mode of the last SetFileMode; every link is still the same link; every directory that existed keeps its
    mode (exist_ok must not touch it).
"""
import hashlib
import json
import os
import pathlib
import stat

from . import common

UMASK = 0o022
CREATE_MODE, DIR_MODE = 0o666 & ~UMASK, 0o777 & ~UMASK
NONE_NEEDLE = "@none@"
PP_TEXT = "// pp\n"

FSX_SCRIPT = r'''
import hashlib, json, os, pathlib, stat, subprocess, sys, types
spec = json.load(open(sys.argv[1]))
from nunavut.jinja import DSDLCodeGenerator, SupportGenerator
import nunavut._postprocessors as npp

class RenderBoom(Exception):
    pass

def chunks(text, boom):
    half = len(text) // 2
    yield text[:half]
    yield text[half:]
    if boom:
        raise RenderBoom()

def snap(root):
    out = {}
    for dp, dn, fn in os.walk(root, followlinks=False):
        for name in dn + fn:
            p = os.path.join(dp, name)
            rel = os.path.relpath(p, root)
            st = os.lstat(p)
            if stat.S_ISLNK(st.st_mode):
                out[rel] = ["L", os.path.relpath(os.readlink(p), root)]
            elif stat.S_ISDIR(st.st_mode):
                out[rel] = ["D", stat.S_IMODE(st.st_mode)]
            else:
                out[rel] = ["F", stat.S_IMODE(st.st_mode), hashlib.sha256(open(p, "rb").read()).hexdigest()]
    return out

res = []
for sc in spec["scenarios"]:
    base = pathlib.Path(sc["dir"])
    steps = []
    for si, run in enumerate(sc["runs"]):
        os.mkdir(os.path.join(spec["markers"], "%s_%d" % (sc["id"], si)))
        pps = []
        for p in run["pps"]:
            if p[0] == "M":
                pps.append(npp.SetFileMode(p[1]))
            elif p[0] == "E":
                pps.append(npp.ExternalProgramEditInPlace([spec["prog"], p[1], p[2] if len(p) > 2 else "append"]))
            elif p[0] == "T":
                pps.append(npp.TrimTrailingWhitespace())
        gen = object.__new__(DSDLCodeGenerator)
        gen._env = types.SimpleNamespace()
        gen._post_processors = pps
        sgen = object.__new__(SupportGenerator)
        line_pps = [p for p in pps if isinstance(p, npp.LinePostProcessor)]
        file_pps = [p for p in pps if isinstance(p, npp.FilePostProcessor)]
        status = "ok"
        try:
            for w in run["writes"]:
                target = base / w["path"]
                if w["kind"] == "C":
                    sgen._copy_header(pathlib.Path(w["resource"]), target, False, run["allow"], line_pps, file_pps)
                else:
                    gen._generate_code(target, None, chunks(w["text"], w["kind"] == "X"), run["allow"])
        except IsADirectoryError:
            status = "isdir"
        except NotADirectoryError:
            status = "notdir"
        except FileExistsError:
            status = "exists"
        except FileNotFoundError:
            status = "noent"
        except PermissionError as e:
            status = "eacces" if e.errno == 13 else "conflict"
        except subprocess.CalledProcessError:
            status = "pp"
        except RenderBoom:
            status = "render"
        except Exception as e:
            status = "other:" + type(e).__name__ + ":" + str(e)[:100]
        steps.append({"status": status, "snap": snap(base)})
    res.append({"id": sc["id"], "steps": steps})
os.mkdir(os.path.join(spec["markers"], "end_0"))
json.dump(res, open(sys.argv[2], "w"))
'''

# ---------------------------------------------------------------------------------------------------------------
# scenarios
# ---------------------------------------------------------------------------------------------------------------
# initial entries a scenario may contain (kind, path, …); link targets are real paths below the scenario directory
INIT_POOL = [
    ("F", "f.h", 0o444), ("F", "f.h", 0o644), ("F", "d/g.h", 0o400), ("D", "d", 0o755), ("D", "d/e", 0o700),
    ("D", "real", 0o755), ("F", "real/target.h", 0o444), ("F", "real/target.h", 0o640), ("L", "lnk.h", "real/target.h"),
    ("L", "dang.h", "real/newt.h"), ("L", "dang2.h", "nowhere/x.h"), ("D", "realdir", 0o755), ("D", "realdir", 0o555),
    ("L", "ld", "realdir"), ("F", "realdir/x.h", 0o444), ("D", "od", 0o755), ("D", "od", 0o555), ("F", "od/inner.h", 0o444),
    ("F", "fp", 0o644), ("L", "dl", "gone"), ("D", "ro", 0o555), ("F", "ro/x.h", 0o400), ("L", "lf", "real/target.h"),
    ("F", "foreign.txt", 0o600), ("D", "emptydir", 0o700),
]
WRITE_PATHS = ["f.h", "d/g.h", "d/e/h.h", "lnk.h", "dang.h", "dang2.h", "ld/x.h", "ld/new/y.h", "od", "od/inner.h", "od/sub/z.h", "fp/x.h", "dl/x.h",
               "ro/x.h", "ro/n.h", "a/b/c/d.h", "lf", "real/target.h", "realdir/x.h", "k.h"]
MODES = [0o444, 0o644, 0o600, 0o400, 0, 0o200, 0o755, 0o100664]


def text_of(tag):
    return f"/* {tag} */\nline two of {tag}\n"


def gen_scenarios(rng, n):
    out = []
    for _ in range(n):
        init, seen = [], set()
        for ent in rng.sample(INIT_POOL, rng.randint(3, 12)):
            if ent[1] in seen:
                continue
            seen.add(ent[1])
            init.append(list(ent))
        runs = []
        for r in range(rng.randint(2, 4)):
            pps = []
            for _ in range(rng.choice([0, 1, 1, 2, 2])):
                pps.append(rng.choice([["M", rng.choice(MODES)], ["M", rng.choice(MODES)],
                                       ["E", rng.choice([NONE_NEEDLE, NONE_NEEDLE, NONE_NEEDLE, "g.h", "x.h"]), rng.choice(["append", "append", "chmod"])]]))
            ws = []
            for wi in range(rng.randint(1, 4)):
                kind = rng.choice(["R", "R", "R", "C", "X" if rng.random() < 0.25 else "R"])
                ws.append({"path": rng.choice(WRITE_PATHS), "tag": f"r{r}w{wi}", "kind": kind,
                           "copy_mode": rng.choice([0o644, 0o444, 0o755, 0o600]) if kind == "C" else None})
            runs.append({"allow": rng.random() < 0.6, "pps": pps, "writes": ws})
        out.append({"init": init, "runs": runs})
    return out


def corpus_scenarios():
    """One scenario per phenomenon, each as overwrite / --no-overwrite / overwrite."""
    def three(init, path, pps=(("M", 0o444),)):
        def run(al, tag):
            return {"allow": al, "pps": [list(p) for p in pps], "writes": [{"path": path, "tag": tag, "kind": "R", "copy_mode": None},
                                                                              {"path": "k.h", "tag": tag + "k", "kind": "R", "copy_mode": None}]}
        return {"init": [list(e) for e in init], "runs": [run(True, "a"), run(False, "b"), run(True, "c")]}
    return [
        three([("D", "real", 0o755), ("F", "real/target.h", 0o444), ("L", "lnk.h", "real/target.h")], "lnk.h"),
        three([("D", "real", 0o755), ("L", "dang.h", "real/newt.h")], "dang.h"),
        three([("L", "dang2.h", "nowhere/x.h")], "dang2.h"),
        three([("D", "realdir", 0o555), ("L", "ld", "realdir")], "ld/new/y.h"),
        three([("D", "od", 0o555), ("F", "od/inner.h", 0o444)], "od"),
        three([("F", "fp", 0o644)], "fp/x.h"),
        three([("L", "dl", "gone")], "dl/x.h"),
        three([("D", "ro", 0o555), ("F", "ro/x.h", 0o400)], "ro/x.h", pps=(("E", NONE_NEEDLE, "chmod"), ("M", 0o640))),
        three([], "a/b/c/d.h", pps=()),
        three([("D", "a", 0o700), ("D", "a/b", 0o500)], "a/b/c/d.h"),
    ]


# ---------------------------------------------------------------------------------------------------------------
def _prefixes(p):
    parts = p.split("/")
    return ["/".join(parts[:i]) for i in range(1, len(parts) + 1)]


def model_request(sc):
    ids = {}

    def reg(name, text):
        ids[name] = hashlib.sha256(text.encode()).hexdigest()
        return name

    nodes, links = [], {}
    made_dirs = set()
    for k, ent in enumerate(sc["full_init"]):
        if ent[0] == "F":
            nodes.append(f"F:{ent[1]}={reg(f'i{k}', ent[3])}={ent[2]}")
        elif ent[0] == "D":
            nodes.append(f"D:{ent[1]}={ent[2]}")
        else:
            nodes.append(f"L:{ent[1]}={ent[2]}")
            links[ent[1]] = ent[2]
    probe = set(e[1] for e in sc["full_init"])
    runs = []
    for run in sc["runs"]:
        table_pps, ws = [], []
        for w in run["writes"]:
            text = text_of(w["tag"])
            for suf, t in (("", text), ("p", text + PP_TEXT), ("pp", text + PP_TEXT * 2), ("ppp", text + PP_TEXT * 3)):
                reg(w["tag"] + suf, t)
            kind = "R" if w["kind"] == "R" else ("X" if w["kind"] == "X" else f"C{w['copy_mode']}")
            ws.append(f"{w['path']}={w['tag']}={kind}")
            for pre in _prefixes(w["path"]):
                probe.add(pre)
                if pre in links:
                    rest = w["path"][len(pre):].strip("/")
                    probe.add(links[pre])
                    for sub in (_prefixes(rest) if rest else []):
                        probe.add(links[pre] + "/" + sub)
        for p in run["pps"]:
            if p[0] == "M":
                table_pps.append(f"M{p[1]}")
            elif p[0] == "E":
                ent = []
                left = {"append": None, "chmod": 0o640}[p[2] if len(p) > 2 else "append"]
                for w in run["writes"]:
                    for suf in ("", "p", "pp"):
                        ent.append(f"{w['tag']}{suf}>" + ("!" if p[1] in w["path"] else f"{w['tag']}{suf}p" + ("" if left is None else f"~{left}")))
                table_pps.append("E" + "+".join(ent))
        runs.append(f"{1 if run['allow'] else 0}:{','.join(table_pps) or '-'}:{','.join(ws)}")
    return nodes, runs, probe, ids


def run_stream(ctx, drv, c12, scenarios, pool, label="fsx"):
    base = ctx.scratch / f"fsx_{label}"
    base.mkdir()
    prog = base / "pp.sh"
    prog.write_text(c12.PROG)
    prog.chmod(0o755)
    script = base / "fsx_script.py"
    script.write_text(FSX_SCRIPT)
    nchunks = max(1, min(16, len(scenarios) // 6))
    chunks = [scenarios[i::nchunks] for i in range(nchunks)]
    for ci, ch in enumerate(chunks):
        for k, sc in enumerate(ch):
            sc["id"] = f"c{ci}k{k}"
            d = base / f"c{ci}" / f"k{k}"
            d.mkdir(parents=True)
            sc["dir"] = str(d)
            full, have = [], {}
            # parents first; implied parent directories are part of the initial tree too
            for ent in sorted(sc["init"], key=lambda e: (e[1].count("/"), e[1])):
                kind, p = ent[0], ent[1]
                parent = os.path.dirname(p)
                skip = False
                for pre in _prefixes(parent) if parent else []:
                    if pre not in have:
                        (d / pre).mkdir()
                        os.chmod(d / pre, 0o755)
                        have[pre] = "D"
                        full.append(["D", pre, 0o755])
                    elif have[pre] != "D":
                        skip = True
                if skip or p in have:
                    continue
                if kind == "F":
                    text = f"stale {p}\n"
                    (d / p).write_text(text)
                    full.append(["F", p, ent[2], text])
                elif kind == "D":
                    (d / p).mkdir()
                    full.append(["D", p, ent[2]])
                else:
                    os.symlink(str(d / ent[2]), str(d / p))
                    full.append(["L", p, ent[2]])
                have[p] = kind
            # modes last (a 0o555 directory must be filled first — irrelevant as root, but keep the order honest)
            for ent in full:
                if ent[0] in ("F", "D"):
                    os.chmod(d / ent[1], ent[2])
            sc["full_init"] = full
            for ri, run in enumerate(sc["runs"]):
                for wi, w in enumerate(run["writes"]):
                    w["text"] = text_of(w["tag"])
                    if w["kind"] == "C":
                        res = base / f"c{ci}" / f"res_{k}_{ri}_{wi}.txt"
                        res.write_text(w["text"])
                        res.chmod(w["copy_mode"])
                        w["resource"] = str(res)

    def work(ci):
        wd = base / f"c{ci}"
        markers = wd / "markers"
        markers.mkdir()
        spec = {"scenarios": chunks[ci], "markers": str(markers), "prog": str(prog)}
        (wd / "spec.json").write_text(json.dumps(spec))
        rc, err, calls = c12.run_traced(wd, UMASK, [common.PY, str(script), str(wd / "spec.json"), str(wd / "result.json")], "fsx")
        if rc != 0:
            raise RuntimeError(f"fsx script failed: {err[-1500:]}")
        result = json.loads((wd / "result.json").read_text())
        main = calls[0][0]
        seg, cur = {}, None
        for call in calls:
            if call[1] == "mkdir" and call[2] and os.path.dirname(call[2][0]) == str(markers):
                cur = os.path.basename(call[2][0])
                seg[cur] = []
            elif cur is not None:
                seg[cur].append(call)
        return result, seg, main, str(wd)

    outs = list(pool.map(work, range(nchunks)))
    reqs, meta = [], []
    for ci, ch in enumerate(chunks):
        result = outs[ci][0]
        for k, sc in enumerate(ch):
            nodes, runs, probe, ids = model_request(sc)
            for st in result[k]["steps"]:
                probe |= set(st["snap"])
            probe = sorted(probe)
            reqs.append(f"fsx 1,{CREATE_MODE},{DIR_MODE} {'|'.join(nodes) or '-'} {';'.join(runs)} {','.join(probe)}")
            meta.append((ids, probe))
    answers = drv.ask(reqs, timeout=600) if drv is not None else [None] * len(reqs)
    ai = 0
    for ci, ch in enumerate(chunks):
        result, seg, main, wd = outs[ci]
        for k, sc in enumerate(ch):
            ans, (ids, probe) = answers[ai], meta[ai]
            ai += 1
            rev = {v: k2 for k2, v in ids.items()}
            slim = {"init": [e[:3] for e in sc["full_init"]],
                    "runs": [{"allow": r["allow"], "pps": r["pps"], "writes": [{k3: w[k3] for k3 in ("path", "tag", "kind", "copy_mode")} for w in r["writes"]]} for r in sc["runs"]]}
            ctx.case(("fsx", json.dumps(slim, sort_keys=True)), nontrivial=True)
            ctx.count(f"fsx_{label}_histories")
            before = {e[1]: (["F", e[2], hashlib.sha256(e[3].encode()).hexdigest()] if e[0] == "F" else [e[0], e[2]]) for e in sc["full_init"]}
            msteps = ans.split(";") if ans not in (None, "bad-op") else None
            if ans == "bad-op":
                ctx.disagree("fsx-driver", {"scenario": slim}, ans, "request not understood")
            for si, run in enumerate(sc["runs"]):
                real = result[k]["steps"][si]
                ev = c12.tree_events(seg.get(f"{sc['id']}_{si}", []), wd, pathlib.Path(sc["dir"]), mainpid=main)
                ops = fsx_ops(ev)
                ctx.count("fsx_status=" + real["status"].split(":")[0])
                if msteps is not None:
                    listing = "|".join(show_entry(p, real["snap"][p], rev) for p in probe if p in real["snap"]) or "-"
                    mstatus, mops, mfs = msteps[si].split("#")
                    want = (mstatus.split("@")[0], c12.model_ops(mops), mfs)
                    got = (real["status"], ops, listing)
                    ctx.traces += 1
                    if got != want:
                        what = [n for n, a, b in zip(("status", "ops", "fs"), got, want) if a != b]
                        ctx.disagree("fsx-history", {"scenario": slim, "step": si, "differs": what},
                                     {"status": want[0], "ops": want[1], "fs": want[2]}, {"status": got[0], "ops": got[1], "fs": got[2]})
                check_step(ctx, slim, si, run, before, real, ops, ids)
                before = real["snap"]
    for dp, dn, fn in os.walk(base):
        for d in dn:
            p = os.path.join(dp, d)
            if not os.path.islink(p):
                os.chmod(p, 0o755)


def show_entry(p, e, rev):
    if e[0] == "F":
        return f"F:{p}={rev.get(e[2], 'unknown:' + e[2][:10])}={e[1]}"
    if e[0] == "D":
        return f"D:{p}={e[1]}"
    return f"L:{p}={e[1]}"


def fsx_ops(events):
    ops = []
    for e in events:
        if e[0] == "mkdir":
            if e[2] == "ok":
                ops.append(f"mkdir@{e[1]}")
        elif e[0] == "open":
            _, p, res, flags = e
            ops.append(f"open@{p}" if res == "ok" else f"openfail@{p}")
        elif e[0] == "chmod":
            ops.append(f"chmod@{e[1]}@{e[2]}")
        elif e[0] == "exec":
            if e[2] or not (ops and ops[-1] in (f"exec@{e[1]}", f"exec@{e[1]}@mode")):
                ops.append(f"exec@{e[1]}")
        elif e[0] == "childmode":
            if ops and ops[-1] in (f"exec@{e[1]}", f"exec@{e[1]}@mode"):
                ops[-1] = f"exec@{e[1]}@mode"
            else:
                ops.append(f"childmode?@{e[1]}")
        else:
            ops.append(f"{e[1]}?@{e[2]}")
    return ops


def _resolve(snap, p):
    """Follow links (targets are real paths) component by component in a snapshot; -> real path or None."""
    cur = ""
    parts = p.split("/")
    for i, name in enumerate(parts):
        q = (cur + "/" + name).lstrip("/")
        e = snap.get(q)
        if e is None:
            return None
        if e[0] == "L":
            q = e[1]
            e = snap.get(q)
            if e is None or e[0] == "L":
                return None
        if i + 1 < len(parts) and e[0] != "D":
            return None
        cur = q
    return cur


def check_step(ctx, slim, si, run, before, real, ops, ids):
    """The property itself on the implementation (no model involved)."""
    after = real["snap"]
    rp = {"scenario": slim, "step": si}
    if not run["allow"]:
        changed = sorted(p for p, e in before.items() if after.get(p) != e)
        if changed:
            ctx.fail({"kind": "fsx-no-overwrite-changed"}, "a --no-overwrite run changed or removed an entry that existed before it",
                     dict(rp, entries=[[p, before[p], after.get(p)] for p in changed[:4]]))
        touched = sorted({o.split("@")[1] for o in ops if o.split("@")[0] in ("chmod", "open") and _resolve(before, o.split("@")[1]) is not None})
        if touched:
            ctx.fail({"kind": "fsx-no-overwrite-op-on-existing"}, "a --no-overwrite run issued chmod/open on a path that resolved to an existing entry",
                     dict(rp, paths=touched))
        return
    links_changed = sorted(p for p, e in before.items() if e[0] == "L" and after.get(p) != e)
    if links_changed:
        ctx.fail({"kind": "fsx-link-replaced"}, "an overwriting run replaced or retargeted a symbolic link", dict(rp, links=links_changed))
    if real["status"] != "ok":
        return
    dirs_changed = sorted(p for p, e in before.items() if e[0] == "D" and after.get(p) != e and p not in [w["path"] for w in run["writes"]])
    if dirs_changed:
        ctx.fail({"kind": "fsx-existing-dir-mode-changed"}, "an overwriting run changed the mode of a directory that existed (exist_ok)",
                 dict(rp, dirs=[[p, before[p], after.get(p)] for p in dirs_changed]))
    last = {}
    for w in run["writes"]:
        last[_resolve(after, w["path"]) or ("?" + w["path"])] = w
    npp = sum(1 for p in run["pps"] if p[0] == "E")
    fm = None
    if run["pps"] and run["pps"][-1][0] == "M":
        fm = run["pps"][-1][1] & 0o7777
    for real_path, w in last.items():
        e = after.get(real_path)
        want = ids.get(w["tag"] + "p" * npp)
        if e is not None and e[0] == "D" and w["kind"] == "C":
            ctx.fail({"kind": "fsx-copy-into-directory"},
                     "a copied resource whose output path is a directory: the run succeeds, the output path still is a directory (the file went inside it)",
                     dict(rp, path=w["path"], got=e))
        elif e is None or e[0] != "F" or e[2] != want:
            ctx.fail({"kind": "fsx-overwrite-content"}, "after a successful overwriting run an output does not read as the content of this run",
                     dict(rp, path=w["path"], resolves_to=real_path, got=e))
        elif fm is not None and e[1] != fm:
            ctx.fail({"kind": "fsx-overwrite-mode"}, "after a successful overwriting run an output does not carry the requested mode",
                     dict(rp, path=w["path"], resolves_to=real_path, got=oct(e[1]), expected=oct(fm)))
